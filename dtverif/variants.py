"""Self-validation catalogue: V(name, file, old, new, fires=<rule>|None)."""
from .selfval import V

CATALOGUE = {}

# --------------------------------------------------------------------- C08
CATALOGUE['C08'] = [
    V('silent: _pop by negative slice, every caller passes >= 1',
      '_DocumentTemplate.py',
      """        l_ = len(self._data)
        i = l_ - i
        r = self._data[l_ - 1]
        self._data[i:l_] = []
        return r""",
      """        r = self._data[-1]
        del self._data[-i:]
        return r"""),
    V('silent: unguarded pop of the recursion guard, _pop(0) is exact',
      'DT_String.py',
      """            if pushed:
                md._pop(pushed)
            raise SystemError""",
      """            md._pop(pushed)
            raise SystemError"""),
    V('let: pop after body, no finally', 'DT_Let.py',
      """        try:
            for name, expr in self.args:
                if isinstance(expr, str):
                    d[name] = md[expr]
                else:
                    d[name] = expr(md)
            return render_blocks(self.section, md, encoding=self.encoding)
        finally:
            md._pop(1)
""",
      """        for name, expr in self.args:
            if isinstance(expr, str):
                d[name] = md[expr]
            else:
                d[name] = expr(md)
        r = render_blocks(self.section, md, encoding=self.encoding)
        md._pop(1)
        return r
""", 'C08.R1'),
    V('with: pops two', 'DT_With.py', 'md._pop(1)', 'md._pop(2)', 'C08.R1'),
    V('with: push inside try after raising call', 'DT_With.py',
      """        md._push(v)
        try:
            return render_blocks(""",
      """        try:
            md['x']
            md._push(v)
            return render_blocks(""", 'C08.R1'),
    V('if: no pop in finally', '_DocumentTemplate.py',
      """                finally:
                    md._pop()""",
      """                finally:
                    pass""", 'C08.R1'),
    V('in: cache pop dropped', 'DT_In.py',
      """        finally:
            if cache:
                pop()
            pop()

        return result

    def renderwob""",
      """        finally:
            pop()

        return result

    def renderwob""", 'C08.R1'),
    V('in: item pop only on success', 'DT_In.py',
      """                try:
                    append(render(section, md, encoding=self.encoding))
                finally:
                    if pushed:
                        pop()
                # only the first element rendered is the start
                pkw['sequence-start'] = 0

            result""",
      """                append(render(section, md, encoding=self.encoding))
                if pushed:
                    pop()
                # only the first element rendered is the start
                pkw['sequence-start'] = 0

            result""", 'C08.R1'),
    V('call: level not restored', 'DT_String.py',
      '            md.level = level  # Restore previous level',
      '            pass', 'C08.R2'),
    V('call: level restored only on success', 'DT_String.py',
      """        finally:
            if pushed:
                md._pop(pushed)  # Get rid of circular reference!
            md.level = level  # Restore previous level""",
      """            md.level = level
        finally:
            if pushed:
                md._pop(pushed)  # Get rid of circular reference!""",
      'C08.R2'),
    V('call: pop before raise removed (the repaired defect)', 'DT_String.py',
      """            if pushed:
                md._pop(pushed)
            raise SystemError""",
      """            raise SystemError""", 'C08.R1'),
    V('try: handler push moved before try', 'DT_Try.py',
      """                md._push(InstanceDict(ns, md))
                return render_blocks(handler, md, encoding=self.encoding)
            finally:
                md._pop(1)""",
      """                md._push(InstanceDict(ns, md))
                return render_blocks(handler, md, encoding=self.encoding)
            finally:
                return ''""", 'C08.R1'),
    V('tree: finally dropped in get_items (the repaired defect)',
      'TreeTag.py',
      """                    try:
                        items = branches_expr(md)
                    finally:
                        md._pop()""",
      """                    items = branches_expr(md)
                    md._pop()""", 'C08.R1'),
    V('tree: pop(2) -> pop(1)', 'TreeTag.py', 'md._pop(2)', 'md._pop(1)',
      'C08.R1'),
    V('template dict data poked from outside', 'DT_With.py',
      '        md._push(v)\n        try:',
      '        md._data.append(v)\n        try:', 'C08.R3'),
    # silent
    V('silent: _pop() <-> _pop(1)', 'DT_Let.py', 'md._pop(1)', 'md._pop()'),
    V('silent: alias rename', 'DT_In.py', 'pop = md._pop', 'pop = md._pop ',
      None, 2),
    V('silent: x = x + 1 -> x += 1', 'DT_String.py',
      """                push(InstanceDict(client, md))  # Circ. Ref. 8-|
                pushed = pushed + 1""",
      """                push(InstanceDict(client, md))  # Circ. Ref. 8-|
                pushed += 1"""),
    V('silent: push extracted into a helper method', 'DT_Let.py',
      """    def render(self, md):
        d = {}
        md._push(d)
        try:""",
      """    def _enter(self, md, d):
        md._push(d)

    def render(self, md):
        d = {}
        self._enter(md, d)
        try:"""),
    V('helper pushes but caller forgets the pop', 'DT_Let.py',
      """    def render(self, md):
        d = {}
        md._push(d)
        try:
            for name, expr in self.args:
                if isinstance(expr, str):
                    d[name] = md[expr]
                else:
                    d[name] = expr(md)
            return render_blocks(self.section, md, encoding=self.encoding)
        finally:
            md._pop(1)""",
      """    def _enter(self, md, d):
        md._push(d)

    def render(self, md):
        d = {}
        self._enter(md, d)
        for name, expr in self.args:
            if isinstance(expr, str):
                d[name] = md[expr]
            else:
                d[name] = expr(md)
        return render_blocks(self.section, md, encoding=self.encoding)""",
      'C08.R1'),
    V('flag helper (push through a callable) reports 0 after pushing',
      'DT_In.py',
      """                if no_push_item:
                    pushed = 0
                elif mapping:
                    pushed = 1
                    push(client)
                elif t in StringTypes:
                    pushed = 0
                else:
                    pushed = 1
                    push(InstanceDict(client, md))
""",
      """                pushed = push_client(push, md, client, t,
                                     no_push_item, mapping)
""", 'C08.R1', 1,
      (("class InFactory:", """def push_client(push, md, client, t, no_push_item, mapping):
    if no_push_item:
        return 0
    if mapping:
        push(client)
        return 0
    if t in StringTypes:
        return 0
    push(InstanceDict(client, md))
    return 1


class InFactory:"""),)),
    V('silent: hoist benign statement between push and try', 'DT_Let.py',
      """        md._push(d)
        try:""",
      """        md._push(d)
        n = len(self.args)
        try:"""),
]

# --------------------------------------------------------------------- C04
_CAPALL = '''def capitalize_all(v, name='', md={}):
    return str(v).title()


special_formats = {'''

CATALOGUE['C04'] = [
    V('thousands_commas re-taints before the fraction is appended',
      'DT_Var.py',
      """    v = v + s
    if wastainted and '<' in v:
        v = TaintedString(v)
    return v""",
      """    if wastainted and '<' in v:
        v = TaintedString(v)
    return v + s""", 'C04.R1'),
    V('fraction rebuilt by a comprehension, re-taint too early',
      'DT_Var.py',
      """    v = v + s
    if wastainted and '<' in v:
        v = TaintedString(v)
    return v""",
      """    s = ''.join(part for part in [s])
    if wastainted and '<' in v:
        v = TaintedString(v)
    return v + s""", 'C04.R1'),
    V('lower drops the mark', 'DT_Var.py',
      'def lower(val):\n    return val.lower()',
      'def lower(val):\n    return str(val).lower()', 'C04.R1'),
    V('final quoted() removed', 'DT_Var.py',
      """        if isinstance(val, TaintedString):
            val = val.quoted()

        return val""",
      """        return val""", 'C04.R1'),
    V('re-wrap after C format removed', 'DT_Var.py',
      """            if wastainted and '<' in val:
                val = TaintedString(val)

        # next, look""",
      """            pass

        # next, look""", 'C04.R1'),
    V('re-wrap after C format keyed on wrong flag', 'DT_Var.py',
      """            wastainted = 0
            if isinstance(val, TaintedString):
                wastainted = 1""",
      """            wastainted = 0
            if isinstance(val, str):
                wastainted = 1""", 'C04.R1'),
    V('fmt % val not re-wrapped', 'DT_Var.py',
      """                    if isinstance(val, TaintedString):
                        val = TaintedString(fmt % val)
                    else:
                        val = fmt % val

        # finally""",
      """                    val = fmt % val

        # finally""", 'C04.R1'),
    V('simple form: untaint block dropped', '_DocumentTemplate.py',
      """                    if untaintmethod is not None:
                        # Quote it
                        t = untaintmethod()
                        skip_html_quote = 1""",
      """                    if untaintmethod is not None:
                        skip_html_quote = 1""", 'C04.R1'),
    V('simple form: untaint only in 3-tuples', '_DocumentTemplate.py',
      """                if not isinstance(t, (str, bytes)):
                    # This might be a TaintedString object""",
      """                if not isinstance(t, (str, bytes)) and len(block) == 3:
                    # This might be a TaintedString object""", 'C04.R1'),
    V('thousands_commas re-wrap removed (the repaired defect)', 'DT_Var.py',
      """    v = v + s
    if wastainted and '<' in v:
        v = TaintedString(v)
    return v""",
      """    return v + s""", 'C04.R1'),
    V('url_unquote re-wrap removed (the repaired defect)', 'DT_Var.py',
      """    v = urllib.parse.unquote(str(v))
    if wastainted and '<' in v:
        v = TaintedString(v)
    return v""",
      """    return urllib.parse.unquote(str(v))""", 'C04.R1'),
    V('method format re-wrap removed (the repaired defect)', 'DT_Var.py',
      """                    if wastainted and isinstance(val, str) and '<' in val:
                        val = TaintedString(val)""",
      """                    pass""", 'C04.R1'),
    V('sql_quote stringifies', 'DT_Var.py',
      """    if isinstance(v, bytes):
        v = v.decode('UTF-8')

    # Remove bad""",
      """    if isinstance(v, bytes):
        v = v.decode('UTF-8')
    v = '%s' % v

    # Remove bad""", 'C04.R1'),
    V('new taint-unaware special format', 'DT_Var.py',
      """    'sql-quote': sql_quote,""",
      """    'sql-quote': sql_quote,
    'shout': capitalize_all,""", 'C04.R1',
      extra=[('special_formats = {', _CAPALL)]),
    V('new taint-unaware modifier', 'DT_Var.py',
      """    thousands_commas, sql_quote,
)""",
      """    thousands_commas, sql_quote,
    capitalize_all,
)""", 'C04.R1', extra=[('special_formats = {', _CAPALL)]),
    V('newline_to_br does not pre-quote', 'DT_Var.py',
      """    if isinstance(v, TaintedString):
        v = v.quoted()
    v = ustr(v)""",
      """    v = ustr(v)""", 'C04.R1'),
    V('wrapper: kw loop forgets flag', 'DT_Util.py',
      """            if isinstance(v, TaintedString):
                tainted = 1
                kw[k] = str(v)""",
      """            if isinstance(v, TaintedString):
                kw[k] = str(v)""", 'C04.R2'),
    V('wrapper: no re-taint', 'DT_Util.py',
      """        if tainted and isinstance(retval, str) and '<' in retval:
            retval = TaintedString(retval)
        return retval""",
      """        return retval""", 'C04.R2'),
    V('simple form: untainted value quoted again', '_DocumentTemplate.py',
      """                        t = untaintmethod()
                        skip_html_quote = 1""",
      """                        t = untaintmethod()""", 'C04.R3'),
    # silent
    V('silent: inline wastainted', 'DT_Var.py',
      """            wastainted = 0
            if isinstance(val, TaintedString):
                wastainted = 1""",
      """            wastainted = isinstance(val, TaintedString)"""),
    V('silent: equivalent guard in modifier loop', 'DT_Var.py',
      """            if f.__name__ == 'html_quote' and isinstance(val, TaintedString):
                # TaintedStrings will be quoted by default, don't double quote.
                continue
            val = f(val)""",
      """            if not (f.__name__ == 'html_quote' and
                    isinstance(val, TaintedString)):
                val = f(val)"""),
    V('silent: rename local in thousands_commas', 'DT_Var.py',
      'wastainted = isinstance(v, TaintedString)\n    v = str(v)\n    vl',
      'was_t = isinstance(v, TaintedString)\n    wastainted = was_t\n'
      '    v = str(v)\n    vl'),
]

# --------------------------------------------------------------------- C06
CATALOGUE['C06'] = [
    V('prefix grammar: str.isidentifier', 'DT_Util.py',
      "simple_name = re.compile('^[a-z][a-z0-9_]*$', re.I).match",
      "simple_name = str.isidentifier", 'C06.R7'),
    V('prefix grammar: leading underscore accepted', 'DT_Util.py',
      "simple_name = re.compile('^[a-z][a-z0-9_]*$', re.I).match",
      "simple_name = re.compile('^[a-z_][a-z0-9_]*$', re.I).match", 'C06.R7'),
    V('prefix grammar: not anchored at the end', 'DT_Util.py',
      "simple_name = re.compile('^[a-z][a-z0-9_]*$', re.I).match",
      "simple_name = re.compile('^[a-z][a-z0-9_]*', re.I).match", 'C06.R7'),
    V('silent: prefix grammar spelt with \\w and re.A', 'DT_Util.py',
      "simple_name = re.compile('^[a-z][a-z0-9_]*$', re.I).match",
      "simple_name = re.compile(r'^[a-zA-Z]\\w*$', re.A).match"),
    V('start-tag arguments follow the continuation', 'DT_String.py',
      """        sa = sargs
        while 1:""",
      """        while 1:""", 'C06.R8',
      extra=[("""                tag, args, command, coname = self._parseTag(mo, scommand, sa)
            except ParseError as m:
                self.parse_error(m.args[0], m.args[1], text, l_)

            if command:
                start = l_ + len(tag)
                if hasattr""", """                tag, args, command, coname = self._parseTag(mo, scommand,
                                                            sargs)
            except ParseError as m:
                self.parse_error(m.args[0], m.args[1], text, l_)

            if command:
                start = l_ + len(tag)
                if hasattr""")]),
    V('param pattern made ambiguous', 'DT_Util.py',
      """qunparmre=re.compile('([\\000- ]*("[^"]*"))')""",
      """qunparmre=re.compile('([\\000- ]*("(.*)*"))')""", 'C06.R1'),
    V('tagre: inner + restored (the repaired defect)', 'DT_String.py',
      """'(?P<args>([^\\\\)"]("[^"]*")?)*)' """,
      """'(?P<args>([^\\\\)"]+("[^"]*")?)*)'""", 'C06.R1'),
    V('scanner name pattern doubled star', 'DT_HTML.py',
      "name_match=re.compile('[\\000- ]*[a-zA-Z]+[\\000- ]*').match",
      "name_match=re.compile('([\\000- ]*[a-zA-Z]+)+[\\000- ]*').match",
      'C06.R1'),
    V('If raises ValueError', 'DT_If.py',
      "raise ParseError('name in else does not match if', 'in')",
      "raise ValueError('name in else does not match if', 'in')", 'C06.R2'),
    V('ParseError with one argument', 'DT_In.py',
      "raise ParseError('too many else blocks', 'in')",
      "raise ParseError('too many else blocks')", 'C06.R2'),
    V('shorthand Eval unwrapped in name_param', 'DT_Util.py',
      """                try:
                    expr = Eval(v)
                except SyntaxError as v:
                    raise ParseError(
                        '<strong>Expression (Python) Syntax error</strong>:'
                        '\\n<pre>\\n%s\\n</pre>\\n' % v.args[0],
                        tag)
""",
      """                expr = Eval(v)
""", 'C06.R2'),
    V('single char index on source (the repaired defect)', 'DT_HTML.py',
      "text[s + 5:s + 6] in ('.', '-'):", "text[s + 5] in '.-':",
      'C06.R3a'),
    V('skip_eol peeks a character', 'DT_String.py',
      """        mo = eol.match(text, start)
        if mo is not None:""",
      """        mo = eol.match(text, start)
        if mo is not None and text[start] != 'x':""", 'C06.R3a'),
    V('name_param reads name without test', 'DT_Util.py',
      """    elif attr in params:
        if expr:""",
      """    elif attr in params or params[attr]:
        if expr:""", 'C06.R3b'),
    V('With reads mapping without membership test', 'DT_With.py',
      "if 'mapping' in args and args['mapping']:",
      "if args['mapping']:", 'C06.R3b'),
    V('In reads sort after wrong test', 'DT_In.py',
      """        if 'sort' in args:
            self.sort = sort = args['sort']""",
      """        if 'sort_expr' in args:
            self.sort = sort = args['sort']""", 'C06.R3b'),
    V('Let destructures again (the repaired defect)', 'DT_Let.py',
      """                except SyntaxError as v:
                    raise ParseError(""",
      """                except SyntaxError as v:
                    m, (huh, l, c, src) = v
                    raise ParseError(""", 'C06.R3c'),
    V('block error at end tag (the repaired defect)', 'DT_String.py',
      "self.parse_error(m.args[0], stag, text, sloc)",
      "self.parse_error(m.args[0], stag, text, l_)", 'C06.R4'),
    V('no closing tag located at scan position', 'DT_String.py',
      """            if mo is None:
                self.parse_error('No closing tag', stag, text, sloc)
            l_ = mo.start(0)

            try:
                tag, args, command, coname = self._parseTag(mo, scommand, sa)
            except ParseError as m:
                self.parse_error(m.args[0], m.args[1], text, l_)

            if command:""",
      """            if mo is None:
                self.parse_error('No closing tag', stag, text, start)
            l_ = mo.start(0)

            try:
                tag, args, command, coname = self._parseTag(mo, scommand, sa)
            except ParseError as m:
                self.parse_error(m.args[0], m.args[1], text, l_)

            if command:""", 'C06.R4'),
    V('new self-recursive helper', 'DT_If.py',
      """class If:""",
      """def _count(blocks):
    if not blocks:
        return 0
    return 1 + _count(blocks[1:])


class If:""", 'C06.R5',
      extra=[("        tname, args, section = blocks[0]\n"
              "        args = parse_params(args, name='', expr='')\n"
              "        name, expr = name_param(args, 'if', 1)",
              "        tname, args, section = blocks[0]\n"
              "        _count(blocks)\n"
              "        args = parse_params(args, name='', expr='')\n"
              "        name, expr = name_param(args, 'if', 1)")]),
    V('registry entry names missing attribute', 'DT_String.py',
      "'in': ('in', 'DT_In', 'In'),", "'in': ('in', 'DT_In', 'Inn'),",
      'C06.R6'),
    V('command name differs from key', 'DT_If.py',
      "    name = 'unless'", "    name = 'unles'", 'C06.R6'),
    # silent
    V('silent: \\d instead of [0-9] in tagre', 'DT_String.py',
      "(?P<fmt>[0-9]*[.]?[0-9]*[a-z]|[]![])",
      "(?P<fmt>[0-9]*[.]?\\\\d*[a-z]|[]![])"),
    V('silent: membership via early raise', 'DT_With.py',
      "if 'mapping' in args and args['mapping']:",
      "if 'mapping' in args and args['mapping'] and True:"),
    V('silent: rename l_ in parse', 'DT_String.py',
      """            l_ = mo.start(0)

            try:
                tag, args, command, coname = self._parseTag(mo)
            except ParseError as m:
                self.parse_error(m.args[0], m.args[1], text, l_)""",
      """            pos = mo.start(0)
            l_ = pos

            try:
                tag, args, command, coname = self._parseTag(mo)
            except ParseError as m:
                self.parse_error(m.args[0], m.args[1], text, pos)"""),
]

# --------------------------------------------------------------------- C14
CATALOGUE['C14'] = [
    V('try: DTReturn re-raise removed', 'DT_Try.py',
      """        except DTReturn:
            raise
        except Exception:""",
      """        except Exception:""", 'C14.R1'),
    V('raise: DTReturn re-raise removed (the repaired defect)',
      'DT_Raise.py',
      """        except DTReturn:
            raise
        except Exception:""",
      """        except Exception:""", 'C14.R1'),
    V('in: per-item render guarded by except Exception', 'DT_In.py',
      """                try:
                    append(render(section, md, encoding=self.encoding))
                finally:
                    if pushed:
                        pop()
                # only the first element rendered is the start
                pkw['sequence-start'] = 0

            result""",
      """                try:
                    append(render(section, md, encoding=self.encoding))
                except Exception:
                    append('')
                finally:
                    if pushed:
                        pop()
                # only the first element rendered is the start
                pkw['sequence-start'] = 0

            result""", 'C14.R1'),
    V('with: swallows everything incl. return', 'DT_With.py',
      """        try:
            return render_blocks(self.section, md, encoding=self.encoding)
        finally:""",
      """        try:
            return render_blocks(self.section, md, encoding=self.encoding)
        except BaseException:
            return ''
        finally:""", 'C14.R1'),
    V('call: catch point widened', 'DT_String.py',
      """                try:
                    result = render_blocks(self._v_blocks, md,
                                           encoding=encoding)
                except DTReturn as v:
                    result = v.v
                self.ZDocumentTemplate_afterRender(md, result)""",
      """                try:
                    result = render_blocks(self._v_blocks, md,
                                           encoding=encoding)
                    self.ZDocumentTemplate_afterRender(md, result)
                except DTReturn as v:
                    result = v.v""", 'C14.R2'),
    V('let catches DTReturn', 'DT_Let.py',
      """            return render_blocks(self.section, md, encoding=self.encoding)
        finally:""",
      """            return render_blocks(self.section, md, encoding=self.encoding)
        except DTReturn as r:
            return r.v
        finally:""", 'C14.R2',
      extra=[('from .DT_Util import ParseError',
              'from .DT_Util import ParseError\n'
              'from .DT_Return import DTReturn')]),
    V('else rendered inside the try body', 'DT_Try.py',
      """            result = render_blocks(self.section, md, encoding=self.encoding)
        except DTReturn:""",
      """            result = render_blocks(self.section, md, encoding=self.encoding)
            if self.elseBlock is not None:
                result = result + render_blocks(self.elseBlock, md,
                                                encoding=self.encoding)
        except DTReturn:""", 'C14.R3-R5'),
    V('finally rendered after the try', 'DT_Try.py',
      """        try:
            result = render_blocks(self.section, md, encoding=self.encoding)
        # Then handle finally block
        finally:
            result = join_unicode(
                [result, render_blocks(self.finallyBlock, md,
                                       encoding=self.encoding)],
                encoding=self.encoding)
        return result""",
      """        result = render_blocks(self.section, md, encoding=self.encoding)
        result = join_unicode(
            [result, render_blocks(self.finallyBlock, md,
                                   encoding=self.encoding)],
            encoding=self.encoding)
        return result""", 'C14.R3-R5'),
    V('handler body guarded by except', 'DT_Try.py',
      """                return render_blocks(handler, md, encoding=self.encoding)
            finally:
                md._pop(1)""",
      """                return render_blocks(handler, md, encoding=self.encoding)
            except Exception:
                return ''
            finally:
                md._pop(1)""", 'C14.R3-R5'),
    V('raise returns normally', 'DT_Raise.py',
      """        t, v = upgradeException(t, v)
        raise t(v)""",
      """        t, v = upgradeException(t, v)
        if t is None:
            return v
        raise t(v)""", 'C14.R6-R7'),
    V('handlers searched in reverse', 'DT_Try.py',
      "        for e, h in self.handlers:",
      "        for e, h in reversed(self.handlers):", 'C14.R6-R7'),
    V('match_base does not recurse', 'DT_Try.py',
      "if base.__name__ == name or self.match_base(base, name):",
      "if base.__name__ == name:", 'C14.R6-R7'),
    # silent
    V('silent: explicit tuple in handler', 'DT_Try.py',
      """        except DTReturn:
            raise
        except Exception:""",
      """        except (DTReturn,):
            raise
        except Exception:"""),
    V('silent: int_param handler untouched / extra benign try', 'DT_In.py',
      """        try:
            query_string = md['QUERY_STRING']
        except Exception:
            query_string = ''
        prefix = params.get('prefix')""",
      """        try:
            query_string = md['QUERY_STRING']
        except BaseException:
            query_string = ''
        prefix = params.get('prefix')"""),
]

# --------------------------------------------------------------------- C09
CATALOGUE['C09'] = [
    V('call gets its own render', 'DT_Var.py',
      "        self.simple_form = ('i', expr, None)",
      "        self.expr = expr", 'C09.R4'),
    V('cache store dropped', '_DocumentTemplate.py',
      """                            else:
                                cache[n] = cond
                        else:""",
      """                        else:""", 'C09.R2'),
    V('cache store after the body', '_DocumentTemplate.py',
      """                            else:
                                cache[n] = cond
                        else:
                            cond = cond(md)

                        if cond:
                            block = block[icond + 2]
                            if block:
                                render_blocks_(block, rendered, md, encoding)""",
      """                            else:
                                pass
                        else:
                            cond = cond(md)

                        if cond:
                            block = block[icond + 2]
                            if block:
                                render_blocks_(block, rendered, md, encoding)
                            cache[n] = cond""", 'C09.R2'),
    V('cache shared between conditionals', '_DocumentTemplate.py',
      """    for block in blocks:
        append = True
""",
      """    cache = {}
    for block in blocks:
        append = True
""", 'C09.R2',
      extra=[("""                bs = len(block) - 1  # subtract code
                cache = {}
""", """                bs = len(block) - 1  # subtract code
""")]),
    V('second evaluation of the name', '_DocumentTemplate.py',
      """                        if cond:
                            block = block[icond + 2]""",
      """                        if cond and (not isinstance(n, str) or md[cond]):
                            block = block[icond + 2]""", 'C09.R1'),
    V('no break after the body: later conditions evaluated',
      '_DocumentTemplate.py',
      """                            m = -1
                            break
""",
      """                            m = -1
""", 'C09.R1'),
    V('else rendered after a true branch (sentinel lost)',
      '_DocumentTemplate.py',
      """                            m = -1
                            break
""",
      """                            icond = m
                            break
""", 'C09.R1'),
    V('expression condition evaluated twice', '_DocumentTemplate.py',
      """                            cond = cond(md)
""",
      """                            cond(md)
                            cond = cond(md)
""", 'C09.R1'),
    V('undefined name raises', '_DocumentTemplate.py',
      """                            try:
                                cond = md[cond]
                            except KeyError as t:
                                if n != t.args[0]:
                                    raise
                                cond = None
                            else:
                                cache[n] = cond""",
      """                            cond = md[cond]
                            cache[n] = cond""", 'C09.R3'),
    V('foreign KeyError swallowed', '_DocumentTemplate.py',
      """                                if n != t.args[0]:
                                    raise
                                cond = None""",
      """                                cond = None""", 'C09.R3'),
    V('lookup guard catches everything', '_DocumentTemplate.py',
      "                            except KeyError as t:",
      "                            except Exception as t:", 'C09.R3'),
    V('unless compiled as if', 'DT_If.py',
      "self.simple_form = ('i', cond, None, section.blocks)",
      "self.simple_form = ('i', cond, section.blocks)", 'C09.R4'),
    V('call compiled with a body', 'DT_Var.py',
      "self.simple_form = ('i', expr, None)",
      "self.simple_form = ('i', expr, expr)", 'C09.R4'),
    V('if: else appended before the elifs', 'DT_If.py',
      """        sections = [cond, section.blocks]
""",
      """        sections = [cond, section.blocks, section.blocks]
""", 'C09.R4'),
    V('new opcode without handler', 'DT_Var.py',
      "self.simple_form = ('i', expr, None)",
      "self.simple_form = ('c', expr, None)", 'C09.R4'),
    # silent
    V('silent: icond += 2 -> icond = icond + 2', '_DocumentTemplate.py',
      "                        icond += 2", "                        icond += 1 + 1"),
    V('silent: rename cache var', '_DocumentTemplate.py',
      """                cache = {}
                md._push(cache)""",
      """                cache = {}
                kache = cache
                md._push(cache)"""),
]

# --------------------------------------------------------------------- C02
CATALOGUE['C02'] = [
    V('silent: class-level _vars default, initvars still rebinds it',
      'DT_String.py', "    shared_globals = {}\n",
      "    shared_globals = {}\n    _vars = {}\n"),
    V('class-level _vars default kept when present', 'DT_String.py',
      "    shared_globals = {}\n",
      "    shared_globals = {}\n    _vars = {}\n", 'C02.R6',
      extra=[("        self._vars = {}\n",
              "        if not hasattr(self, '_vars'):\n"
              "            self._vars = {}\n")]),
    V('vars and kw pushes swapped', 'DT_String.py',
      """        if self._vars:
            push(self._vars)
            pushed = pushed + 1

        if kw:
            push(kw)
            pushed = pushed + 1
""",
      """        if kw:
            push(kw)
            pushed = pushed + 1

        if self._vars:
            push(self._vars)
            pushed = pushed + 1
""", 'C02.R1'),
    V('mapping pushed under globals', 'DT_String.py',
      """            if globals:
                push(globals)
            if mapping:
                push(mapping)""",
      """            if mapping:
                push(mapping)
            if globals:
                push(globals)""", 'C02.R1'),
    V('client path reversed', 'DT_String.py',
      "                for ob in client:",
      "                for ob in reversed(client):", 'C02.R1'),
    V('seventh source', 'DT_String.py',
      """        if kw:
            push(kw)
            pushed = pushed + 1

        try:""",
      """        if kw:
            push(kw)
            pushed = pushed + 1
        push(self.__dict__)
        pushed = pushed + 1

        try:""", 'C02.R1'),
    V('template variables never pushed', 'DT_String.py',
      """        if self._vars:
            push(self._vars)
            pushed = pushed + 1

""", "", 'C02.R1'),
    V('ctor mapping overrides keyword defaults', 'DT_String.py',
      "if k[:1] != '_' and k not in vars:", "if k[:1] != '_':", 'C02.R2'),
    V('ctor copies underscore names', 'DT_String.py',
      "if k[:1] != '_' and k not in vars:", "if k not in vars:", 'C02.R2'),
    V('expressions fetch called', 'DT_Util.py',
      "d[name] = md.getitem(name, 0)", "d[name] = md.getitem(name, 1)",
      'C02.R3'),
    V('expressions fetch through __getitem__', 'DT_Util.py',
      "d[name] = md.getitem(name, 0)", "d[name] = md[name]", 'C02.R3'),
    V('md[name] no longer calls', '_DocumentTemplate.py',
      "return self.getitem(name, call=1)", "return self.getitem(name)",
      'C02.R3'),
    V('auto-call regardless of flag', '_DocumentTemplate.py',
      """            if call:
                if hasattr(e, '__render_with_namespace__'):""",
      """            if True:
                if hasattr(e, '__render_with_namespace__'):""", 'C02.R3'),
    V('with fetches its object uncalled', 'DT_With.py',
      "            v = md[expr]", "            v = md.getitem(expr, 0)",
      'C02.R3'),
    V('sub-template called without the namespace', '_DocumentTemplate.py',
      "                        return e(None, self)",
      "                        return e(None)", 'C02.R3'),
    V('lookup bottom-up', '_DocumentTemplate.py',
      """        for e in reversed(self._data):
            try:
                e = e[key]
            except (KeyError, NameError):
                continue

            if call:""",
      """        for e in self._data:
            try:
                e = e[key]
            except (KeyError, NameError):
                continue

            if call:""", 'C02.R4'),
    V('push at the front', '_DocumentTemplate.py',
      "        self._data.append(src)", "        self._data.insert(0, src)",
      'C02.R4'),
    V('let does not pop on return', 'DT_Let.py',
      """        finally:
            md._pop(1)""",
      """        finally:
            pass""", 'C02.R5'),
    # silent
    V('silent: hoist globals alias', 'DT_String.py',
      """            shared_globals = self.shared_globals
            if shared_globals:
                push(shared_globals)""",
      """            sg = self.shared_globals
            if sg:
                push(sg)"""),
    V('silent: keyword form of the flag', 'DT_Util.py',
      "d[name] = md.getitem(name, 0)", "d[name] = md.getitem(name, call=0)"),
]

# --------------------------------------------------------------------- C05
CATALOGUE['C05'] = [
    V('guards installed on the caller\'s namespace too', 'DT_String.py',
      """            md.guarded_getattr = self.guarded_getattr
            md.guarded_getitem = self.guarded_getitem
            if client is not None:""",
      """            if client is not None:""", 'C05.R6',
      extra=[("""        level = md.level
        if level > 200:""", """        md.guarded_getattr = self.guarded_getattr
        md.guarded_getitem = self.guarded_getitem
        level = md.level
        if level > 200:""")]),
    V('refused branches deleted in ascending order', 'TreeTag.py',
      """                    items = list(items)
                    unauth.reverse()
                    for index in unauth:""",
      """                    items = list(items)
                    for index in unauth:""", 'C05.R7'),
    V('InstanceDict uses plain getattr', '_DocumentTemplate.py',
      """        get = self.guarded_getattr
        if get is None:
            get = getattr
""",
      """        get = getattr
""", 'C05.R1'),
    V('careful_getattr fallback unconditional', 'DT_Util.py',
      """def careful_getattr(md, inst, name, default=_marker):

    get = md.guarded_getattr
    if get is None:
        get = getattr""",
      """def careful_getattr(md, inst, name, default=_marker):

    get = md.guarded_getattr
    if get is not None:
        get = getattr""", 'C05.R1'),
    V('method formats read with plain getattr', 'DT_Var.py',
      """                if hasattr(val, fmt):
                    wastainted = isinstance(val, TaintedString)
                    val = _get(val, fmt)()""",
      """                if hasattr(val, fmt):
                    wastainted = isinstance(val, TaintedString)
                    val = getattr(val, fmt)()""", 'C05.R1'),
    V('new per-item variable read by name', 'DT_InSV.py',
      """    def roman(self, index):""",
      """    def attr_of(self, index, name):
        return getattr(self.data['sequence-item'], name)

    def roman(self, index):""", 'C05.R1'),
    V('tree branches read unguarded', 'TreeTag.py',
      """            items = get(self, args['branches'])
            items = items()""",
      """            items = getattr(self, args['branches'])
            items = items()""", 'C05.R1'),
    V('in: item read unconditionally plain', 'DT_In.py',
      """            for index in range(l_):
                if index == last:
                    pkw['sequence-end'] = 1
                if guarded_getitem is not None:""",
      """            for index in range(l_):
                if index == last:
                    pkw['sequence-end'] = 1
                client = sequence[index]
                if guarded_getitem is not None:""", 'C05.R2'),
    V('in: guard test inverted', 'DT_In.py',
      """                    if guarded_getitem is not None:
                        try:
                            client = guarded_getitem(sequence, index)
                        except ValidationError as vv:
                            if 'skip_unauthorized' in params and \\""",
      """                    if guarded_getitem is None:
                        try:
                            client = guarded_getitem(sequence, index)
                        except ValidationError as vv:
                            if 'skip_unauthorized' in params and \\""",
      'C05.R2'),
    V('tree: validation pass dropped', 'TreeTag.py',
      """                try:
                    getitem(items, index)
                except ValidationError:
                    unauth.append(index)""",
      """                pass""", 'C05.R2'),
    V('underscore test after the read', '_DocumentTemplate.py',
      """        if key[0] == '_':
            if key != '__str__':
                raise KeyError(key)  # Don't divulge private data
            else:
                return str(self.inst)

        get = self.guarded_getattr
        if get is None:
            get = getattr

        try:
            result = get(self.inst, key)
        except AttributeError:
            raise KeyError(key)
""",
      """        get = self.guarded_getattr
        if get is None:
            get = getattr

        try:
            result = get(self.inst, key)
        except AttributeError:
            raise KeyError(key)

        if key[0] == '_':
            if key != '__str__':
                raise KeyError(key)  # Don't divulge private data
            else:
                return str(self.inst)
""", 'C05.R3'),
    V('underscore test dropped', '_DocumentTemplate.py',
      """        if key[0] == '_':
            if key != '__str__':
                raise KeyError(key)  # Don't divulge private data
            else:
                return str(self.inst)
""", "", 'C05.R3'),
    V('underscore branch answers private data', '_DocumentTemplate.py',
      """            if key != '__str__':
                raise KeyError(key)  # Don't divulge private data
            else:
                return str(self.inst)""",
      """            if key != '__str__':
                raise KeyError(key)  # Don't divulge private data
            else:
                return getattr(self.inst, key)()""", 'C05.R3'),
    V('_getattr_ bound to plain getattr', 'DT_Util.py',
      "                 '_getattr_': gattr,",
      "                 '_getattr_': getattr,", 'C05.R4'),
    V('unrestricted code under a guard', 'DT_Util.py',
      """            self.prepRestrictedCode()
            code = self.rcode""",
      """            self.prepUnrestrictedCode()
            code = self.ucode""", 'C05.R4'),
    V('builtins available', 'DT_Util.py',
      "                 '__builtins__': None}", "                 }",
      'C05.R4'),
    V('with only: getitem guard forgotten', 'DT_With.py',
      """            if hasattr(_md, 'guarded_getitem'):
                md.guarded_getitem = _md.guarded_getitem
""", "", 'C05.R5'),
    V('call: getattr guard not installed', 'DT_String.py',
      "            md.guarded_getattr = self.guarded_getattr\n", "",
      'C05.R5'),
    # silent
    V('silent: rename idiom local', 'DT_Util.py',
      """    get = md.guarded_getattr
    if get is None:
        get = getattr
    try:
        return get(inst, name)""",
      """    getter = md.guarded_getattr
    if getter is None:
        getter = getattr
    try:
        return getter(inst, name)"""),
    V('silent: literal-name read added', 'TreeTag.py',
      "    elif getattr(item, '_p_oid', None):",
      "    elif getattr(item, '_p_oid', None) and getattr(item, '_p_jar', 1):"),
]

# --------------------------------------------------------------------- C12
CATALOGUE['C12'] = [
    V('look-ahead probe one batch too far', 'DT_InSV.py',
      """        else:
            end = start + size - 1
            try:
                sequence[end + orphan - 1]""",
      """        else:
            end = start + size - 1
            try:
                sequence[end + orphan + size]""", 'C12.R3'),
    V('probe of the default window far beyond it', 'DT_InSV.py',
      """        start = 1
        end = start + size - 1
        try:
            sequence[end + orphan - 1]""",
      """        start = 1
        end = start + size - 1
        try:
            sequence[end + orphan + 5]""", 'C12.R3'),
    V('emptiness by truth test', 'DT_In.py',
      """        try:
            sequence[0]
        except IndexError:
            if self.elses:
                return render_blocks(self.elses, md, encoding=self.encoding)
            return ''

        section = self.section
        params = self.args
""",
      """        if not sequence:
            if self.elses:
                return render_blocks(self.elses, md, encoding=self.encoding)
            return ''

        section = self.section
        params = self.args
""", 'C12.R1'),
    V('length computed in renderwb', 'DT_In.py',
      """        last = end - 1
        first = start - 1
""",
      """        last = min(end, len(sequence)) - 1
        first = start - 1
""", 'C12.R1'),
    V('opt clamps with len eagerly', 'DT_InSV.py',
      """    else:
        start = 1
        end = start + size - 1
        try:
            sequence[end + orphan - 1]
        except Exception:
            end = len(sequence)
    return (start, end, size)""",
      """    else:
        start = 1
        end = min(start + size - 1, len(sequence))
    return (start, end, size)""", 'C12.R1'),
    V('sequence copied to a list', 'DT_In.py',
      """            sequence = sequence_ensure_subscription(md[name])
            cache = {name: sequence}
        else:
            sequence = sequence_ensure_subscription(expr(md))
            cache = None

        if isinstance(sequence, str):
            raise ValueError(
                'Strings are not allowed as input to the in tag.')

        # below we do not use ``not sequence`` because the
        # implied ``__len__`` is expensive for some (lazy) sequences
        # if not sequence:
        try:
            sequence[0]
        except IndexError:
            if self.elses:
                return render_blocks(self.elses, md, encoding=self.encoding)
            return ''

        section = self.section
        params = self.args""",
      """            sequence = sequence_ensure_subscription(md[name])
            cache = {name: sequence}
        else:
            sequence = sequence_ensure_subscription(expr(md))
            cache = None

        if isinstance(sequence, str):
            raise ValueError(
                'Strings are not allowed as input to the in tag.')
        sequence = list(sequence)

        # below we do not use ``not sequence`` because the
        # implied ``__len__`` is expensive for some (lazy) sequences
        # if not sequence:
        try:
            sequence[0]
        except IndexError:
            if self.elses:
                return render_blocks(self.elses, md, encoding=self.encoding)
            return ''

        section = self.section
        params = self.args""", 'C12.R1'),
    V('more-items probe by slice', 'DT_In.py',
      """                    # computing a length:
                    sequence[end]
                except IndexError:""",
      """                    # computing a length:
                    sequence[end:][0]
                except IndexError:""", 'C12.R1'),
    V('sequence_variables measures its items', 'DT_InSV.py',
      """        self.items = items
        self.query_string = query_string""",
      """        self.items = items
        self.n = len(items) if items is not None else 0
        self.query_string = query_string""", 'C12.R1'),
    V('ensure_subscription materialises', 'DT_Util.py',
      "    return SequenceFromIter(iter(obj))", "    return list(obj)",
      'C12.R2'),
    V('len pulls directly', 'DT_Util.py',
      """        while not self.finished:
            try:
                self[len(self.data)]
            except IndexError:
                pass
        return len(self.data)""",
      """        self.data.extend(self.it)
        self.finished = True
        return len(self.data)""", 'C12.R2'),
    V('negative index not refused', 'DT_Util.py',
      """        if idx < 0:
            raise IndexError(f"negative indexes are not supported {idx}")
""", "", 'C12.R2'),
    V('getitem drains the iterator', 'DT_Util.py',
      "while not self.finished and idx >= len(self.data):",
      "while not self.finished:", 'C12.R2'),
    # silent
    V('silent: rename sequence alias in previous_batches', 'DT_InSV.py',
      """        data = self.data
        sequence = self.items
        try:
            if not data['previous-sequence']:""",
      """        data = self.data
        seq = self.items
        sequence = seq
        try:
            if not data['previous-sequence']:"""),
]

# --------------------------------------------------------------------- C13
CATALOGUE['C13'] = [
    V('multi-key: falsy keys become the smallest key', 'DT_In.py',
      """                        if akey is None:
                            akey = _Smallest
                        k.append(akey)""",
      """                        k.append(akey or _Smallest)""", 'C13.R4'),
    V('reverse in place', 'DT_In.py',
      """        s = list(sequence)
        s.reverse()
        return s""",
      """        sequence.reverse()
        return sequence""", 'C13.R1'),
    V('sort appends to the input', 'DT_In.py',
      """        sequence = []
        for k, client in s:
            sequence.append(client)
        return sequence""",
      """        del sequence[:]
        for k, client in s:
            sequence.append(client)
        return sequence""", 'C13.R1'),
    V('reverse via alias then mutate', 'DT_In.py',
      """        s = list(sequence)
        s.reverse()
        return s""",
      """        s = sequence
        s.reverse()
        return s""", 'C13.R1'),
    V('renderwb reverses the looked-up list directly', 'DT_In.py',
      """        elif self.reverse is not None:
            sequence = self.reverse_sequence(sequence)

        next = previous = 0""",
      """        elif self.reverse is not None:
            sequence.reverse()

        next = previous = 0""", 'C13.R1'),
    V('desc by reversing a stable sort', 'DT_In.py',
      """            s.sort(key=itemgetter(0))

        sequence = []""",
      """            s.sort(key=itemgetter(0))
            if self.reverse:
                s.reverse()

        sequence = []""", 'C13.R2'),
    V('None handled before the call step', 'DT_In.py',
      """                    if not basic_type(type(k)) and callable(k):
                        try:
                            k = k()
                        except Exception:
                            k = _Smallest
                    if k is None:
                        k = _Smallest
""",
      """                    if k is None:
                        k = _Smallest
                    if not basic_type(type(k)) and callable(k):
                        try:
                            k = k()
                        except Exception:
                            k = _Smallest
""", 'C13.R4'),
    V('unkeyed sort', 'DT_In.py',
      "            s.sort(key=itemgetter(0))", "            s.sort()",
      'C13.R2'),
    V('sort keyed on the element', 'DT_In.py',
      "            s.sort(key=itemgetter(0))",
      "            s.sort(key=itemgetter(1))", 'C13.R2'),
    V('predicate on the value (the repaired defect)', 'DT_In.py',
      "if not basic_type(type(akey)) and callable(akey):",
      "if not basic_type(akey) and callable(akey):", 'C13.R3'),
    V('twins: single branch calls non-callables (the repaired defect)',
      'DT_In.py',
      "if not basic_type(type(k)) and callable(k):",
      "if not basic_type(type(k)):", 'C13.R4'),
    V('twins: multi keeps failing callable', 'DT_In.py',
      """                            except Exception:
                                akey = _Smallest""",
      """                            except Exception:
                                pass""", 'C13.R4'),
    V('twins: None handling dropped in single', 'DT_In.py',
      """                    if k is None:
                        k = _Smallest
""", "", 'C13.R4'),
    V('desc maps to +1', 'DT_In.py', "            multiplier = -1",
      "            multiplier = +1", 'C13.R5'),
    V('unknown direction accepted', 'DT_In.py',
      """        else:
            raise SyntaxError("sort oder must be either ASC or DESC")""",
      """        else:
            multiplier = +1""", 'C13.R5'),
    V('comparator ignores direction', 'DT_In.py',
      "                return n * multiplier", "                return n",
      'C13.R5'),
    # silent
    V('silent: sorted() copy then reverse', 'DT_In.py',
      """        s = list(sequence)
        s.reverse()
        return s""",
      """        s = [x for x in sequence]
        s.reverse()
        return s"""),
    V('silent: rename key variable in single branch', 'DT_In.py',
      """        s = []
        for client in sequence:
            k = None""",
      """        s = []
        for client in sequence:
            k = None
            unused = k"""),
]

# --------------------------------------------------------------------- C15
CATALOGUE['C15'] = [
    V('duplicate table entry (the repaired defect)', 'DT_Var.py',
      """    thousands_commas, sql_quote,
)""",
      """    thousands_commas, sql_quote, url_unquote,
)""", 'C15.R1'),
    V('modifier function renamed', 'DT_Var.py',
      "def spacify(val):", "def spacify_(val):", 'C15.R2',
      extra=[("    lower, upper, capitalize, spacify,",
              "    lower, upper, capitalize, spacify_,")]),
    V('option accepted without modifier', 'DT_Var.py',
      "                            newline_to_br=1, url=1)",
      "                            newline_to_br=1, url=1, title=1)",
      'C15.R2'),
    V('modifier removed from the table', 'DT_Var.py',
      "    lower, upper, capitalize, spacify,",
      "    lower, upper, capitalize,", 'C15.R2'),
    V('modifiers applied in written order', 'DT_Var.py',
      """        self.modifiers = tuple(
            map(lambda t: t[1],
                filter(lambda m, args=args, used=args.__contains__:
                       used(m[0]) and args[m[0]],
                       modifiers)))""",
      """        table = dict(modifiers)
        self.modifiers = tuple(
            table[a] for a in args if a in table and args[a])""",
      'C15.R3'),
    V('size before the modifiers', 'DT_Var.py',
      """        # next, look for upper, lower, etc
        for f in self.modifiers:
            if f.__name__ == 'html_quote' and isinstance(val, TaintedString):
                # TaintedStrings will be quoted by default, don't double quote.
                continue
            val = f(val)

""", "", 'C15.R4',
      extra=[("""        if isinstance(val, TaintedString):
            val = val.quoted()

        return val""", """        for f in self.modifiers:
            if f.__name__ == 'html_quote' and isinstance(val, TaintedString):
                continue
            val = f(val)

        if isinstance(val, TaintedString):
            val = val.quoted()

        return val""")]),
    V('upper calls lower', 'DT_Var.py',
      "def upper(val):\n    return val.upper()",
      "def upper(val):\n    return val.lower()", 'C15.R5'),
    V('url_unquote_plus uses unquote', 'DT_Var.py',
      "    v = urllib.parse.unquote_plus(str(v))",
      "    v = urllib.parse.unquote(str(v))", 'C15.R5'),
    V('sql_quote keeps CR', 'DT_Var.py',
      "    for char in ('\\x00', '\\x1a', '\\r'):",
      "    for char in ('\\x00', '\\x1a'):", 'C15.R5'),
    V('sql_quote does not double quotes', 'DT_Var.py',
      "        v = v.replace(char, char * 2)",
      "        v = v.replace(char, char)", 'C15.R5'),
    V('url-quote alias points to quote_plus', 'DT_Var.py',
      "    'url-quote': url_quote,", "    'url-quote': url_quote_plus,",
      'C15.R5'),
    V('fmt twins diverge', 'DT_Var.py',
      """                elif fmt == '':
                    val = ''
                else:
                    if isinstance(val, TaintedString):
                        val = TaintedString(fmt % val)
                    else:
                        val = fmt % val

        # finally""",
      """                elif fmt == '':
                    val = ' '
                else:
                    if isinstance(val, TaintedString):
                        val = TaintedString(fmt % val)
                    else:
                        val = fmt % val

        # finally""", 'C15.R5'),
    # silent
    V('silent: comprehension over the table', 'DT_Var.py',
      """        self.modifiers = tuple(
            map(lambda t: t[1],
                filter(lambda m, args=args, used=args.__contains__:
                       used(m[0]) and args[m[0]],
                       modifiers)))""",
      """        self.modifiers = tuple(
            f for n, f in modifiers if n in args and args[n])"""),
]

# --------------------------------------------------------------------- C03
CATALOGUE['C03'] = [
    V('fast path predicate as a regex without the apostrophe',
      '_DocumentTemplate.py',
      """                        if ('&' in t or '<' in t or '>' in t or '"' in t or  # NOQA: W504,E501
                                "'" in t):""",
      """                        if re.compile('[&<>"]').search(t):""", 'C03.R2',
      extra=[("from Acquisition import aq_base", "import re\nfrom Acquisition import aq_base")]),
    V('escaper without quote flag', 'html_quote.py',
      "    return escape(v, 1)", "    return escape(v, 0)", 'C03.R1'),
    V('escaper quote=False keyword', 'html_quote.py',
      "    return escape(v, 1)", "    return escape(v, quote=False)",
      'C03.R1'),
    V('escaper post-processes', 'html_quote.py',
      "    return escape(v, 1)",
      "    v = escape(v, 1)\n    return v.replace('&#x27;', \"'\")",
      'C03.R1'),
    V('fmt=html-quote uses a different escaper', 'DT_Var.py',
      "    'html-quote': html_quote,", "    'html-quote': sql_quote,",
      'C03.R1'),
    V('fast path forgets the double quote', '_DocumentTemplate.py',
      """'>' in t or '"' in t or  # NOQA: W504,E501""",
      """'>' in t or  # NOQA: W504,E501""", 'C03.R2'),
    V('fast path forgets the apostrophe (the repaired defect)',
      '_DocumentTemplate.py',
      """'"' in t or  # NOQA: W504,E501
                                "'" in t):""",
      """'"' in t):""", 'C03.R2'),
    V('fast path polarity inverted', '_DocumentTemplate.py',
      """                            # so we cant skip the quoting process
                            skip_html_quote = 0
                        else:
                            skip_html_quote = 1""",
      """                            # so we cant skip the quoting process
                            skip_html_quote = 1
                        else:
                            skip_html_quote = 0""", 'C03.R2'),
    V('entity appends html-quote', 'DT_HTML.py',
      "d[3] = d['args'] = args + ' html_quote'",
      "d[3] = d['args'] = args + ' html-quote'", 'C03.R3'),
    V('simple form keyed on another option', 'DT_Var.py',
      "elif len(args) == 2 and fmt == 's' and 'html_quote' in args:",
      "elif len(args) == 2 and fmt == 's' and 'html-quote' in args:",
      'C03.R3'),
    V('modifier loop recognises wrong name', 'DT_Var.py',
      "if f.__name__ == 'html_quote' and isinstance(val, TaintedString):",
      "if f.__name__ == 'html-quote' and isinstance(val, TaintedString):",
      'C03.R3'),
    V('entity modifiers not split', 'DT_HTML.py',
      "args[:nn].replace('.', ' '))", "args[:nn])", 'C03.R3'),
    V('plain path strips the value', '_DocumentTemplate.py',
      """                if not isinstance(t, (str, bytes)):
                    t = ustr(t)
""",
      """                if not isinstance(t, (str, bytes)):
                    t = ustr(t)
                else:
                    t = t.strip()
""", 'C03.R4'),
    # silent
    V('silent: predicate written with any()', '_DocumentTemplate.py',
      """                        if ('&' in t or '<' in t or '>' in t or '"' in t or  # NOQA: W504,E501
                                "'" in t):""",
      """                        if any(c in t for c in '&<>"\\''):"""),
    V('silent: escape(v) default quote', 'html_quote.py',
      "    return escape(v, 1)", "    return escape(v)"),
    V('silent: escape(v, quote=True)', 'html_quote.py',
      "    return escape(v, 1)", "    return escape(v, quote=True)"),
]

# --------------------------------------------------------------------- C19
CATALOGUE['C19'] = [
    V('silent: join_unicode decodes in place, all callers pass lists',
      '_DocumentTemplate.py',
      """        rendered = list(rendered)
        for i in range(len(rendered)):
            if isinstance(rendered[i], bytes):
                rendered[i] = rendered[i].decode(encoding)""",
      """        for i, piece in enumerate(rendered):
            if isinstance(piece, bytes):
                rendered[i] = piece.decode(encoding)"""),
    V('cook cache keyed by class and source, not by encoding',
      'DT_String.py',
      "            self._v_blocks = self.parse(self.read())",
      """            source = self.read()
            key = (self.__class__, source)
            blocks = String._cooked.get(key)
            if blocks is None:
                blocks = String._cooked[key] = self.parse(source)
            self._v_blocks = blocks""", 'C19.R6',
      extra=[("    shared_globals = {}\n",
              "    shared_globals = {}\n    _cooked = {}\n")]),
    V('silent: cook cache keyed by class, encoding and source',
      'DT_String.py',
      "            self._v_blocks = self.parse(self.read())",
      """            source = self.read()
            key = (self.__class__, self.encoding, source)
            blocks = String._cooked.get(key)
            if blocks is None:
                blocks = String._cooked[key] = self.parse(source)
            self._v_blocks = blocks""",
      extra=[("    shared_globals = {}\n",
              "    shared_globals = {}\n    _cooked = {}\n")]),
    V('section parsed by the sub-template', 'DT_String.py',
      """                section._v_blocks = section.blocks = self.parse(
                    text[:l_], sstart)""",
      """                section._v_blocks = section.blocks = section.parse(
                    text[:l_], sstart)""", 'C19.R1c'),
    V('exceptions with their own __str__ use it', 'ustr.py',
      """def _exception_str(exc):
    if hasattr(exc, 'args'):""",
      """def _exception_str(exc):
    if type(exc).__str__ is not BaseException.__str__:
        return str(exc)
    if hasattr(exc, 'args'):""", 'C19.R4'),
    V('Var.render converts with str()', 'DT_Var.py',
      """            if not isinstance(val, TaintedString):
                val = ustr(val)""",
      """            if not isinstance(val, (str, TaintedString)):
                val = str(val)""", 'C19.R5'),
    V('block commands constructed without encoding', 'DT_String.py',
      "r = scommand(blocks, encoding=encoding)", "r = scommand(blocks)",
      'C19.R1a'),
    V('in: join without encoding', 'DT_In.py',
      "            result = join_unicode(result, encoding=self.encoding)\n\n        finally:\n            if cache:\n                pop()\n            pop()\n\n        return result\n\n    def sort_sequence",
      "            result = join_unicode(result)\n\n        finally:\n            if cache:\n                pop()\n            pop()\n\n        return result\n\n    def sort_sequence",
      'C19.R1b'),
    V('with: render without encoding', 'DT_With.py',
      "return render_blocks(self.section, md, encoding=self.encoding)",
      "return render_blocks(self.section, md)", 'C19.R1b'),
    V('call: top-level render without encoding', 'DT_String.py',
      """                    result = render_blocks(self._v_blocks, md,
                                           encoding=encoding)""",
      """                    result = render_blocks(self._v_blocks, md)""",
      'C19.R1b'),
    V('simple form quotes without encoding', '_DocumentTemplate.py',
      "t = html_quote(t, encoding=encoding)", "t = html_quote(t)",
      'C19.R1b'),
    V('render_blocks drops encoding for the join', '_DocumentTemplate.py',
      "    return join_unicode(rendered, encoding=encoding)",
      "    return join_unicode(rendered)", 'C19.R1b'),
    V('tree: recursion drops encoding (the repaired defect)', 'TreeTag.py',
      """                        colspan, section, md, treeData, level, args,
                        encoding=encoding)""",
      """                        colspan, section, md, treeData, level, args)""",
      'C19.R1b'),
    V('let: result + suffix', 'DT_Let.py',
      "            return render_blocks(self.section, md, encoding=self.encoding)",
      "            return render_blocks(self.section, md, encoding=self.encoding) + ''",
      'C19.R2'),
    V('try: + again (the repaired defect)', 'DT_Try.py',
      """                return join_unicode(
                    [result, render_blocks(self.elseBlock, md,
                                           encoding=self.encoding)],
                    encoding=self.encoding)""",
      """                return result + render_blocks(self.elseBlock, md,
                                              encoding=self.encoding)""",
      'C19.R2'),
    V('in: str.join of the rendered items', 'DT_In.py',
      "            result = join_unicode(result, encoding=self.encoding)\n\n        finally:\n            if cache:\n                pop()\n            pop()\n\n        return result\n\n    def sort_sequence",
      "            result = ''.join(result)\n\n        finally:\n            if cache:\n                pop()\n            pop()\n\n        return result\n\n    def sort_sequence",
      'C19.R2'),
    V('tree: str.join again (the repaired defect)', 'TreeTag.py',
      "    return join_unicode(data, encoding=encoding)",
      "    return ''.join(data)", 'C19.R2'),
    V('html_quote ignores its encoding', 'html_quote.py',
      "        v = v.decode(encoding or 'Latin-1')",
      "        v = v.decode('Latin-1')", 'C19.R3'),
    V('join_unicode decodes utf-8 always', '_DocumentTemplate.py',
      "                rendered[i] = rendered[i].decode(encoding)",
      "                rendered[i] = rendered[i].decode('utf-8')",
      'C19.R3'),
    # silent
    V('silent: encoding through a local', 'DT_With.py',
      "            return render_blocks(self.section, md, encoding=self.encoding)",
      "            enc = self.encoding\n            return render_blocks(self.section, md, encoding=enc)"),
]

# --------------------------------------------------------------------- C17
CATALOGUE['C17'] = [
    V('silent: __getstate__ names the two volatile attributes',
      'DT_String.py',
      """        d = {}
        for k, v in self.__dict__.items():
            if k[:3] in _special:
                continue
            d[k] = v
        return d""",
      """        d = self.__dict__.copy()
        for k in ('_v_blocks', '_v_cooked'):
            d.pop(k, None)
        return d"""),
    V('__getstate__ keeps _v_cooked', 'DT_String.py',
      """        d = {}
        for k, v in self.__dict__.items():
            if k[:3] in _special:
                continue
            d[k] = v
        return d""",
      """        d = self.__dict__.copy()
        for k in ('_v_blocks', ):
            d.pop(k, None)
        return d""", 'C17.R3'),
    V('munge: empty mapping ignored', 'DT_String.py',
      "        if mapping is not None or vars:",
      "        if mapping or vars:", 'C17.R7'),
    V('int_param stores the converted value in the tag arguments',
      'DT_In.py',
      """            if type(v) is st:
                v = int(v)
    return v""",
      """            if type(v) is st:
                v = int(v)
        params[name] = v
    return v""", 'C17.R1'),
    V('template remembers its last result', 'DT_String.py',
      """                self.ZDocumentTemplate_afterRender(md, result)
                return result""",
      """                self.ZDocumentTemplate_afterRender(md, result)
                self._last = result
                return result""", 'C17.R1'),
    V('in: sort key stored on the tag (the repaired defect)', 'DT_In.py',
      """        if self.sort_expr is not None:
            sequence = self.sort_sequence(sequence, md,
                                          self.sort_expr.eval(md))
        elif self.sort is not None:
            sequence = self.sort_sequence(sequence, md)

        if self.reverse_expr is not None and self.reverse_expr.eval(md):
            sequence = self.reverse_sequence(sequence)
        elif self.reverse is not None:
            sequence = self.reverse_sequence(sequence)

        prefix = self.args.get('prefix')""",
      """        if self.sort_expr is not None:
            self.sort = self.sort_expr.eval(md)
            sequence = self.sort_sequence(sequence, md)
        elif self.sort is not None:
            sequence = self.sort_sequence(sequence, md)

        if self.reverse_expr is not None and self.reverse_expr.eval(md):
            sequence = self.reverse_sequence(sequence)
        elif self.reverse is not None:
            sequence = self.reverse_sequence(sequence)

        prefix = self.args.get('prefix')""", 'C17.R1'),
    V('raise caches its resolved type on the tag', 'DT_Raise.py',
      """        if expr is None:
            t = convertExceptionType(self.__name__)
            if t is None:
                t = RuntimeError""",
      """        if expr is None:
            t = getattr(self, '_v_type', None)
            if t is None:
                t = convertExceptionType(self.__name__)
                if t is None:
                    t = RuntimeError
                self._v_type = t""", 'C17.R1'),
    V('var counts its renderings in a module dict', 'DT_Var.py',
      """    def render(self, md):
        args = self.args
        name = self.__name__
""",
      """    def render(self, md):
        args = self.args
        name = self.__name__
        special_formats['last-name'] = name
""", 'C17.R1'),
    V('let memoises constant arguments on itself', 'DT_Let.py',
      """        d = {}
        md._push(d)""",
      """        d = {}
        self.args.append(('_n', str(len(self.args))))
        md._push(d)""", 'C17.R1'),
    V('munge forgets to cook', 'DT_String.py',
      """        if source_string is not None:
            self.raw = source_string
        self.cook()""",
      """        if source_string is not None:
            self.raw = source_string""", 'C17.R2'),
    V('munge cooks only when defaults change', 'DT_String.py',
      """        if mapping is not None or vars:
            self.initvars(mapping, vars)
        if source_string is not None:
            self.raw = source_string
        self.cook()""",
      """        if mapping is not None or vars:
            self.initvars(mapping, vars)
            self.cook()
        if source_string is not None:
            self.raw = source_string""", 'C17.R2'),
    V('getstate slice width 2', 'DT_String.py', "            if k[:3] in _special:",
      "            if k[:2] in _special:", 'C17.R3'),
    # no template class assigns a _p_ attribute (the classes are not
    # Persistent): which keys are kept is unchanged
    V('silent: getstate drops only _v_', 'DT_String.py',
      "def __getstate__(self, _special=('_v_', '_p_')):",
      "def __getstate__(self, _special=('_v_',)):"),
    V('getstate drops only _p_', 'DT_String.py',
      "def __getstate__(self, _special=('_v_', '_p_')):",
      "def __getstate__(self, _special=('_p_',)):", 'C17.R3'),
    V('file template caches content', 'DT_String.py',
      """            with open(self.raw) as fd:
                raw = fd.read()
            return raw""",
      """            with open(self.raw) as fd:
                raw = fd.read()
            self.edited_source = raw
            return raw""", 'C17.R4'),
    V('tree sorts the client list in place (the repaired defect)',
      'TreeTag.py',
      "            items = list(items)  # Copy the list\n            sort = args['sort']",
      "            if isinstance(items, tuple):\n                items = list(items)\n            sort = args['sort']",
      'C17.R5'),
    V('tree reverse in place', 'TreeTag.py',
      """            items = list(items)  # Copy the list
            items.reverse()""",
      """            items.reverse()""", 'C17.R5'),
    V('with pops a key off the client mapping', 'DT_With.py',
      """        if not self.mapping:""",
      """        if self.mapping:
            v.pop('_private', None)
        if not self.mapping:""", 'C17.R5'),
    V('call default mapping mutated', 'DT_String.py',
      """        if mapping is None:
            mapping = {}
        if hasattr(mapping, 'taintWrapper'):""",
      """        if mapping is None:
            mapping = {}
        mapping.setdefault('here', client)
        if hasattr(mapping, 'taintWrapper'):""", 'C17.R5'),
    # silent
    V('silent: local result variable', 'DT_String.py',
      """                self.ZDocumentTemplate_afterRender(md, result)
                return result""",
      """                self.ZDocumentTemplate_afterRender(md, result)
                last = result
                return last"""),
]

# --------------------------------------------------------------------- C18
CATALOGUE['C18'] = [
    V('cooked flag published first', 'DT_String.py',
      """            self._v_blocks = self.parse(self.read())
            self._v_cooked = None""",
      """            self._v_cooked = None
            self._v_blocks = self.parse(self.read())""", 'C18.R1'),
    V('cook without the lock', 'DT_String.py',
      """        with COOKLOCK:
            self._v_blocks = self.parse(self.read())
            self._v_cooked = None""",
      """        self._v_blocks = self.parse(self.read())
        self._v_cooked = None""", 'C18.R1'),
    V('flag stored after releasing the lock', 'DT_String.py',
      """        with COOKLOCK:
            self._v_blocks = self.parse(self.read())
            self._v_cooked = None""",
      """        with COOKLOCK:
            self._v_blocks = self.parse(self.read())
        self._v_cooked = None""", 'C18.R1'),
    V('render tests the blocks attribute', 'DT_String.py',
      "        if not hasattr(self, '_v_cooked'):",
      "        if not hasattr(self, '_v_blocks'):", 'C18.R1'),
    V('call invalidates the compiled state itself', 'DT_String.py',
      """            self.cook()
            if not changed:
                self.__changed__(0)""",
      """            self._v_cooked = None
            self._v_blocks = self.parse(self.read())
            if not changed:
                self.__changed__(0)""", 'C18.R2'),
    V('in: sort key stored on the tag (the repaired defect)', 'DT_In.py',
      """        if self.sort_expr is not None:
            sequence = self.sort_sequence(sequence, md,
                                          self.sort_expr.eval(md))
        elif self.sort is not None:
            sequence = self.sort_sequence(sequence, md)

        if self.reverse_expr is not None and self.reverse_expr.eval(md):
            sequence = self.reverse_sequence(sequence)
        elif self.reverse is not None:
            sequence = self.reverse_sequence(sequence)

        next = previous = 0""",
      """        if self.sort_expr is not None:
            self.sort = self.sort_expr.eval(md)
            sequence = self.sort_sequence(sequence, md)
        elif self.sort is not None:
            sequence = self.sort_sequence(sequence, md)

        if self.reverse_expr is not None and self.reverse_expr.eval(md):
            sequence = self.reverse_sequence(sequence)
        elif self.reverse is not None:
            sequence = self.reverse_sequence(sequence)

        next = previous = 0""", 'C18.R3'),
    V('with keeps the evaluated object on the tag', 'DT_With.py',
      """        if not self.mapping:
            if isinstance(v, tuple) and len(v) == 1:
                v = v[0]
            v = InstanceDict(v, md)""",
      """        if not self.mapping:
            if isinstance(v, tuple) and len(v) == 1:
                v = v[0]
            self.current = v
            v = InstanceDict(self.current, md)""", 'C18.R3'),
    V('lazy tag import from the render path', 'DT_String.py',
      """        if not hasattr(self, '_v_cooked'):
            try:""",
      """        if 'in' in self.commands:
            self._parseTag(self.tagre().search('%(in x)['))
        if not hasattr(self, '_v_cooked'):
            try:""", 'C18.R4'),
    V('read() cooks (lock re-entered)', 'DT_String.py',
      """    def read(self, raw=None):
        return self.read_raw()""",
      """    def read(self, raw=None):
        if not hasattr(self, '_v_cooked') and raw:
            self.cook()
        return self.read_raw()""", 'C18.R5'),
    V('module-level scratch namespace', 'DT_String.py',
      """            md = TemplateDict()
            push = md._push
            shared_globals = self.shared_globals""",
      """            md = _SCRATCH
            push = md._push
            shared_globals = self.shared_globals""", 'C18.R6',
      extra=[("COOKLOCK = Lock()", "COOKLOCK = Lock()\n_SCRATCH = TemplateDict()")]),
    # silent
    V('silent: lock via alias statement order', 'DT_String.py',
      """            self._v_blocks = self.parse(self.read())
            self._v_cooked = None""",
      """            blocks = self.parse(self.read())
            self._v_blocks = blocks
            self._v_cooked = None"""),
]

# --------------------------------------------------------------------- C10
CATALOGUE['C10'] = [
    V('alias split at the first underscore', 'DT_InSV.py',
      """            alt_prefix = self.alt_prefix
            if not (alt_prefix and key.startswith(alt_prefix)):
                raise KeyError(key)

            suffix = key[len(alt_prefix):].replace('_', '-')""",
      """            head, sep, tail = key.partition('_')
            if not sep or head + sep != self.alt_prefix:
                raise KeyError(key)

            suffix = tail.replace('_', '-')""", 'C10.R2'),
    V('element read off by one', 'DT_In.py',
      """                else:
                    client = sequence[index]

                pkw['sequence-index'] = index
                t = type(client)
                if t is TupleType and len(client) == 2:
                    client = client[1]

                if no_push_item:
                    pushed = 0
                elif mapping:
                    pushed = 1
                    push(client)
                elif t in StringTypes:
                    pushed = 0
                else:
                    pushed = 1
                    push(InstanceDict(client, md))

                try:
                    append(render(section, md, encoding=self.encoding))
                finally:
                    if pushed:
                        pop()
                # only""",
      """                else:
                    client = sequence[index - 1]

                pkw['sequence-index'] = index
                t = type(client)
                if t is TupleType and len(client) == 2:
                    client = client[1]

                if no_push_item:
                    pushed = 0
                elif mapping:
                    pushed = 1
                    push(client)
                elif t in StringTypes:
                    pushed = 0
                else:
                    pushed = 1
                    push(InstanceDict(client, md))

                try:
                    append(render(section, md, encoding=self.encoding))
                finally:
                    if pushed:
                        pop()
                # only""", 'C10.R1'),
    V('sequence-index one based', 'DT_In.py',
      "                    pkw['sequence-index'] = index\n                    t = type(client)",
      "                    pkw['sequence-index'] = index + 1\n                    t = type(client)",
      'C10.R1'),
    V('sequence-end on the wrong index', 'DT_In.py',
      """                if index == last:
                    pkw['sequence-end'] = 1
                if guarded_getitem is not None:""",
      """                if index == l_:
                    pkw['sequence-end'] = 1
                if guarded_getitem is not None:""", 'C10.R1'),
    V('sequence-start cleared when skipping (the repaired defect)',
      'DT_In.py',
      """                        if 'skip_unauthorized' in self.args and \\
                           self.args['skip_unauthorized']:
                            continue""",
      """                        if 'skip_unauthorized' in self.args and \\
                           self.args['skip_unauthorized']:
                            pkw['sequence-start'] = 0
                            continue""", 'C10.R1'),
    V('sequence-start never cleared', 'DT_In.py',
      """                # only the first element rendered is the start
                pkw['sequence-start'] = 0

            result""",
      """
            result""", 'C10.R1'),
    V('index stored without prefix alias', 'DT_In.py',
      "                pkw['sequence-index'] = index\n                t = type(client)",
      "                kw['sequence-index'] = index\n                t = type(client)",
      'C10.R2'),
    V('alt prefix strips 8 characters', 'DT_InSV.py',
      "                key = key[9:]", "                key = key[8:]",
      'C10.R2'),
    V('Letter method renamed', 'DT_InSV.py', "    def Letter(self, index):",
      "    def UpperLetter(self, index):", 'C10.R3'),
    V('statistic not registered', 'DT_InSV.py',
      """    for n in statistic_names:
        special_prefixes[n] = statistics""",
      """    for n in statistic_names[:-1]:
        special_prefixes[n] = statistics""", 'C10.R3'),
    V('empty sequence renders the body', 'DT_In.py',
      """        try:
            sequence[0]
        except IndexError:
            if self.elses:
                return render_blocks(self.elses, md, encoding=self.encoding)
            return ''

        section = self.section
        mapping = self.mapping""",
      """        try:
            sequence[0]
        except IndexError:
            if self.elses:
                return render_blocks(self.elses, md, encoding=self.encoding)

        section = self.section
        mapping = self.mapping""", 'C10.R4'),
    V('unbatched renderer pushes text items', 'DT_In.py',
      """                elif t in StringTypes:
                    pushed = 0
                else:
                    pushed = 1
                    push(InstanceDict(client, md))

                try:
                    append(render(section, md, encoding=self.encoding))
                finally:
                    if pushed:
                        pop()
                # only""",
      """                else:
                    pushed = 1
                    push(InstanceDict(client, md))

                try:
                    append(render(section, md, encoding=self.encoding))
                finally:
                    if pushed:
                        pop()
                # only""", 'C10.R5'),
    V('2-tuples no longer split', 'DT_In.py',
      """                    if t is TupleType and len(client) == 2:
                        client = client[1]
""", "", 'C10.R5'),
    # silent
    V('silent: last via l_ - 1 inline', 'DT_In.py',
      """                if index == last:
                    pkw['sequence-end'] = 1
                if guarded_getitem is not None:""",
      """                if index == l_ - 1:
                    pkw['sequence-end'] = 1
                if guarded_getitem is not None:"""),
]

# --------------------------------------------------------------------- C11
CATALOGUE['C11'] = [
    V('orphan test of the start side off by one', 'DT_InSV.py',
      "        if start - 1 < orphan:", "        if start < orphan:",
      'C11.R6'),
    V('look-ahead probe one element short', 'DT_InSV.py',
      """        end = start + size - 1
        try:
            sequence[end + orphan - 1]""",
      """        end = start + size - 1
        try:
            sequence[end + orphan - 2]""", 'C11.R6'),
    V('explicit end below start not raised to start', 'DT_InSV.py',
      """            if end < start:
                end = start
""",
      """            if end < start:
                end = end
""", 'C11.R5'),
    V('orphan absorption restarts at element 0', 'DT_InSV.py',
      """        if start - 1 < orphan:
            start = 1""",
      """        if start - 1 < orphan:
            start = 0""", 'C11.R5'),
    V('start beyond the sequence is not cut back', 'DT_InSV.py',
      """        try:
            sequence[start - 1]
        except Exception:
            start = len(sequence)

        if end > 0:""",
      """        if end > 0:""", 'C11.R5'),
    V('default size 0', 'DT_InSV.py',
      "            size = 7", "            size = 0", 'C11.R5'),
    V('silent: explicit end cut back to the length (the reverted repair)',
      'DT_InSV.py',
      """            if end < start:
                end = start
        else:""",
      """            if end < start:
                end = start
            else:
                try:
                    sequence[end - 1]
                except Exception:
                    end = len(sequence)
        else:"""),
    V('next batch ignores the overlap at one site', 'DT_In.py',
      """                    pstart, pend, psize = opt(end + 1 - overlap, 0,
                                              sz, orphan, sequence)
                    pkw['next-sequence'] = 1""",
      """                    pstart, pend, psize = opt(end + 1, 0,
                                              sz, orphan, sequence)
                    pkw['next-sequence'] = 1""", 'C11.R1'),
    V('next_batches off by one', 'DT_InSV.py',
      "start, end, spam = opt(end + 1 - overlap, 0, sz, orphan, sequence)",
      "start, end, spam = opt(end - overlap, 0, sz, orphan, sequence)",
      'C11.R1'),
    V('previous batch ends at first', 'DT_In.py',
      """                            pstart, pend, psize = opt(0, first + overlap,
                                                      sz, orphan, sequence)""",
      """                            pstart, pend, psize = opt(0, first - 1 + overlap,
                                                      sz, orphan, sequence)""",
      'C11.R1'),
    V('previous batch computed with the raw size', 'DT_InSV.py',
      """            start, end, spam = opt(0, start - 1 + overlap, sz, orphan,
                                   sequence)""",
      """            start, end, spam = opt(0, start - 1 + overlap, sz, 0,
                                   sequence)""", 'C11.R1'),
    V('next-sequence-size off by one', 'DT_In.py',
      """                    pkw['next-sequence-size'] = pend + 1 - pstart
                    result = render(section, md, encoding=self.encoding)""",
      """                    pkw['next-sequence-size'] = pend - pstart
                    result = render(section, md, encoding=self.encoding)""",
      'C11.R2'),
    V('batch-end-index one based', 'DT_InSV.py',
      "            d['batch-end-index'] = end - 1\n            d['batch-size'] = end + 1 - start\n            d['mapping'] = data['mapping']\n            r.append(v)\n        data['next-batches'] = r",
      "            d['batch-end-index'] = end\n            d['batch-size'] = end + 1 - start\n            d['mapping'] = data['mapping']\n            r.append(v)\n        data['next-batches'] = r",
      'C11.R2'),
    V('orphan read as a plain option', 'DT_In.py',
      "        orphan = int_param(params, md, 'orphan', '0')",
      "        orphan = int(params.get('orphan', '0'))", 'C11.R3'),
    V('next-sequence on every boundary index', 'DT_In.py',
      """                            if index == last:
                                pkw['next-sequence'] = 1""",
      """                            if index == last or index == first:
                                pkw['next-sequence'] = 1""", 'C11.R3'),
    V('displayed range starts one late', 'DT_In.py',
      "                for index in range(first, end):",
      "                for index in range(start, end):", 'C11.R3'),
    V('opt: window one too long', 'DT_InSV.py',
      """        else:
            end = start + size - 1
            try:
                sequence[end + orphan - 1]""",
      """        else:
            end = start + size
            try:
                sequence[end + orphan - 1]""", 'C11.R4'),
    V('opt: orphan probe off by one', 'DT_InSV.py',
      """        start = 1
        end = start + size - 1
        try:
            sequence[end + orphan - 1]""",
      """        start = 1
        end = start + size - 1
        try:
            sequence[end + orphan]""", 'C11.R4'),
    V('opt: end-anchored window start', 'DT_InSV.py',
      "        start = end + 1 - size", "        start = end - size",
      'C11.R4'),
    # silent
    V('silent: reordered linear operands', 'DT_In.py',
      """                    pstart, pend, psize = opt(end + 1 - overlap, 0,
                                              sz, orphan, sequence)
                    pkw['next-sequence'] = 1""",
      """                    pstart, pend, psize = opt(1 - overlap + end, 0,
                                              sz, orphan, sequence)
                    pkw['next-sequence'] = 1"""),
]

# --------------------------------------------------------------------- C01
CATALOGUE['C01'] = [
    V('cook cache keyed by the source text only', 'DT_String.py',
      "            self._v_blocks = self.parse(self.read())",
      """            source = self.read()
            blocks = String._cooked.get(source)
            if blocks is None:
                blocks = String._cooked[source] = self.parse(source)
            self._v_blocks = blocks""", 'C01.R7',
      extra=[("    shared_globals = {}\n",
              "    shared_globals = {}\n    _cooked = {}\n")]),
    V('silent: cook cache keyed by reader class, encoding and source',
      'DT_String.py',
      "            self._v_blocks = self.parse(self.read())",
      """            source = self.read()
            key = (type(self), self.encoding, source)
            blocks = String._cooked.get(key)
            if blocks is None:
                blocks = String._cooked[key] = self.parse(source)
            self._v_blocks = blocks""",
      extra=[("    shared_globals = {}\n",
              "    shared_globals = {}\n    _cooked = {}\n")]),
    V('line-end skip by str.strip()', 'DT_String.py',
      """        mo = eol.match(text, start)
        if mo is not None:
            start = start + mo.end(0) - mo.start(0)""",
      """        nl = text.find('\\n', start)
        if nl >= 0 and not text[start:nl].strip():
            start = nl + 1""", 'C01.R1'),
    V('silent: line-end skip by str.strip(" \\t")', 'DT_String.py',
      """        mo = eol.match(text, start)
        if mo is not None:
            start = start + mo.end(0) - mo.start(0)""",
      """        nl = text.find('\\n', start)
        if nl >= 0 and not text[start:nl].strip(' \\t'):
            start = nl + 1"""),
    V('EPFS format accepts any run of digits and dots', 'DT_String.py',
      "'\\\\)(?P<fmt>[0-9]*[.]?[0-9]*[a-z]|[]![])',  # end",
      "'\\\\)(?P<fmt>[0-9.]*[a-z]|[]![])',  # end", 'C01.R6'),
    V('eol also eats other whitespace', 'DT_String.py',
      "eol=re.compile('[ \\t]*\\n')", "eol=re.compile('\\\\s*\\n')",
      'C01.R1'),
    V('eol optional newline', 'DT_String.py',
      "eol=re.compile('[ \\t]*\\n')", "eol=re.compile('[ \\t]*\\n?')",
      'C01.R1'),
    V('eol searched, not matched', 'DT_String.py',
      "        mo = eol.match(text, start)", "        mo = eol.search(text, start)",
      'C01.R1'),
    V('eol eats two line ends', 'DT_String.py',
      "eol=re.compile('[ \\t]*\\n')", "eol=re.compile('([ \\t]*\\n){1,2}')",
      'C01.R1'),
    V('cursor advanced one too far', 'DT_String.py',
      "            start = start + mo.end(0) - mo.start(0)",
      "            start = start + mo.end(0) - mo.start(0) + 1", 'C01.R1'),
    V('line end skipped after every tag', 'DT_String.py',
      """                    result.append(r)
                except ParseError as m:
                    self.parse_error(m.args[0], tag, text, l_)
""",
      """                    result.append(r)
                    start = self.skip_eol(text, start)
                except ParseError as m:
                    self.parse_error(m.args[0], tag, text, l_)
""", 'C01.R2'),
    V('line end skipped at template start', 'DT_String.py',
      """        if tagre is None:
            tagre = self.tagre()
        mo = tagre.search(text, start)""",
      """        if tagre is None:
            tagre = self.tagre()
            start = self.skip_eol(text, start)
        mo = tagre.search(text, start)""", 'C01.R2'),
    V('literal text stripped', 'DT_String.py',
      """            s = text[start:l_]
            if s:
                result.append(s)""",
      """            s = text[start:l_].strip()
            if s:
                result.append(s)""", 'C01.R3'),
    V('whitespace-only text dropped', 'DT_String.py',
      """            s = text[start:l_]
            if s:
                result.append(s)""",
      """            s = text[start:l_]
            if s.strip():
                result.append(s)""", 'C01.R3'),
    V('trailing text loses carriage returns', 'DT_String.py',
      """        text = text[start:]
        if text:
            result.append(text)""",
      """        text = text[start:].replace('\\r', '')
        if text:
            result.append(text)""", 'C01.R3'),
    V('renderer strips literal blocks', '_DocumentTemplate.py',
      """        elif not isinstance(block, (str, bytes)):
            block = block(md)
""",
      """        elif not isinstance(block, (str, bytes)):
            block = block(md)
        else:
            block = block.rstrip(' ')
""", 'C01.R3'),
    V('pieces joined in reverse', '_DocumentTemplate.py',
      "    return join_unicode(rendered, encoding=encoding)",
      "    return join_unicode(list(reversed(rendered)), encoding=encoding)",
      'C01.R3'),
    V('dtml prefix width', 'DT_HTML.py',
      "            elif text[s:s + 6] == '<dtml-':",
      "            elif text[s:s + 5] == '<dtml-':", 'C01.R4'),
    V('name offset after </dtml-', 'DT_HTML.py',
      """            elif text[s:s + 7] == '</dtml-':
                e = n = s + 7""",
      """            elif text[s:s + 7] == '</dtml-':
                e = n = s + 6""", 'C01.R4'),
    # silent
    V('silent: pattern built by concatenation', 'DT_String.py',
      "eol=re.compile('[ \\t]*\\n')", "eol=re.compile('[ \\t]*' + '\\n')"),
    V('silent: mo.end(0) form', 'DT_String.py',
      "            start = start + mo.end(0) - mo.start(0)",
      "            start = mo.end(0)"),
]

# --------------------------------------------------------------------- C07
CATALOGUE['C07'] = [
    # halves of a cooperating edit: each one alone changes nothing
    V('silent: only the scanner stops stripping the arguments',
      'DT_HTML.py', "        args = text[a:e].strip()",
      "        args = text[a:e]"),
    V('silent: only the reader stops stripping the arguments',
      'DT_HTML.py', "        args = args.strip()\n", "        pass\n"),
    V('neither scanner nor reader strips the arguments', 'DT_HTML.py',
      "        args = text[a:e].strip()", "        args = text[a:e]",
      'C07.R8', extra=[("        args = args.strip()\n", "        pass\n")]),
    V('HTML gets its own skip_eol', 'DT_HTML.py',
      """    @security.private
    def SubTemplate(self, name):
        return HTML('', __name__=name)""",
      """    @security.private
    def skip_eol(self, text, start):
        return start

    @security.private
    def SubTemplate(self, name):
        return HTML('', __name__=name)""", 'C07.R1'),
    V('HTMLFile overrides parse', 'DT_HTML.py',
      """    @security.private
    def manage_default(self, REQUEST=None):""",
      """    @security.private
    def parse(self, text, start=0, result=None, tagre=None):
        return HTML.parse(self, text.lstrip(), start, result, tagre)

    @security.private
    def manage_default(self, REQUEST=None):""", 'C07.R1'),
    V('else compatibility whitespace differs in one reader', 'DT_HTML.py',
      "                        sargs[l_:l_ + 1] in ' \\t\\n'):",
      "                        sargs[l_:l_ + 1] in ' \\t'):", 'C07.R2'),
    V('SGML reader swallows unknown tags', 'DT_HTML.py',
      """        try:
            return tag, args, self.commands[name], None
        except KeyError:
            raise ParseError('Unexpected tag', tag)""",
      """        try:
            return tag, args, self.commands[name], None
        except KeyError:
            raise ParseError('Unknown tag', tag)""", 'C07.R2'),
    V('SGML end tag needs no matching name', 'DT_HTML.py',
      """        if end:
            if not command or name != command.name:
                raise ParseError('unexpected end tag', tag)""",
      """        if end:
            if not command:
                raise ParseError('unexpected end tag', tag)""", 'C07.R2'),
    V('scanner misnames a group', 'DT_HTML.py',
      """        d[2] = d['name'] = name
        d[3] = d['args'] = args
        self._start = s
        return self""",
      """        d[2] = d['nam'] = name
        d[3] = d['args'] = args
        self._start = s
        return self""", 'C07.R3'),
    V('entity path forgets the offset', 'DT_HTML.py',
      """                                    d[3] = d['args'] = args + ' html_quote'
                                    self._start = s
                                    return self""",
      """                                    d[3] = d['args'] = args + ' html_quote'
                                    return self""", 'C07.R3'),
    V('EPFS reader reads a missing group', 'DT_String.py',
      "tag, name, args, fmt = match_ob.group(0, 'name', 'args', 'fmt')",
      "tag, name, args, fmt = match_ob.group(0, 'name', 'args', 'format')",
      'C07.R3'),
    V('entity compiled as call', 'DT_HTML.py',
      """                                    d[2] = d['name'] = 'var'
                                    d[0] = text[s:e + 1]
                                    d[3] = d['args'] = args + ' html_quote'""",
      """                                    d[2] = d['name'] = 'call'
                                    d[0] = text[s:e + 1]
                                    d[3] = d['args'] = args + ' html_quote'""",
      'C07.R4'),
    V('SGML var gets a C format', 'DT_HTML.py',
      """    def varExtra(self, match_ob):
        return 's'""",
      """    def varExtra(self, match_ob):
        return match_ob.group('end') or 's'""", 'C07.R4'),
    # silent
    V('silent: UI method added to HTML', 'DT_HTML.py',
      """    @security.private
    def SubTemplate(self, name):
        return HTML('', __name__=name)""",
      """    @security.private
    def preview(self):
        return str(self)

    @security.private
    def SubTemplate(self, name):
        return HTML('', __name__=name)"""),
]

# --------------------------------------------------------------------- C20
CATALOGUE['C20'] = [
    V('path not popped on exit', 'TreeTag.py',
      """    del diff[-1]
    if not diff:""",
      """    if len(diff) == 1:""", 'C20.R6'),
    V('own id appended twice', 'TreeTag.py',
      """    else:
        diff.append(id)

    _td_colspan""",
      """    else:
        diff.append(id)
        diff.append(id)

    _td_colspan""", 'C20.R6'),
    V('clicked node found by id, not position', 'TreeTag.py',
      """            if not diff and not expand:
                del s[loc]""",
      """            if id == last and not expand:
                del s[loc]""", 'C20.R7',
      extra=[("    diff.reverse()\n", "    last = diff[-1]\n    diff.reverse()\n")]),
    V('expand_all: recursion outside the per-item handler', 'TreeTag.py',
      """            try:
                if get_items(item):
                    id = extract_id(item, args['id'])

                    e = tpValuesIds(item, get_items, args)""",
      """            sub_ids = tpValuesIds(item, get_items, args)
            try:
                if get_items(item):
                    id = extract_id(item, args['id'])

                    e = sub_ids""", 'C20.R8'),
    V('pruning loop made live', 'TreeTag.py',
      "for i in range(len(substate) - 1, -1):",
      "for i in range(len(substate) - 1, -1, -1):", 'C20.R4'),
    V('decoder forgets the translation', 'TreeTag.py',
      "    state = state.translate(tminus)\n    l_ = len(state)",
      "    l_ = len(state)", 'C20.R1'),
    V('decoder translates with the encoder table', 'TreeTag.py',
      "    state = state.translate(tminus)\n    l_ = len(state)",
      "    state = state.translate(tplus)\n    l_ = len(state)", 'C20.R1'),
    V('tables not inverse', 'TreeTag.py',
      "tminus = tbl[:ord('-')] + b'+' + tbl[ord('-') + 1:]",
      "tminus = tbl[:ord('_')] + b'+' + tbl[ord('_') + 1:]", 'C20.R1'),
    V('decompress uses latin-1', 'TreeTag.py',
      "    return zlib.decompress(input).decode('utf-8')",
      "    return zlib.decompress(input).decode('latin-1')", 'C20.R1'),
    V('encoder skips compression', 'TreeTag.py',
      "    state = compress(json.dumps(state))\n    l_ = len(state)",
      "    state = json.dumps(state).encode('utf-8')\n    l_ = len(state)",
      'C20.R1'),
    V('encoder chunk 60 in encode_seq only', 'TreeTag.py',
      """    state = compress(json.dumps(state))
    l_ = len(state)

    if l_ > 57:
        states = []
        for i in range(0, l_, 57):
            states.append(b2a_base64(state[i:i + 57])[:-1])""",
      """    state = compress(json.dumps(state))
    l_ = len(state)

    if l_ > 60:
        states = []
        for i in range(0, l_, 60):
            states.append(b2a_base64(state[i:i + 60])[:-1])""", 'C20.R2'),
    V('decoder chunk 72', 'TreeTag.py',
      """    if l_ > 76:
        states = []
        j = 0
        for i in range(l_ // 76):
            k = j + 76""",
      """    if l_ > 72:
        states = []
        j = 0
        for i in range(l_ // 72):
            k = j + 72""", 'C20.R2'),
    V('encode_str slice width differs from its step', 'TreeTag.py',
      """        raise ValueError("state should be bytes")

    l_ = len(state)

    if l_ > 57:
        states = []
        for i in range(0, l_, 57):
            states.append(b2a_base64(state[i:i + 57])[:-1])""",
      """        raise ValueError("state should be bytes")

    l_ = len(state)

    if l_ > 57:
        states = []
        for i in range(0, l_, 57):
            states.append(b2a_base64(state[i:i + 54])[:-1])""", 'C20.R2'),
    V('encode_str strips at the last =', 'TreeTag.py',
      """    # state is still bytes, but all in 'ascii' encoding.
    l_ = state.find(b'=')
    if l_ >= 0:
        state = state[:l_]

    state = state.translate(tplus)
    return state""",
      """    # state is still bytes, but all in 'ascii' encoding.
    l_ = state.rfind(b'=')
    if l_ >= 0:
        state = state[:l_]

    state = state.translate(tplus)
    return state""", 'C20.R3'),
    V('expanded nodes carry the expand link', 'TreeTag.py',
      """                output('<a name="%s" href="%s?%stree-c=%s#%s">%s</a>' %""",
      """                output('<a name="%s" href="%s?%stree-e=%s#%s">%s</a>' %""",
      'C20.R5'),
    V('collapse parameter applied as expand', 'TreeTag.py',
      """                diff = decode_seq(md['tree-c'])
                apply_diff(state, diff, 0)""",
      """                diff = decode_seq(md['tree-c'])
                apply_diff(state, diff, 1)""", 'C20.R5'),
    V('cookie renamed on the write side only', 'TreeTag.py',
      "md['RESPONSE'].setCookie('tree-s', state, same_site='Lax')",
      "md['RESPONSE'].setCookie('tree-state', state, same_site='Lax')",
      'C20.R5'),
    V('link payload not compressed', 'TreeTag.py',
      "s = encode_str(compress(json.dumps(diff)))",
      "s = encode_str(json.dumps(diff).encode('utf-8'))", 'C20.R5'),
    # silent
    V('silent: comment / docstring change', 'TreeTag.py',
      '    """Convert a sequence to an encoded string"""',
      '    """Convert a state sequence to its encoded text"""'),
]

# --------------------------------------------------------------------- C16
CATALOGUE['C16'] = [
    V('variance-n without subtracting the squared mean', 'DT_InSV.py',
      "            sumsq = sumsq / n - mean * mean",
      "            sumsq = sumsq / n - mean", 'C16.R2'),
    V('sample variance divides by n', 'DT_InSV.py',
      "                sumsq = sumsq * n / (n - 1)",
      "                sumsq = sumsq * n / n", 'C16.R2'),
    V('sample variance without the n > 1 test', 'DT_InSV.py',
      """            if count > 1:
                sumsq = sumsq * n / (n - 1)""",
      """            if count > 0:
                sumsq = sumsq * n / (n - 1)""", 'C16.R2'),
    V('mean divides by n - 1', 'DT_InSV.py',
      "            mean = sum / n", "            mean = sum / (n - 1)",
      'C16.R2'),
    V('sum of squares accumulates the value', 'DT_InSV.py',
      "                    sumsq = sumsq + s",
      "                    sumsq = sumsq + item", 'C16.R1'),
    V('sum updated before the square is computed', 'DT_InSV.py',
      """                    if isinstance(item, int):
                        s = item * int(item)
                    else:
                        s = item * item
                    sum = sum + item
""",
      """                    sum = sum + item
                    if isinstance(item, int):
                        s = item * int(item)
                    else:
                        s = item * item
""", 'C16.R1'),
    V('maximum updated with <', 'DT_InSV.py',
      """                        if item > max:
                            max = item
                except TypeError:""",
      """                        if item < max:
                            max = item
                except TypeError:""", 'C16.R3'),
    V('first value sets only the minimum', 'DT_InSV.py',
      "                        min = max = item\n",
      "                        min = item\n", 'C16.R3'),
    V('odd median off by one', 'DT_InSV.py',
      "data['median-%s' % name] = values[count // 2]",
      "data['median-%s' % name] = values[count // 2 - 1]", 'C16.R4'),
    V('even median takes the upper middle value twice', 'DT_InSV.py',
      "                        middle = values[half] + values[half - 1]",
      "                        middle = values[half] + values[half]",
      'C16.R4'),
    V('median floored for every type (the repaired defect)', 'DT_InSV.py',
      """                        if isinstance(middle, int):
                            # integer data keeps an integer median
                            middle = middle // 2
                        else:
                            middle = middle / 2""",
      """                        middle = middle // 2""", 'C16.R4'),
    V('values not sorted before the median', 'DT_InSV.py',
      "            values.sort()\n", "            pass\n", 'C16.R4'),
    V('None recorded as a non-numeric value', 'DT_InSV.py',
      "                    if item is not None and item is not mv:",
      "                    if item is not mv:", 'C16.R5'),
    # silent
    V('silent: variance from the expanded formula', 'DT_InSV.py',
      "            sumsq = sumsq / n - mean * mean",
      "            sumsq = (sumsq * n - sum * sum) / (n * n)"),
    V('silent: true division for every median', 'DT_InSV.py',
      """                        if isinstance(middle, int):
                            # integer data keeps an integer median
                            middle = middle // 2
                        else:
                            middle = middle / 2""",
      """                        middle = middle / 2"""),
    V('silent: extremes via two independent tests', 'DT_InSV.py',
      """                    if min is None:
                        min = max = item
                    else:
                        if item < min:
                            min = item
                        if item > max:
                            max = item
                except TypeError:""",
      """                    if min is None or item < min:
                        min = item
                    if max is None or item > max:
                        max = item
                except TypeError:"""),
]


# ------------------------------------------------------------- later rules
# (rules added from the seed waves 6 and 7; the kept seeds themselves are
# replayed by the thorough tier as well)
_INIT_OLD = """        if alt_prefix:
            self.alt_prefix = alt_prefix + '_'
"""
_INIT_NEW = """        self.alt_prefix = alt_prefix + '_' if alt_prefix else ''
"""
_GUARD_OLD = "if not (alt_prefix and key.startswith(alt_prefix)):"
_GUARD_NEW = "if alt_prefix is None or not key.startswith(alt_prefix):"
for _pid, _rule in (('C02', 'C02.R8'), ('C10', 'C10.R6')):
    CATALOGUE[_pid] += [
        V('in-block name space: empty prefix accepted (two edits)',
          'DT_InSV.py', _INIT_OLD, _INIT_NEW, _rule,
          extra=[(_GUARD_OLD, _GUARD_NEW)]),
        V('silent: prefix attribute always a str (first edit alone)',
          'DT_InSV.py', _INIT_OLD, _INIT_NEW),
        V('silent: explicit None test (second edit alone)',
          'DT_InSV.py', _GUARD_OLD, _GUARD_NEW),
    ]

CATALOGUE['C08'] += [
    V('_push ignores a None source', '_DocumentTemplate.py',
      '''        """_push(mapping_object) -- Add a data source"""
        self._data.append(src)''',
      '''        """_push(mapping_object) -- Add a data source"""
        if src is None:
            return
        self._data.append(src)''', 'C08.R5'),
]

CATALOGUE['C09'] += [
    V('reader: bare KeyError counts as undefined', '_DocumentTemplate.py',
      'if n != t.args[0]:', 'if t.args and n != t.args[0]:', 'C09.R5'),
    V('silent: reader compares the other way round', '_DocumentTemplate.py',
      'if n != t.args[0]:', 'if not (t.args[0] == n):'),
    V('writer: KeyError carries a message', '_DocumentTemplate.py',
      """            return e
        raise KeyError(key)""",
      """            return e
        raise KeyError('%s is not defined' % key)""", 'C09.R5'),
    V('marker probed on the wrapped value', '_DocumentTemplate.py',
      "if getattr(base, 'isDocTemp', False):",
      "if getattr(e, 'isDocTemp', False):", 'C09.R6'),
]

CATALOGUE['C10'] += [
    V('pair test without tuple test', 'DT_InSV.py',
      'if type(i) is tt and len(i) == 2:', 'if len(i) == 2:', 'C10.R7'),
    V('silent: pair test with isinstance', 'DT_InSV.py',
      'if type(i) is tt and len(i) == 2:',
      'if isinstance(i, tuple) and len(i) == 2:'),
    V('None attribute taken for a missing one', '_DocumentTemplate.py',
      """        try:
            result = get(self.inst, key)
        except AttributeError:
            raise KeyError(key)
""",
      """        result = get(self.inst, key, None)
        if result is None:
            raise KeyError(key)
""", 'C10.R8'),
]

CATALOGUE['C11'] += [
    V('previous-batches memoised as a reversed() iterator', 'DT_InSV.py',
      """        r.reverse()
        data['previous-batches'] = r""",
      """        data['previous-batches'] = r = reversed(r)""", 'C11.R7'),
    V('silent: previous-batches reversed by slicing', 'DT_InSV.py',
      """        r.reverse()
        data['previous-batches'] = r""",
      """        r = r[::-1]
        data['previous-batches'] = r"""),
    V('batch flags without initial value', 'DT_InSV.py',
      """            'previous-sequence': 0,
            'next-sequence': 0,
""", '', 'C11.R8'),
]

CATALOGUE['C12'] += [
    V('window computation changes a given size', 'DT_InSV.py',
      """        if start - 1 < orphan:
            start = 1
    else:""",
      """        if start - 1 < orphan:
            start = 1
            size = end
    else:""", 'C12.R4'),
]

CATALOGUE['C14'] += [
    V('error_type from __qualname__', 'DT_Try.py',
      'errname = t.__name__', 'errname = t.__qualname__', 'C14.R9'),
    V('silent: error_type through getattr-free alias', 'DT_Try.py',
      'errname = t.__name__', 'errname = exc_name = t.__name__'),
]

CATALOGUE['C15'] += [
    V('EPFS conversion lower-cased', 'DT_String.py',
      "return match_ob.group('fmt')",
      "return match_ob.group('fmt').lower()", 'C15.R9'),
    V('silent: EPFS conversion through a local', 'DT_String.py',
      "return match_ob.group('fmt')",
      "fmt = match_ob.group('fmt')\n        return fmt"),
]

CATALOGUE['C16'] += [
    V('median: values sorted only for larger samples', 'DT_InSV.py',
      """            values.sort()
            if count == 1:""",
      """            if count > 2:
                values.sort()
            if count == 1:""", 'C16.R4'),
]

for _pid, _rule in (('C17', 'C17.R8'), ('C18', 'C18.R8')):
    CATALOGUE[_pid] += [
        V('modifier functions kept as a map() iterator', 'DT_Var.py',
          """        self.modifiers = tuple(
            map(lambda t: t[1],""",
          """        self.modifiers = (
            map(lambda t: t[1],""", _rule),
    ]

for _pid, _rule in (('C17', 'C17.R6'), ('C20', 'C20.R10')):
    CATALOGUE[_pid] += [
        V('state built around a mutable default argument', 'TreeTag.py',
          'def extract_id(item, idattr):',
          'def root_state(id, substate=[]):\n    return [id, substate],\n'
          '\n\ndef extract_id(item, idattr):', _rule),
        V('silent: fresh list per call', 'TreeTag.py',
          'def extract_id(item, idattr):',
          'def root_state(id, substate=None):\n'
          '    return [id, substate if substate is not None else []],\n'
          '\n\ndef extract_id(item, idattr):'),
    ]

CATALOGUE['C06'] += [
    V('continuation table is a string', 'DT_In.py',
      "blockContinuations = ('else', )", "blockContinuations = ('else')",
      'C06.R6'),
]

CATALOGUE['C07'] += [
    V('command table rebound on the class', 'DT_String.py',
      'self.commands[cname] = command',
      'type(self).commands = dict(self.commands, **{cname: command})',
      'C07.R9'),
    V('EPFS: only blanks after the tag name', 'DT_String.py',
      "'[\\000- ]+'", "'[ ]+'", 'C07.R10'),
]

CATALOGUE['C03'] += [
    V('html_quote modifier skipped for values that look quoted',
      'DT_Var.py',
      "if f.__name__ == 'html_quote' and isinstance(val, TaintedString):",
      "if f.__name__ == 'html_quote' and (\n"
      "                    isinstance(val, TaintedString) or '&amp;' in val):",
      'C03.R7'),
]

CATALOGUE['C19'] += [
    V('join_unicode falls back to another encoding', '_DocumentTemplate.py',
      """                rendered[i] = rendered[i].decode(encoding)""",
      """                try:
                    rendered[i] = rendered[i].decode(encoding)
                except UnicodeDecodeError:
                    encoding = 'latin-1'
                    rendered[i] = rendered[i].decode(encoding)""",
      'C19.R3'),
]

CATALOGUE['C11'] += [
    V('window computation gets size and end swapped', 'DT_In.py',
      'start, end, sz = opt(start, end, size, orphan, sequence)',
      'start, end, sz = opt(start, size, end, orphan, sequence)',
      'C11.R3'),
    V('silent: the size parameter lives in another local', 'DT_In.py',
      """        size = int_param(params, md, 'size', 0)
        overlap = int_param(params, md, 'overlap', 0)
        orphan = int_param(params, md, 'orphan', '0')
        start, end, sz = opt(start, end, size, orphan, sequence)""",
      """        wanted = int_param(params, md, 'size', 0)
        overlap = int_param(params, md, 'overlap', 0)
        orphan = int_param(params, md, 'orphan', '0')
        start, end, sz = opt(start, end, wanted, orphan, sequence)"""),
]

# ------------------------------------------------ rules from waves 8 and 9
CATALOGUE['C02'] += [
    V('lookup skips sources that are false as containers',
      '_DocumentTemplate.py',
      """        for e in reversed(self._data):
            try:
                e = e[key]
            except (KeyError, NameError):
                continue

            if call:""",
      """        for e in reversed(self._data):
            if not e:
                continue
            try:
                e = e[key]
            except (KeyError, NameError):
                continue

            if call:""", 'C02.R3'),
    V('instance wrapper falls back to item access', '_DocumentTemplate.py',
      """        except AttributeError:
            raise KeyError(key)
""",
      """        except AttributeError:
            try:
                result = self.inst[key]
            except Exception:
                raise KeyError(key)
""", 'C02.R10'),
]

CATALOGUE['C03'] += [
    V('ustr normalises text values', 'ustr.py',
      """    if isinstance(v, (str, bytes)):
        return v
    else:
        fn = getattr""",
      """    if isinstance(v, (str, bytes)):
        return v.replace('\\x00', '') if isinstance(v, str) else v
    else:
        fn = getattr""", 'C03.R8'),
    V('fast path: ampersand only counts with a second condition',
      '_DocumentTemplate.py',
      """                        if ('&' in t or '<' in t or '>' in t or '"' in t or  # NOQA: W504,E501
                                "'" in t):""",
      """                        if ('<' in t or '>' in t or '"' in t or  # NOQA: W504,E501
                                "'" in t or ('&' in t and ';' not in t)):""",
      'C03.R2'),
]

CATALOGUE['C05'] += [
    V('container assertion registered for the tuple', 'security.py',
      'dictInstance = templateDict(dummy=1)[0]',
      'dictInstance = templateDict(dummy=1)', 'C05.R8'),
]

CATALOGUE['C09'] += [
    V('undefined name recorded in the if-cache', '_DocumentTemplate.py',
      """                                cond = None
                            else:
                                cache[n] = cond""",
      """                                cond = None
                            cache[n] = cond""", 'C09.R2'),
    V('refused underscore name signalled with another exception',
      '_DocumentTemplate.py',
      "                raise KeyError(key)  # Don't divulge private data",
      "                raise ValueError(key)  # Don't divulge private data",
      'C09.R5'),
]

CATALOGUE['C10'] += [
    V('skip handler also covers the element push', 'DT_In.py',
      """                    try:
                        client = guarded_getitem(sequence, index)
                    except ValidationError as vv:
                        if 'skip_unauthorized' in self.args and \\
                           self.args['skip_unauthorized']:
                            continue""",
      """                    try:
                        client = guarded_getitem(sequence, index)
                        push(InstanceDict(client, md))
                        pop()
                    except ValidationError as vv:
                        if 'skip_unauthorized' in self.args and \\
                           self.args['skip_unauthorized']:
                            continue""", 'C10.R9'),
    V('prefix mapping skips values already present', 'DT_Util.py',
      """        map = self.map
        map[name] = value
        dp = self.defprefix""",
      """        map = self.map
        if map.get(name) is value:
            return
        map[name] = value
        dp = self.defprefix""", 'C10.R10'),
]

CATALOGUE['C13'] += [
    V('nocase breaks ties by code point', 'DT_In.py',
      '    return cmp(str1.lower(), str2.lower())',
      '    return cmp(str1.lower(), str2.lower()) or cmp(str1, str2)',
      'C13.R8'),
]

CATALOGUE['C14'] += [
    V('returned bytes decoded by the template call', 'DT_String.py',
      """                except DTReturn as v:
                    result = v.v
""",
      """                except DTReturn as v:
                    result = v.v
                if isinstance(result, bytes):
                    result = result.decode('latin-1')
""", 'C14.R10'),
]

CATALOGUE['C16'] += [
    V('statistics loop left at the first item without the value',
      'DT_InSV.py',
      """                    except Exception:
                        if name != 'item':
                            raise""",
      """                    except Exception:
                        if name != 'item':
                            break""", 'C16.R7'),
]

CATALOGUE['C17'] += [
    V('statistics accumulate in place', 'DT_InSV.py',
      '                    sum = sum + item', '                    sum += item',
      'C17.R10'),
    V('decode_seq memoised', 'TreeTag.py',
      'def decode_seq(state):',
      'from functools import lru_cache\n\n\n@lru_cache(maxsize=64)\n'
      'def decode_seq(state):', 'C17.R9'),
]

CATALOGUE['C19'] += [
    V('try tag keeps the handler sections', 'DT_Try.py',
      "                        self.handlers.append((errname, nsection.blocks))",
      "                        self.handlers.append((errname, nsection))",
      'C19.R8'),
    V('items decoded after concatenation', 'DT_In.py',
      "            result = join_unicode(result, encoding=self.encoding)\n\n"
      "        finally:\n            if cache:\n                pop()\n"
      "            pop()\n\n        return result\n\n    def sort_sequence",
      "            try:\n                result = b''.join(result).decode("
      "self.encoding)\n            except TypeError:\n"
      "                result = join_unicode(result, "
      "encoding=self.encoding)\n\n"
      "        finally:\n            if cache:\n                pop()\n"
      "            pop()\n\n        return result\n\n    def sort_sequence",
      'C19.R3'),
]

CATALOGUE['C06'] += [
    V('section name alias merged into the start tag', 'DT_String.py',
      '                    sname = tag', '                    stag = tag',
      'C06.R4'),
]

CATALOGUE['C07'] += [
    V('comment scanner passes over SSI directives', 'DT_HTML.py',
      "               name_match=re.compile('[\\000- ]*[a-zA-Z]+[\\000- ]*').match,",
      "               name_match=re.compile('[\\000- ]*[a-zA-Z]+[\\000- ]*').match,\n"
      "               ssi_match=re.compile('(include|echo|exec)[ ]+[a-z]+=').match,",
      'C07.R11'),
]

# ------------------------------------------------- refactoring wave 7 rules
CATALOGUE['C06'] += [
    V('template-derived pattern applied while compiling', 'DT_In.py',
      """                        '=[0-9]+&+')

        name, expr = name_param(args, 'in', 1)""",
      """                        '=[0-9]+&+')
                    if self.start_name_re.search(v):
                        raise ParseError('start names itself', 'in')

        name, expr = name_param(args, 'in', 1)""", 'C06.R1'),
    V('silent: the batch regex built by a helper, stored only', 'DT_In.py',
      """                    self.start_name_re = re.compile(
                        '&+' +  # NOQA: W504
                        ''.join(["[%s]" % c for c in v]) +  # NOQA: W504
                        '=[0-9]+&+')
""",
      """                    start_re = _start_re(v)
                    if start_re is not None:
                        self.start_name_re = start_re
"""),
]
CATALOGUE['C01'] += [
    V('one piece is joined with nothing, several return the first',
      '_DocumentTemplate.py',
      """    l_ = len(rendered)
    if l_ == 0:
        return ''
    elif l_ == 1:
        return rendered[0]
    return join_unicode(rendered, encoding=encoding)""",
      """    if not rendered:
        return ''
    if len(rendered) >= 1:
        return rendered[0]
    return join_unicode(rendered, encoding=encoding)""", 'C01.R3'),
    V('silent: sizes tested the other way round', '_DocumentTemplate.py',
      """    l_ = len(rendered)
    if l_ == 0:
        return ''
    elif l_ == 1:
        return rendered[0]
    return join_unicode(rendered, encoding=encoding)""",
      """    if len(rendered) > 1:
        return join_unicode(rendered, encoding=encoding)
    return rendered[0] if rendered else ''"""),
]
CATALOGUE['C19'] += [
    V('join_unicode joins a sorted copy', '_DocumentTemplate.py',
      """        rendered = list(rendered)
        for i in range(len(rendered)):""",
      """        rendered = sorted(rendered, key=len)
        for i in range(len(rendered)):""", 'C19.R3'),
    V('silent: join_unicode decodes in a comprehension',
      '_DocumentTemplate.py',
      """        rendered = list(rendered)
        for i in range(len(rendered)):
            if isinstance(rendered[i], bytes):
                rendered[i] = rendered[i].decode(encoding)
        return ''.join(rendered)""",
      """        return ''.join([p.decode(encoding) if isinstance(p, bytes)
                        else p for p in rendered])"""),
]
CATALOGUE['C13'] += [
    V('cmp() is not three-way any more', 'DT_In.py',
      "    return (a > b) - (a < b)", "    return (a > b) - (a <= b)",
      'C13.R5'),
    V('silent: cmp() spelled with conditionals', 'DT_In.py',
      "    return (a > b) - (a < b)",
      "    if a < b:\n        return -1\n    return 1 if a > b else 0"),
]
CATALOGUE['C05'] += [
    V('silent: getter helper with early return', 'DT_Util.py',
      """def careful_getattr(md, inst, name, default=_marker):

    get = md.guarded_getattr
    if get is None:
        get = getattr
""",
      """def _getter(md):
    guard = md.guarded_getattr
    if guard is None:
        return getattr
    return guard


def careful_getattr(md, inst, name, default=_marker):

    get = _getter(md)
"""),
    V('getter helper falls back when the guard is present', 'DT_Util.py',
      """def careful_getattr(md, inst, name, default=_marker):

    get = md.guarded_getattr
    if get is None:
        get = getattr
""",
      """def _getter(md):
    guard = md.guarded_getattr
    if guard is not None:
        return getattr
    return guard


def careful_getattr(md, inst, name, default=_marker):

    get = _getter(md)
""", 'C05.R1'),
]

# ------------------------------------------------------ seed wave 10 rules
CATALOGUE['C01'] += [
    V('scan resumes behind the semicolon of a rejected entity', 'DT_HTML.py',
      """                start = s + 1
                continue
""",
      """                start = max(s + 1, text.find(';', s) + 1)
                continue
""", 'C01.R9'),
]
CATALOGUE['C02'] += [
    V('client dropped when false', 'DT_String.py',
      """        if client is not None:
            if isinstance(client, tuple):
                # if client is a tuple, it represents a "path" of clients""",
      """        if client:
            if isinstance(client, tuple):
                # if client is a tuple, it represents a "path" of clients""",
      'C02.R1'),
    V('silent: initvars with continue guards', 'DT_String.py',
      """            for k in globals.keys():
                if k[:1] != '_' and k not in vars:
                    vars[k] = globals[k]""",
      """            for k in globals.keys():
                if k[:1] == '_':
                    continue
                if k in vars:
                    continue
                vars[k] = globals[k]"""),
]
CATALOGUE['C06'] += [
    V('try..finally test accepts further blocks', 'DT_Try.py',
      "        if len(blocks) == 2 and blocks[1][0] == 'finally':",
      "        if len(blocks) >= 2 and blocks[1][0] == 'finally':",
      'C06.R13'),
    V('silent: try..finally test written the other way round', 'DT_Try.py',
      "        if len(blocks) == 2 and blocks[1][0] == 'finally':",
      "        if blocks[1:] and blocks[1][0] == 'finally' "
      "and len(blocks) == 2:"),
]
CATALOGUE['C07'] += [
    V('name= together with expr= accepted', 'DT_Util.py',
      """        if expr:
            if 'expr' in params:
                raise ParseError('%s and expr given' % attr, tag)
            return (params[attr], None)
        return params[attr]""",
      """        if expr:
            return (params[attr], None)
        return params[attr]""", 'C07.R12'),
]
CATALOGUE['C10'] += [
    V('value() prefers the attribute', 'DT_InSV.py',
      """        if data['mapping']:
            return item[name]
        return getattr(item, name)""",
      """        if data['mapping'] and not hasattr(item, name):
            return item[name]
        return getattr(item, name)""", 'C10.R11'),
    V('mapping ignored with no_push_item', 'DT_In.py',
      "        if 'mapping' in args:\n            self.mapping = args['mapping']",
      "        if 'mapping' in args and not self.no_push_item:\n"
      "            self.mapping = args['mapping']", 'C10.R12'),
]
CATALOGUE['C13'] += [
    V('None of a called key is not replaced', 'DT_In.py',
      """                    if not basic_type(type(k)) and callable(k):
                        try:
                            k = k()
                        except Exception:
                            k = _Smallest
                    if k is None:
                        k = _Smallest""",
      """                    if k is None:
                        k = _Smallest
                    if not basic_type(type(k)) and callable(k):
                        try:
                            k = k()
                        except Exception:
                            k = _Smallest""", 'C13.R9'),
]
CATALOGUE['C14'] += [
    V('return value through and/or', 'DT_Return.py',
      """        if self.expr is None:
            val = md[self.__name__]
        else:
            val = self.expr.eval(md)
""",
      """        val = self.expr is not None and self.expr.eval(md) \\
            or md[self.__name__]
""", 'C14.R10'),
    V('silent: return value through a conditional expression',
      'DT_Return.py',
      """        if self.expr is None:
            val = md[self.__name__]
        else:
            val = self.expr.eval(md)
""",
      """        val = md[self.__name__] if self.expr is None \\
            else self.expr.eval(md)
"""),
]
CATALOGUE['C15'] += [
    V('size truncates at exactly size', 'DT_Var.py',
      "            if len(val) > size:", "            if len(val) >= size:",
      'C15.R12'),
    V('silent: size test turned round', 'DT_Var.py',
      "            if len(val) > size:", "            if size < len(val):"),
    V('spacify skips a leading underscore', 'DT_Var.py',
      "    if val.find('_') >= 0:", "    if val.find('_') > 0:", 'C15.R5'),
]
CATALOGUE['C16'] += [
    V('count stored only with values', 'DT_InSV.py',
      """        data['count-%s' % name] = count
        if min is not None:
            data['min-%s' % name] = min""",
      """        if min is not None:
            data['count-%s' % name] = count
            data['min-%s' % name] = min""", 'C16.R8'),
]
CATALOGUE['C17'] += [
    V('munge ignores an empty source', 'DT_String.py',
      "        if source_string is not None:\n            self.raw = source_string",
      "        if source_string:\n            self.raw = source_string",
      'C17.R7'),
]
CATALOGUE['C19'] += [
    V('html_quote tries UTF-8 first', 'html_quote.py',
      "        v = v.decode(encoding or 'Latin-1')",
      "        try:\n            v = v.decode('utf-8')\n"
      "        except UnicodeDecodeError:\n"
      "            v = v.decode(encoding or 'Latin-1')", 'C19.R3'),
]
CATALOGUE['C20'] += [
    V('falsy id replaced', 'TreeTag.py',
      "        return try_call_attr(item, idattr)",
      "        return try_call_attr(item, idattr) or pyid(item)", 'C20.R9'),
]

# ------------------------------------------------------ seed wave 11 rules
CATALOGUE['C02'] += [
    V('namespace() hands its keywords on as one object', 'DT_Util.py',
      "    return self(**kw)\n\n\nTemplateDict.namespace = namespace",
      "    return self(kw)\n\n\nTemplateDict.namespace = namespace",
      'C02.R11'),
]
CATALOGUE['C12'] += [
    V('the lazy wrapper iterates over its buffer', 'DT_Util.py',
      "class SequenceFromIter:\n"
      '    """Iterator wrapper supporting lazy sequence subscription."""\n',
      "class SequenceFromIter:\n"
      '    """Iterator wrapper supporting lazy sequence subscription."""\n\n'
      "    def __iter__(self):\n        return iter(self.data)\n",
      'C12.R2'),
]
CATALOGUE['C14'] += [
    V('base class names matched by membership in a text', 'DT_Try.py',
      "            if base.__name__ == name or self.match_base(base, name):",
      "            if base.__name__ in name or self.match_base(base, name):",
      'C14.R6-R7'),
    V('exception names split at a blank', 'DT_Try.py',
      "                    for errname in nargs.split():",
      "                    for errname in nargs.split(' '):", 'C14.R11'),
]
CATALOGUE['C15'] += [
    V('url_quote leaves % alone', 'DT_Var.py',
      "    return urllib.parse.quote(str(v))",
      "    return urllib.parse.quote(str(v), safe='/%')", 'C15.R5'),
]
