"""Plumbing shared by all checks: findings, rule results, known findings,
evidence, exit codes.

exit 0  all obligations hold (known findings printed as KNOWN-FINDING)
exit 1  >=1 finding not listed in known_findings.json  (VIOLATION line)
exit 2  ANALYSIS-ERROR: the analyser could not do its job (anchor vanished,
        floor not reached, control snippet not flagged, parse failure)
"""
import ast
import json
import os
import re
import sys
import time
import traceback

VERIF_DIR = os.path.dirname(os.path.dirname(os.path.abspath(__file__)))
REPO_DIR = os.environ.get('DTVERIF_REPO', '/repo')
KNOWN_FILE = os.path.join(VERIF_DIR, 'known_findings.json')
# development only: redirect evidence / reports of scratch runs
OUT_DIR = os.environ.get('DTVERIF_OUT', VERIF_DIR)


class AnalysisError(Exception):
    """The analyser cannot decide (anchor missing, floor not met ...)."""


def norm(node):
    """Normalised source text of an AST node (layout independent)."""
    if node is None:
        return ''
    if isinstance(node, str):
        return re.sub(r'\s+', ' ', node).strip()
    try:
        s = ast.unparse(node)
    except Exception:
        s = ast.dump(node)
    s = re.sub(r'\s+', ' ', s).strip()
    if len(s) > 160:
        s = s[:157] + '...'
    return s


class Finding:
    """One violated obligation, keyed independently of line numbers."""

    def __init__(self, rule, where, construct, message, lineno=None,
                 file=None, path=None, extra=None):
        self.rule = rule                  # e.g. 'C08.R1'
        self.where = where                # 'DT_String:String.__call__'
        self.construct = norm(construct)  # normalised construct text
        self.message = message
        self.lineno = lineno
        self.file = file
        self.path = path                  # optional list of line numbers
        self.extra = extra or {}

    @property
    def key(self):
        return f'{self.rule}|{self.where}|{self.construct}'

    def to_json(self):
        d = {'key': self.key, 'rule': self.rule, 'where': self.where,
             'construct': self.construct, 'message': self.message}
        if self.file:
            d['file'] = self.file
        if self.lineno:
            d['line'] = self.lineno
        if self.path:
            d['path_lines'] = list(self.path)[-40:]
        if self.extra:
            d['extra'] = self.extra
        return d

    def __repr__(self):
        return f'<Finding {self.key} @{self.lineno}: {self.message}>'


class RuleResult:
    """What one rule examined and concluded."""

    def __init__(self, rule, text):
        self.rule = rule
        self.text = text            # one-line statement of the rule
        self.instances = []         # dicts: what was examined (samples)
        self.findings = []
        self.controls = []          # (name, fired: bool)
        self.floor = 0
        self.stats = {}

    def instance(self, where, construct, verdict='ok', **kw):
        d = {'where': where, 'construct': norm(construct), 'verdict': verdict}
        d.update(kw)
        self.instances.append(d)
        return d

    def finding(self, where, construct, message, node=None, ctx=None, **kw):
        lineno = getattr(node, 'lineno', None) if node is not None else None
        file = None
        if ctx is not None:
            file = getattr(ctx, 'relpath', None) or getattr(
                getattr(ctx, 'module', None), 'relpath', None)
        f = Finding(self.rule, where, construct, message, lineno=lineno,
                    file=file, **kw)
        # de-duplicate identical keys
        for g in self.findings:
            if g.key == f.key:
                return g
        self.findings.append(f)
        return f

    def control(self, name, fired):
        self.controls.append((name, bool(fired)))

    def require_floor(self, floor, what='instances'):
        self.floor = floor
        if len(self.instances) < floor:
            raise AnalysisError(
                f'{self.rule}: matched {len(self.instances)} {what}, '
                f'floor is {floor} (rule no longer sees its pattern)')

    def check_controls(self):
        for name, fired in self.controls:
            if not fired:
                raise AnalysisError(
                    f'{self.rule}: positive control {name!r} was not flagged')


def load_known():
    if not os.path.exists(KNOWN_FILE):
        return {'known': [], 'fixed': []}
    with open(KNOWN_FILE) as f:
        return json.load(f)


def known_keys():
    k = load_known()
    return {e['key']: e for e in k.get('known', [])}


_KEEP = set(dir(__builtins__) if not isinstance(__builtins__, dict)
            else __builtins__) | {
    'self', 'and', 'or', 'not', 'in', 'is', 'for', 'if', 'else', 'lambda',
    'after', 'via', 'before'}


def stable_key(key):
    """(rule, module, construct with local names alpha-renamed) of a
    finding key `rule|module:qualname|construct`."""
    rule, where, construct = (key.split('|', 2) + ['', ''])[:3]
    mod = where.split(':')[0]
    names = {}

    def sub(m):
        w = m.group(2)
        if m.group(1) or w in _KEEP:
            return m.group(0)
        if w not in names:
            names[w] = f'_{len(names) + 1}'
        return names[w]
    alpha = re.sub(r'(\.|:)?\b([A-Za-z_][A-Za-z_0-9]*)\b', sub, construct)
    return (rule, mod, alpha)


def run_check(pid, rules, tier, model_factory, level='other',
              assumptions=(), trusted_base=(), explanation='',
              extra_cov=None, thorough_extra=None):
    """Run the rule functions of one property and emit lines, report and
    evidence.  Returns the process exit code."""
    t0 = time.time()
    seed = int(os.environ.get('VERIF_SEED', '0') or 0)
    evidence_path = os.path.join(OUT_DIR, 'evidence', f'{pid}.json')
    try:
        model = model_factory()
        results = []
        # A rule that cannot do its job (anchor vanished, floor not met)
        # must not hide what the other rules of the property find: its
        # error is recorded, the remaining rules still run.  The run ends
        # with exit 1 if any rule reports an unlisted finding (a finding is
        # independent of the rule that could not decide) and with exit 2
        # (no verdict) otherwise.
        rule_errors = []
        for rule in rules:
            try:
                res = rule(model)
                if isinstance(res, RuleResult):
                    res = [res]
                for r in res:
                    r.check_controls()
            except AnalysisError as e:
                rule_errors.append(str(e))
                continue
            except Exception:
                traceback.print_exc()
                rule_errors.append(
                    f'{getattr(rule, "__name__", "rule")}: internal error '
                    'in analyser')
                continue
            results.extend(res)
        selfval = None
        if tier == 'thorough' and thorough_extra is not None:
            selfval = thorough_extra(model, results)
    except AnalysisError as e:
        print(f'ANALYSIS-ERROR property={pid} {e}')
        return 2
    except Exception:
        traceback.print_exc()
        print(f'ANALYSIS-ERROR property={pid} internal error in analyser')
        return 2

    known = known_keys()
    n_known = n_viol = 0
    viol = []
    known_hit = []
    obligations = discharged = 0
    # a listed finding whose site was renamed / moved inside its module
    # (locals renamed, code extracted into a helper) is the same finding:
    # listed entries that do not re-appear under their exact key form a
    # pool per (rule, module, alpha-normalised construct); a finding with
    # an unknown key consumes one pool entry, so an additional violation
    # of the same shape is still reported
    present = {f.key for r in results for f in r.findings}
    pool = {}
    for k in known:
        if k not in present and k.split('.')[0] == pid:
            sk = stable_key(k)
            pool[sk] = pool.get(sk, 0) + 1
    moved = set()
    for r in results:
        nk = nv = 0
        for f in r.findings:
            sk = stable_key(f.key)
            if f.key in known:
                nk += 1
                known_hit.append(f)
            elif pool.get(sk, 0) > 0:
                pool[sk] -= 1
                nk += 1
                known_hit.append(f)
                moved.add(id(f))
            else:
                nv += 1
                viol.append(f)
        n_known += nk
        n_viol += nv
        n_inst = len(r.instances)
        obligations += max(n_inst, 1)
        discharged += max(n_inst, 1) - min(len(r.findings), max(n_inst, 1))
        print(f'RULE {r.rule} instances={n_inst} '
              f'ok={max(n_inst - len(r.findings), 0)} known={nk} '
              f'violations={nv} controls='
              f'{sum(1 for c in r.controls if c[1])}/{len(r.controls)}'
              f' :: {r.text}')
    for f in known_hit:
        print(f'KNOWN-FINDING: property={pid} {f.rule} {f.where}: '
              f'{f.message} [{f.construct}]'
              + (' (listed finding, site renamed or moved within its '
                 'module)' if id(f) in moved else ''))
    if selfval is not None:
        print(f'SELF-VALIDATION must_fire={selfval["must_fire"]} '
              f'fired={selfval["fired"]} must_stay_silent='
              f'{selfval["must_stay_silent"]} silent={selfval["silent"]}')
        if selfval.get('seeded'):
            print(f'SELF-VALIDATION seeded={selfval["seeded"]} '
                  f'seeded_fired={selfval["seeded_fired"]} '
                  f'seeded_stale={selfval["seeded_stale"]}')
        if selfval['failures']:
            for m in selfval.get('failures', []):
                print('  SELF-VALIDATION-FAILURE', m)
            print(f'ANALYSIS-ERROR property={pid} self-validation of the '
                  'checker failed (see lines above)')
            return 2

    replay = None
    if rule_errors and not viol:
        for e in rule_errors:
            print(f'ANALYSIS-ERROR property={pid} {e}')
        return 2
    for e in rule_errors:
        print(f'RULE-ERROR property={pid} {e} (no verdict from this rule; '
              'the findings of the other rules stand)')
    if viol:
        rep_dir = os.path.join(OUT_DIR, 'reports', pid)
        os.makedirs(rep_dir, exist_ok=True)
        replay = os.path.join(rep_dir, 'report.json')
        with open(replay, 'w') as fh:
            json.dump({'property': pid, 'tier': tier, 'repo': REPO_DIR,
                       'violations': [f.to_json() for f in viol]},
                      fh, indent=1)
        for f in viol:
            loc = f'{f.file}:{f.lineno}' if f.file else f'line {f.lineno}'
            print(f'FINDING {f.rule} {loc} {f.where}: {f.message} '
                  f'[{f.construct}]')
        print(f'VIOLATION property={pid} replay={replay}')

    # evidence
    samples = []
    for r in results:
        for inst in r.instances[:6]:
            d = {'rule': r.rule}
            d.update(inst)
            samples.append(d)
    all_inst = [(r.rule, i['where'], i['construct'])
                for r in results for i in r.instances]
    cov = {
        'explanation': explanation or ' / '.join(
            f'{r.rule}: {r.text}' for r in results),
        'rules': [{'rule': r.rule, 'text': r.text,
                   'instances': len(r.instances), 'floor': r.floor,
                   'findings': [f.key for f in r.findings],
                   'controls': [{'name': c[0], 'fired': c[1]}
                                for c in r.controls],
                   'stats': r.stats} for r in results],
        'obligations': obligations,
        'discharged': discharged,
        'evaluations': max(len(all_inst), 1),
        'distinct_nontrivial': len(set(all_inst)),
        'rule': 'one evaluation = one rule instance (a construct of the '
                'current /repo source matched by a rule through resolved '
                'names/dominance, not text); distinct = distinct (rule, '
                'function, normalised construct); non-trivial = it matched '
                'a real construct of the tree (controls not counted)',
        'samples': samples[:60] or [{'note': 'no instances'}],
        'checker_cmd': f'/venv/bin/python -m dtverif check {pid} '
                       f'--tier {tier}',
        'trusted_base': list(trusted_base),
        'known_findings': [f.key for f in known_hit],
        'controls_fired': sum(1 for r in results for c in r.controls
                              if c[1]),
        'functions_analysed': model.stats.get('functions', 0),
        'modules_analysed': sorted(model.modules),
        'exhaustive': True,
    }
    if extra_cov:
        cov.update(extra_cov(model, results) or {})
    if selfval is not None:
        cov['self_validation'] = {k: v for k, v in selfval.items()}
    ev = {
        'property_id': pid,
        'tier': tier,
        'seed': seed,
        'level': level,
        'coverage': cov,
        'assumptions': list(assumptions),
        'wall_s': round(time.time() - t0, 3),
        'violations': n_viol,
    }
    os.makedirs(os.path.dirname(evidence_path), exist_ok=True)
    with open(evidence_path, 'w') as fh:
        json.dump(ev, fh, indent=1, sort_keys=True)
        fh.write('\n')
    print(f'CHECK {pid} tier={tier} rules={len(results)} '
          f'instances={len(all_inst)} known={n_known} violations={n_viol} '
          f'wall_s={ev["wall_s"]}')
    return 1 if viol else 0
