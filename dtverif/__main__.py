"""CLI:  python -m dtverif check <ID> [--tier quick|thorough]
         python -m dtverif all [--tier ...]
         python -m dtverif replay <report.json>
         python -m dtverif selfcheck
"""
import argparse
import importlib
import json
import os
import sys

from . import core
from .model import load_model

PROPS = ['C01', 'C02', 'C03', 'C04', 'C05', 'C06', 'C07', 'C08', 'C09',
         'C10', 'C11', 'C12', 'C13', 'C14', 'C15', 'C16', 'C17', 'C18', 'C19',
         'C20']


def run_one(pid, tier):
    try:
        mod = importlib.import_module(f'dtverif.rules.{pid.lower()}')
    except ModuleNotFoundError:
        print(f'ANALYSIS-ERROR property={pid} no check implemented')
        return 2
    except Exception:
        import traceback
        traceback.print_exc()
        print(f'ANALYSIS-ERROR property={pid} the checker itself does not '
              'load')
        return 2
    thorough_extra = None
    try:
        from . import selfval
        thorough_extra = selfval.make_thorough(pid, mod)
    except ImportError:
        pass
    return core.run_check(
        pid, mod.RULES, tier, load_model,
        level=getattr(mod, 'LEVEL', 'other'),
        assumptions=getattr(mod, 'ASSUMPTIONS', ()),
        trusted_base=getattr(mod, 'TRUSTED', ()),
        explanation=getattr(mod, 'EXPLANATION', ''),
        extra_cov=getattr(mod, 'extra_coverage', None),
        thorough_extra=thorough_extra)


def main(argv=None):
    ap = argparse.ArgumentParser(prog='dtverif')
    sub = ap.add_subparsers(dest='cmd', required=True)
    c = sub.add_parser('check')
    c.add_argument('pid')
    c.add_argument('--tier', default=os.environ.get('VERIF_TIER', 'quick'),
                   choices=['quick', 'thorough'])
    a = sub.add_parser('all')
    a.add_argument('--tier', default='quick', choices=['quick', 'thorough'])
    rp = sub.add_parser('replay')
    rp.add_argument('path')
    sub.add_parser('selfcheck')
    args = ap.parse_args(argv)

    if args.cmd == 'check':
        return run_one(args.pid.upper(), args.tier)
    if args.cmd == 'all':
        worst = 0
        for pid in PROPS:
            rc = run_one(pid, args.tier)
            worst = max(worst, rc)
        return worst
    if args.cmd == 'replay':
        with open(args.path) as fh:
            rep = json.load(fh)
        print(f"replay of {rep['property']} ({len(rep['violations'])} "
              'finding(s) recorded); re-running the check on the current '
              'tree:')
        for v in rep['violations']:
            print('  recorded:', v['key'], '--', v['message'])
        return run_one(rep['property'], rep.get('tier', 'quick'))
    if args.cmd == 'selfcheck':
        import re._parser  # noqa
        m = load_model()
        print(f'selfcheck ok: python {sys.version.split()[0]}, '
              f'{len(m.modules)} modules, {m.stats["functions"]} functions')
        return 0
    return 2


if __name__ == '__main__':
    sys.exit(main())
