"""Partial evaluation of small, data-independent functions.

A few properties depend on what a short function does to a *finite,
statically known* set of keys (which attribute names __getstate__ keeps)
and not on how it is written: loop with `continue`, comprehension,
copy-and-pop, startswith ...  This evaluator interprets the function's own
syntax tree over concrete keys and opaque values: statements Assign /
For / If / Continue / Break / Pass / Expr(method call on a local dict or
list) / Delete / Return / Try, expressions through constfold (pure
builtins on literals only).  Anything else raises Unsupported and the
rule reports an analysis error.  No repository code is imported or run.
"""
import ast

from . import constfold


class Unsupported(Exception):
    pass


class _Return(Exception):
    def __init__(self, value):
        self.value = value


class _Break(Exception):
    pass


class _Continue(Exception):
    pass


MUTATING = {'pop', 'update', 'clear', 'setdefault', 'append', 'extend',
            'remove', 'add', 'discard', 'insert'}


def run(fn, env, globals_=None, budget=20000):
    """Execute fn's body with local environment env (name -> value; dotted
    names like 'self.__dict__' allowed).  -> returned value."""
    globals_ = globals_ or {}
    steps = [0]

    def ev(e):
        try:
            return _fold(e, env, globals_)
        except constfold.NotConstant as exc:
            raise Unsupported(f'expression {ast.unparse(e)[:60]}: {exc}')

    def assign(t, v):
        if isinstance(t, ast.Name):
            env[t.id] = v
        elif isinstance(t, (ast.Tuple, ast.List)):
            vals = list(v)
            if len(vals) != len(t.elts):
                raise Unsupported('unpacking')
            for x, y in zip(t.elts, vals):
                assign(x, y)
        elif isinstance(t, ast.Subscript):
            ev(t.value)[ev(t.slice)] = v
        elif isinstance(t, ast.Attribute):
            env[ast.unparse(t)] = v
        else:
            raise Unsupported('assignment target')

    def block(stmts):
        for st in stmts:
            steps[0] += 1
            if steps[0] > budget:
                raise Unsupported('step budget')
            stmt(st)

    def stmt(st):
        if isinstance(st, ast.Assign):
            v = ev(st.value)
            for t in st.targets:
                assign(t, v)
        elif isinstance(st, ast.AugAssign):
            assign(st.target, ev(ast.BinOp(left=st.target, op=st.op,
                                           right=st.value)))
        elif isinstance(st, ast.Expr):
            c = st.value
            if isinstance(c, ast.Constant):
                return
            if isinstance(c, ast.Call) and isinstance(
                    c.func, ast.Attribute) and c.func.attr in MUTATING:
                obj = ev(c.func.value)
                args = [ev(a) for a in c.args]
                if not isinstance(obj, (dict, list, set)):
                    raise Unsupported('mutation of a non-local object')
                try:
                    getattr(obj, c.func.attr)(*args)
                except KeyError:
                    raise
                except Exception as exc:
                    raise Unsupported(str(exc))
            else:
                ev(c)
        elif isinstance(st, ast.Delete):
            for t in st.targets:
                if isinstance(t, ast.Subscript):
                    del ev(t.value)[ev(t.slice)]
                else:
                    raise Unsupported('del')
        elif isinstance(st, ast.If):
            block(st.body if ev(st.test) else st.orelse)
        elif isinstance(st, ast.For):
            broke = False
            for item in list(ev(st.iter)):
                assign(st.target, item)
                try:
                    block(st.body)
                except _Continue:
                    continue
                except _Break:
                    broke = True
                    break
            if not broke:
                block(st.orelse)
        elif isinstance(st, ast.While):
            raise Unsupported('while loop')
        elif isinstance(st, ast.Continue):
            raise _Continue()
        elif isinstance(st, ast.Break):
            raise _Break()
        elif isinstance(st, ast.Pass):
            pass
        elif isinstance(st, ast.Return):
            raise _Return(ev(st.value) if st.value is not None else None)
        elif isinstance(st, ast.Try):
            try:
                block(st.body)
            except KeyError:
                hs = [h for h in st.handlers if h.type is None or
                      ast.unparse(h.type) in ('KeyError', 'Exception',
                                              'LookupError')]
                if not hs:
                    raise
                block(hs[0].body)
            else:
                block(st.orelse)
            finally:
                block(st.finalbody)
        else:
            raise Unsupported(type(st).__name__)

    try:
        block(fn.body)
    except _Return as r:
        return r.value
    except (_Break, _Continue):
        raise Unsupported('break/continue outside loop')
    return None


def _fold(e, env, globals_):
    """constfold with dotted environment names and a few more pure
    methods."""
    class _Env(dict):
        pass
    # dotted names: rewrite Attribute chains found in env into Names
    class T(ast.NodeTransformer):
        def visit_Attribute(self, node):
            key = ast.unparse(node)
            if key in env:
                return ast.copy_location(
                    ast.Name(id='\x00' + key, ctx=ast.Load()), node)
            return self.generic_visit(node)
    import copy
    e2 = T().visit(copy.deepcopy(e))
    env2 = dict(env)
    for k, v in env.items():
        if '.' in k:
            env2['\x00' + k] = v
    return constfold.fold(e2, globals_, env2)
