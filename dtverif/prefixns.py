"""The name space of the dtml-in variable object (C02.R8 / C10.R6).

`sequence_variables.__getitem__` is the mapping dtml-in pushes on the
namespace for the duration of its body.  It may answer `sequence-...` /
`<statistic>-...` keys (they contain a dash, no other source can define
them through attribute access) and, when the tag has a `prefix=`, the alias
spelling `<prefix>_...`.  A dash-less key that does not start with a
*non-empty* configured prefix must be refused with KeyError: otherwise the
block binds plain names (number, item, key, length, first_name ...) that
belong to outer sources, and every source below it loses precedence for
them inside the body.

Decision procedure (path-sensitive abstract interpretation, flow.Interp):
strings are abstracted to {NONE, EMPTY, NONEMPTY}; the values the prefix
attribute can hold are collected from the class default and from every
`self.<attr> = ...` of the class, evaluated in the same domain on every
path of the method that contains it (so `if p: self.a = p + '_'` yields
NONEMPTY only); `__getitem__` is then interpreted with that set.  On every
path on which the key is known to contain no dash, a normal exit (return or
fall through) requires the fact `key.startswith(p)` for a `p` whose value
is NONEMPTY on that path.
"""
import ast

from .core import AnalysisError
from .core import norm
from .flow import NORMAL
from .flow import RAISE
from .flow import RETURN
from .flow import BaseState
from .flow import Domain
from .flow import Interp
from .flow import Outcome

NONE, EMPTY, NONEMPTY = 'NONE', 'EMPTY', 'NONEMPTY'
TOP = frozenset((NONE, EMPTY, NONEMPTY))
STR = frozenset((EMPTY, NONEMPTY))


def _pname(e):
    """Pseudo-variable name of a Name or a `self.attr` expression."""
    if isinstance(e, ast.Name):
        return e.id
    if isinstance(e, ast.Attribute) and isinstance(e.value, ast.Name) \
            and e.value.id == 'self':
        return 'self.' + e.attr
    return None


class S(BaseState):
    __slots__ = ('env', 'sw', 'dashless', 'cleared', 'rfind', 'trace',
                 'cur_exc', 'assigned')

    def __init__(self):
        self.env = {}          # pseudo-name -> frozenset of atoms
        self.sw = frozenset()  # prefix pseudo-names the key starts with
        self.dashless = None
        self.cleared = False
        self.rfind = frozenset()   # locals holding key.rfind('-')
        self.trace = ()
        self.cur_exc = None
        self.assigned = frozenset()  # self attributes assigned on the path

    def key(self):
        return (tuple(sorted((k, tuple(sorted(v)))
                             for k, v in self.env.items())),
                tuple(sorted(self.sw)), self.dashless, self.cleared,
                tuple(sorted(self.rfind)), tuple(sorted(self.assigned)))

    def copy(self):
        n = S()
        n.env = dict(self.env)
        n.sw, n.dashless, n.cleared = self.sw, self.dashless, self.cleared
        n.rfind, n.trace, n.assigned = self.rfind, self.trace, self.assigned
        return n

    def settle(self):
        if self.dashless and not self.cleared:
            for p in self.sw:
                if self.env.get(p, TOP) <= {NONEMPTY}:
                    self.cleared = True
        return self


class PrefixDomain(Domain):
    def __init__(self, keyvar, attr_values, record=None):
        self.keyvar = keyvar
        self.attr_values = attr_values   # 'self.attr' -> frozenset
        self.record = record if record is not None else {}

    # ------------------------------------------------------- evaluation
    def value(self, e, st):
        if isinstance(e, ast.Constant):
            if e.value is None:
                return frozenset((NONE,))
            if isinstance(e.value, str):
                return frozenset((NONEMPTY if e.value else EMPTY,))
            return TOP
        pn = _pname(e)
        if pn is not None:
            if pn in st.env:
                return st.env[pn]
            if pn in self.attr_values:
                return self.attr_values[pn]
            return TOP
        if isinstance(e, ast.BinOp) and isinstance(e.op, ast.Add):
            a, b = self.value(e.left, st), self.value(e.right, st)
            a, b = a - {NONE} or STR, b - {NONE} or STR
            if a <= {NONEMPTY} or b <= {NONEMPTY}:
                return frozenset((NONEMPTY,))
            if a <= {EMPTY} and b <= {EMPTY}:
                return frozenset((EMPTY,))
            return STR
        if isinstance(e, ast.IfExp):
            out = frozenset()
            for b, s2 in Interp(self).branch(e.test, st):
                out |= self.value(e.body if b else e.orelse, s2)
            return out or TOP
        if isinstance(e, ast.BoolOp):
            out = frozenset()
            for v in e.values:
                out |= self.value(v, st)
            return out
        if isinstance(e, ast.JoinedStr):
            if any(isinstance(v, ast.Constant) and v.value
                   for v in e.values):
                return frozenset((NONEMPTY,))
            return STR
        return TOP

    # ---------------------------------------------------------- effects
    def effects(self, stmt, st):
        if isinstance(stmt, ast.Assign):
            targets, value = stmt.targets, stmt.value
        elif isinstance(stmt, ast.AnnAssign) and stmt.value is not None:
            targets, value = [stmt.target], stmt.value
        elif isinstance(stmt, ast.AugAssign):
            pn = _pname(stmt.target)
            if pn is None:
                return st
            n = st.copy()
            n.env[pn] = self.value(ast.BinOp(stmt.target, stmt.op,
                                             stmt.value), st) \
                if isinstance(stmt.op, ast.Add) else TOP
            n.sw = n.sw - {pn}
            return n.settle()
        else:
            return st
        n = st.copy()
        v = self.value(value, st)
        src = _pname(value)
        is_rfind = isinstance(value, ast.Call) and \
            isinstance(value.func, ast.Attribute) and \
            value.func.attr in ('rfind', 'find') and \
            isinstance(value.func.value, ast.Name) and \
            value.func.value.id == self.keyvar and value.args and \
            isinstance(value.args[0], ast.Constant) and \
            value.args[0].value == '-'
        for t in targets:
            pn = _pname(t)
            if pn is None:
                for x in ast.walk(t):
                    if isinstance(x, ast.Name) and isinstance(
                            x.ctx, ast.Store):
                        n.env.pop(x.id, None)
                        n.sw = n.sw - {x.id}
                        n.rfind = n.rfind - {x.id}
                continue
            n.env[pn] = v
            n.rfind = (n.rfind | {pn}) if is_rfind else (n.rfind - {pn})
            if src is not None and src in st.sw:
                n.sw = n.sw | {pn}
            else:
                n.sw = n.sw - {pn}
            if pn.startswith('self.'):
                n.assigned = n.assigned | {pn}
                self.record.setdefault(pn, set()).update(v)
        return n.settle()

    def on_raise(self, node, state):
        e = node.exc
        if isinstance(e, ast.Call):
            e = e.func
        if isinstance(e, ast.Name):
            return e.id
        return Domain.on_raise(self, node, state)

    # ----------------------------------------------------------- branch
    def branch(self, test, st):
        if isinstance(test, ast.NamedExpr):
            # (p := self.alt_prefix): bind, then test the name
            st = self.effects(ast.Assign(targets=[test.target],
                                         value=test.value), st)
            test = ast.Name(id=test.target.id, ctx=ast.Load())
        pn = _pname(test)
        if pn is not None:
            v = self.value(test, st)
            out = []
            t, f = v & {NONEMPTY}, v & {NONE, EMPTY}
            if t:
                n = st.copy()
                n.env[pn] = frozenset(t)
                out.append((True, n.settle()))
            if f:
                n = st.copy()
                n.env[pn] = frozenset(f)
                out.append((False, n))
            return out
        if isinstance(test, ast.Compare) and len(test.ops) == 1:
            op, a, b = test.ops[0], test.left, test.comparators[0]
            pa = _pname(a)
            # x is None / x is not None / x == '' / x != ''
            if pa is not None and isinstance(b, ast.Constant) and \
                    (b.value is None or b.value == '') and \
                    isinstance(op, (ast.Is, ast.IsNot, ast.Eq, ast.NotEq)):
                atom = NONE if b.value is None else EMPTY
                v = self.value(a, st)
                eq, ne = v & {atom}, v - {atom}
                pos = isinstance(op, (ast.Is, ast.Eq))
                out = []
                if eq:
                    n = st.copy()
                    n.env[pa] = frozenset(eq)
                    out.append((pos, n.settle()))
                if ne:
                    n = st.copy()
                    n.env[pa] = frozenset(ne)
                    out.append((not pos, n.settle()))
                return out
            # l_ < 0, l_ == -1, l_ >= 0 ...
            if pa is not None and pa in st.rfind:
                c = _const_int(b)
                verdict = None
                if c is not None:
                    if isinstance(op, ast.Lt) and c == 0 or \
                            isinstance(op, ast.Eq) and c == -1 or \
                            isinstance(op, ast.LtE) and c == -1:
                        verdict = True
                    elif isinstance(op, ast.GtE) and c == 0 or \
                            isinstance(op, ast.NotEq) and c == -1 or \
                            isinstance(op, ast.Gt) and c == -1:
                        verdict = False
                if verdict is not None:
                    t, f = st.copy(), st.copy()
                    t.dashless, f.dashless = verdict, not verdict
                    return [(True, t.settle()), (False, f.settle())]
            # '-' in key / '-' not in key
            if isinstance(a, ast.Constant) and a.value == '-' and \
                    isinstance(b, ast.Name) and b.id == self.keyvar and \
                    isinstance(op, (ast.In, ast.NotIn)):
                t, f = st.copy(), st.copy()
                t.dashless = isinstance(op, ast.NotIn)
                f.dashless = not t.dashless
                return [(True, t.settle()), (False, f.settle())]
            # key[:len(p)] == p
            if isinstance(op, (ast.Eq, ast.NotEq)):
                for x, y in ((a, b), (b, a)):
                    py = _pname(y)
                    if py is not None and isinstance(x, ast.Subscript) and \
                            isinstance(x.value, ast.Name) and \
                            x.value.id == self.keyvar and \
                            isinstance(x.slice, ast.Slice) and \
                            x.slice.lower is None and \
                            isinstance(x.slice.upper, ast.Call) and \
                            norm(x.slice.upper) == f'len({norm(y)})':
                        t = st.copy()
                        t.sw = t.sw | {py}
                        pos = isinstance(op, ast.Eq)
                        return [(pos, t.settle()), (not pos, st)]
        if isinstance(test, ast.Call) and \
                isinstance(test.func, ast.Attribute) and \
                test.func.attr == 'startswith' and \
                isinstance(test.func.value, ast.Name) and \
                test.func.value.id == self.keyvar and len(test.args) == 1:
            pn = _pname(test.args[0])
            if pn is not None:
                v = self.value(test.args[0], st)
                out = []
                if v - {NONE}:
                    t = st.copy()
                    t.env[pn] = frozenset(v - {NONE})
                    t.sw = t.sw | {pn}
                    out.append((True, t.settle()))
                    f = st.copy()
                    # startswith('') is always true
                    if v - {NONE, EMPTY}:
                        f.env[pn] = frozenset(v - {NONE, EMPTY})
                        out.append((False, f))
                return out or [(True, st), (False, st)]
        return [(True, st), (False, st)]


def _const_int(e):
    if isinstance(e, ast.Constant) and isinstance(e.value, int):
        return e.value
    if isinstance(e, ast.UnaryOp) and isinstance(e.op, ast.USub) and \
            isinstance(e.operand, ast.Constant) and \
            isinstance(e.operand.value, int):
        return -e.operand.value
    return None


def attr_values(model, ci):
    """'self.attr' -> abstract values over the class default and every
    assignment in the class's methods."""
    vals = {}
    always = {}
    for name, fi in ci.methods.items():
        rec = {}
        dom = PrefixDomain(None, {}, rec)
        st = S()
        outs = Interp(dom).run(fi.node, st)
        for k, v in rec.items():
            vals.setdefault(k, set()).update(v)
        if name == '__init__':
            for o in outs:
                if o.kind in (NORMAL, RETURN):
                    for k in rec:
                        always.setdefault(k, True)
                        if k not in o.state.assigned:
                            always[k] = False
    for attr, node in ci.attrs.items():
        k = 'self.' + attr
        if k in vals and not always.get(k, False):
            vals[k].update(PrefixDomain(None, {}).value(node, S()))
    return {k: frozenset(v) for k, v in vals.items()}


def analyse_getitem(model, ci, fi):
    """-> (n dash-less exits examined, list of offending outcome nodes)"""
    params = fi.params()
    if len(params) < 2:
        raise AnalysisError(f'{fi.where}: no key parameter')
    av = attr_values(model, ci)
    dom = PrefixDomain(params[1], av)
    it = Interp(dom)
    outs = it.run(fi.node, S())
    if it.overflow:
        raise AnalysisError(f'{fi.where}: state budget exceeded')
    n = 0
    bad = []
    for o in outs:
        if o.state.dashless is not True:
            continue
        if o.kind == RAISE:
            n += 1
            continue
        if o.kind in (NORMAL, RETURN):
            n += 1
            if not o.state.cleared:
                bad.append(o)
    return n, bad, av


CONTROL = '''
class sv:
    alt_prefix = None

    def __init__(self, alt_prefix=''):
        {init}

    def __getitem__(self, key):
        if key in self.data:
            return self.data[key]
        l_ = key.rfind('-')
        if l_ < 0:
            alt_prefix = self.alt_prefix
            if {guard}:
                raise KeyError(key)
            suffix = key[len(alt_prefix):]
            key = 'sequence-' + suffix
        return self.lookup(key)
'''
INIT_OLD = "if alt_prefix:\n            self.alt_prefix = alt_prefix + '_'"
INIT_NEW = "self.alt_prefix = alt_prefix + '_' if alt_prefix else ''"
GUARD_OLD = 'not (alt_prefix and key.startswith(alt_prefix))'
GUARD_NEW = 'alt_prefix is None or not key.startswith(alt_prefix)'


def controls(model_cls):
    """(both edits flagged, each edit alone silent, original silent)"""
    res = []
    for init, guard in ((INIT_NEW, GUARD_NEW), (INIT_OLD, GUARD_NEW),
                        (INIT_NEW, GUARD_OLD), (INIT_OLD, GUARD_OLD)):
        m = model_cls(sources={'src/DocumentTemplate/zz_prefix_control.py':
                               CONTROL.format(init=init, guard=guard)},
                      root=None)
        ci = m.modules['zz_prefix_control'].classes['sv']
        n, bad, _ = analyse_getitem(m, ci, ci.methods['__getitem__'])
        res.append((n, bool(bad)))
    return res[0][1] and not res[1][1] and not res[2][1] and \
        not res[3][1] and all(n >= 2 for n, _ in res)


def fill_rule(r, model):
    from .model import Model
    r.control('control: empty prefix accepted by the dash-less branch '
              '(two-sided)', controls(Model))
    m = model.modules.get('DT_InSV')
    ci = m.classes.get('sequence_variables') if m else None
    if ci is None or '__getitem__' not in ci.methods:
        raise AnalysisError(f'{r.rule}: DT_InSV.sequence_variables.'
                            '__getitem__ not found')
    fi = ci.methods['__getitem__']
    n, bad, av = analyse_getitem(model, ci, fi)
    if n < 2:
        raise AnalysisError(f'{r.rule}: the dash-less branch of '
                            f'{fi.where} was not recognised ({n} exits)')
    r.stats['attribute values'] = {k: sorted(v) for k, v in av.items()}
    for i in range(n - len(bad)):
        r.instance(fi.where, f'dash-less exit {i + 1}', 'refused or '
                   'prefix-qualified')
    exits = []
    for o in bad:
        k = norm(o.node) if o.node is not None else 'fall through'
        r.instance(fi.where, k, 'answered without a non-empty prefix')
        if k not in exits:
            exits.append(k)
    if bad:
        o = bad[0]
        poss = {p: sorted(o.state.env.get(p, av.get(p, TOP)))
                for p in sorted(o.state.sw)} or 'no prefix test'
        r.finding(fi.where, 'key without a dash answered',
                  'a key without a dash is answered although no path '
                  'condition establishes that it starts with a non-empty '
                  f'alias prefix (prefix values on that path: {poss}; '
                  f'exits: {"; ".join(exits)[:300]}): the block binds plain '
                  'names such as number / item / length that belong to '
                  'outer sources', node=o.node, ctx=fi, path=o.state.trace)
    return r
