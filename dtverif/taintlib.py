"""Library model for the taint engine, derived from source where possible.

* TaintedString method classes are read from AccessControl/tainted.py (parsed,
  never imported).
* str method result classes: frozen table over dir(str) of the running
  interpreter (stdlib introspection only).
"""
import ast
import inspect
import os
import sys

from .core import AnalysisError

STR_NONTEXT = {
    'find', 'rfind', 'index', 'rindex', 'count', 'startswith', 'endswith',
    'isalnum', 'isalpha', 'isascii', 'isdecimal', 'isdigit', 'isidentifier',
    'islower', 'isnumeric', 'isprintable', 'isspace', 'istitle', 'isupper',
    'maketrans',
}
STR_CONTAINER = {'split', 'rsplit', 'splitlines', 'partition', 'rpartition'}
DUNDER_TEXT = {'__str__', '__repr__', '__format__', '__add__', '__mul__',
               '__rmul__', '__mod__', '__rmod__', '__getitem__'}


def str_method_class(name):
    """'text' | 'nontext' | 'container' | None (not a str attribute)"""
    if not hasattr(str, name):
        return None
    if name in STR_NONTEXT:
        return 'nontext'
    if name in STR_CONTAINER:
        return 'container'
    if name.startswith('__'):
        return 'text' if name in DUNDER_TEXT else 'nontext'
    return 'text'


def str_method_zero_arg(name):
    try:
        sig = inspect.signature(getattr(str, name))
    except (TypeError, ValueError):
        return True     # no signature (e.g. str.format(*args)): assume ok
    for p in list(sig.parameters.values())[1:]:
        if p.default is inspect.Parameter.empty and p.kind in (
                p.POSITIONAL_ONLY, p.POSITIONAL_OR_KEYWORD, p.KEYWORD_ONLY):
            return False
    return True


def locate(relpath):
    for p in sys.path:
        f = os.path.join(p, relpath)
        if os.path.exists(f):
            return f
    raise AnalysisError(f'cannot locate {relpath} on the interpreter path')


class TaintedModel:
    """Classification of TaintedString's own methods:
    'T' keeps the mark, 'TC' re-wraps iff '<' remains, 'COLL' list of TC,
    'H' html-escaped, 'P' raw text, 'O' non-text, 'RAISE'."""

    def __init__(self):
        path = locate(os.path.join('AccessControl', 'tainted.py'))
        self.path = path
        with open(path) as fh:
            tree = ast.parse(fh.read())
        self.methods = {}
        cls = None
        for n in tree.body:
            if isinstance(n, ast.ClassDef) and n.name == 'TaintedString':
                cls = n
        if cls is None:
            raise AnalysisError('TaintedString class not found in ' + path)
        self.is_str_subclass = any(
            isinstance(b, ast.Name) and b.id in ('str', 'bytes')
            for b in cls.bases)
        self.fallback = False
        for m in cls.body:
            if isinstance(m, ast.FunctionDef):
                k = self._classify(m)
                if m.name == '__getattr__':
                    self.fallback = (k == 'FALLBACK')
                    continue
                self.methods[m.name] = k
            elif isinstance(m, ast.Assign) and isinstance(m.value, ast.Name):
                for t in m.targets:
                    if isinstance(t, ast.Name) and \
                            m.value.id in self.methods:
                        self.methods[t.id] = self.methods[m.value.id]
        # the *WrappedMethods lists + setattr loops: wrappers build
        # s.__class__(getattr(s._value, f)(...))
        wrappers_ok = set()
        for n in tree.body:
            if isinstance(n, ast.FunctionDef) and \
                    n.name.startswith('create'):
                src = ast.unparse(n)
                if 's.__class__(getattr(s._value, f)(' in src:
                    wrappers_ok.add(n.name)
        lists = {}
        for n in tree.body:
            if isinstance(n, ast.Assign) and \
                    isinstance(n.targets[0], ast.Name) and \
                    isinstance(n.value, ast.List) and \
                    n.targets[0].id.endswith('WrappedMethods'):
                lists[n.targets[0].id] = [e.value for e in n.value.elts]
        for n in tree.body:
            if isinstance(n, ast.For) and isinstance(n.iter, ast.Name) and \
                    n.iter.id in lists:
                src = ast.unparse(n)
                if 'setattr(TaintedString' in src and any(
                        w + '(' in src for w in wrappers_ok):
                    for name in lists[n.iter.id]:
                        self.methods[name] = 'T'
        if not self.fallback:
            raise AnalysisError('TaintedString.__getattr__ fallback to the '
                                'raw value not recognised')
        for need in ('quoted', '__str__', 'replace', 'lower'):
            if need not in self.methods:
                raise AnalysisError(f'TaintedString.{need} not classified')

    def _classify(self, m):
        src = ast.unparse(m)
        rets = [n for n in ast.walk(m) if isinstance(n, ast.Return)]
        if any(isinstance(n, ast.Raise) for n in m.body):
            return 'RAISE'
        if m.name == '__getattr__':
            if 'getattr(self._value, a)' in src:
                return 'FALLBACK'
            return 'O'
        if 'should_be_tainted' in src:
            if 'list(map(' in src:
                return 'COLL'
            return 'TC'
        if len(rets) == 1 and rets[0].value is not None:
            v = rets[0].value
            if isinstance(v, ast.Call):
                f = ast.unparse(v.func)
                if f == 'self.__class__':
                    return 'T'
                if f == 'escape' and v.args and \
                        'self._value' in ast.unparse(v.args[0]):
                    return 'H'
                if f in ('int', 'float', 'len', 'hash', 'repr'):
                    return 'H' if f == 'repr' and 'quoted' in src else 'O'
            if isinstance(v, ast.Attribute) and \
                    ast.unparse(v) == 'self._value':
                return 'P'
            if isinstance(v, ast.Compare):
                return 'O'
        if m.name == '__init__':
            return 'O'
        return 'P'     # conservative: unknown method body -> raw text

    def method_class(self, name):
        """Result class of calling T.<name>(...); None -> AttributeError."""
        if name in self.methods:
            return self.methods[name]
        sc = str_method_class(name)
        if sc is None:
            return None
        if sc == 'text':
            return 'P'
        if sc == 'container':
            return 'COLLP'
        return 'O'

    def all_attr_names(self):
        return sorted(set(self.methods) | {m for m in dir(str)})


class EscapeModel:
    """Which characters html.escape(quote=True) rewrites (read from the
    stdlib source)."""

    def __init__(self):
        path = locate(os.path.join('html', '__init__.py'))
        self.path = path
        with open(path) as fh:
            tree = ast.parse(fh.read())
        fn = None
        for n in tree.body:
            if isinstance(n, ast.FunctionDef) and n.name == 'escape':
                fn = n
        if fn is None:
            raise AnalysisError('html.escape not found')
        self.always = set()
        self.when_quote = set()
        self.pairs = []          # (char, entity) in application order
        self.quote_default = None
        a = fn.args
        names = [x.arg for x in a.args]
        if 'quote' in names:
            i = names.index('quote') - (len(names) - len(a.defaults))
            if i >= 0 and isinstance(a.defaults[i], ast.Constant):
                self.quote_default = bool(a.defaults[i].value)

        def collect(stmts, under_quote):
            for st in stmts:
                if isinstance(st, ast.If):
                    uq = under_quote or 'quote' in ast.unparse(st.test)
                    collect(st.body, uq)
                    collect(st.orelse, under_quote)
                else:
                    for c in ast.walk(st):
                        if isinstance(c, ast.Call) and \
                                isinstance(c.func, ast.Attribute) and \
                                c.func.attr == 'replace' and c.args and \
                                isinstance(c.args[0], ast.Constant):
                            (self.when_quote if under_quote
                             else self.always).add(c.args[0].value)
                            if len(c.args) > 1 and isinstance(
                                    c.args[1], ast.Constant):
                                self.pairs.append((c.args[0].value,
                                                   c.args[1].value))
        collect(fn.body, False)
        if not {'&', '<', '>'} <= self.always or not self.when_quote:
            raise AnalysisError('html.escape model: unexpected body')

    def chars(self, quote=True):
        return set(self.always) | (set(self.when_quote) if quote else set())
