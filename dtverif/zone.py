"""E8 -- zone (difference-bound matrix) abstract domain over integer
variables, as a client domain of the flow interpreter.

A state is a set of constraints  v_i - v_j <= c  (v_0 is the constant 0), kept
closed under shortest paths.  Enough for window arithmetic of the form
`1 <= start <= end <= length`: every fact there is a difference or a bound.
Linear expressions with more than two variables are handled by bounding the
surplus terms with what the zone already knows (sound weakening).

This is classical abstract interpretation: no solver, no enumeration of
values; the fixpoint is over statement outcomes of the structured CFG.
"""
import ast
import itertools

from .flow import BaseState
from .linear import NonLinear
from .linear import linear

INF = float('inf')
ZERO = ''


class Zone(BaseState):
    def __init__(self, vars_, m=None, havoc=False):
        self.vars = list(vars_)            # index 0 is the constant zero
        n = len(self.vars)
        self.m = m if m is not None else [
            [0 if i == j else INF for j in range(n)] for i in range(n)]
        self.havoc = havoc                 # an un-modelled update happened
        self.bottom = False

    # ---------------------------------------------------------- plumbing
    def key(self):
        return (tuple(tuple(r) for r in self.m), self.havoc, self.bottom)

    def copy(self):
        z = Zone(self.vars, [list(r) for r in self.m], self.havoc)
        z.bottom = self.bottom
        z.trace = self.trace
        z.decisions = getattr(self, 'decisions', ())
        z.flags = getattr(self, 'flags', frozenset())
        return z

    def ix(self, v):
        return self.vars.index(v)

    def close(self):
        n = len(self.vars)
        m = self.m
        for k in range(n):
            mk = m[k]
            for i in range(n):
                mik = m[i][k]
                if mik == INF:
                    continue
                mi = m[i]
                for j in range(n):
                    d = mik + mk[j]
                    if d < mi[j]:
                        mi[j] = d
        for i in range(n):
            if m[i][i] < 0:
                self.bottom = True
        return self

    # ------------------------------------------------------- constraints
    def add(self, x, y, c):
        """x - y <= c  (x, y variable names; '' is the constant zero)"""
        i, j = self.ix(x), self.ix(y)
        if c < self.m[i][j]:
            self.m[i][j] = c
            self.close()
        return self

    def ub_diff(self, x, y):
        return self.m[self.ix(x)][self.ix(y)]

    def ub(self, form):
        """Smallest upper bound the zone gives for a linear form
        {var: coeff, '': const} with coefficients in {-1, +1}."""
        c = form.get(ZERO, 0)
        pos = [v for v, k in form.items() if v != ZERO and k == 1]
        neg = [v for v, k in form.items() if v != ZERO and k == -1]
        if any(k not in (1, -1) for v, k in form.items() if v != ZERO):
            return INF
        for v in pos + neg:
            if v not in self.vars:
                return INF
        best = INF
        # pair up some positive with some negative variables, bound the
        # pairs by difference constraints and the rest by their own bounds
        k = min(len(pos), len(neg))
        for r in range(k + 1):
            for ps in itertools.combinations(pos, r):
                for ns in itertools.permutations(neg, r):
                    tot = c
                    for p, q in zip(ps, ns):
                        tot += self.ub_diff(p, q)
                    for p in pos:
                        if p not in ps:
                            tot += self.ub_diff(p, ZERO)
                    for q in neg:
                        if q not in ns:
                            tot += self.ub_diff(ZERO, q)
                    if tot < best:
                        best = tot
        return best

    def lb(self, form):
        return -self.ub({v: -k for v, k in form.items()})

    def assume_le0(self, form):
        """Intersect with  form <= 0."""
        z = self.copy()
        c = form.get(ZERO, 0)
        vs = [(v, k) for v, k in form.items() if v != ZERO and k != 0]
        if any(k not in (1, -1) or v not in z.vars for v, k in vs):
            return z                        # not expressible: no refinement
        pos = [v for v, k in vs if k == 1]
        neg = [v for v, k in vs if k == -1]
        if not vs:
            if c > 0:
                z.bottom = True
            return z
        # every (x in pos or zero, y in neg or zero) pair: x - y <= -c -
        # lower bound of the remaining terms
        for x in pos + [None]:
            for y in neg + [None]:
                if x is None and y is None:
                    continue
                rest = {v: k for v, k in vs if v != x and v != y}
                lo = self.lb(rest) if rest else 0
                if lo == -INF:
                    continue
                z.add(x if x is not None else ZERO,
                      y if y is not None else ZERO, -c - lo)
        return z

    def forget(self, x):
        i = self.ix(x)
        for j in range(len(self.vars)):
            if j != i:
                self.m[i][j] = INF
                self.m[j][i] = INF
        return self

    def assign(self, x, form):
        """x := form (linear).  Unknown variables in the form -> forget."""
        z = self.copy()
        if x not in z.vars:
            return z
        if form is None or any(v not in z.vars for v in form if v != ZERO) \
                or any(k not in (1, -1) for v, k in form.items()
                       if v != ZERO):
            z.forget(x)
            z.havoc = True
            return z
        # bounds of form - y and y - form for every y (old values)
        ups, los = {}, {}
        for y in z.vars:
            if y == x:
                continue
            f1 = dict(form)
            if y != ZERO:
                f1[y] = f1.get(y, 0) - 1
            f1 = {v: k for v, k in f1.items() if k != 0 or v == ZERO}
            f2 = {v: -k for v, k in f1.items()}
            ups[y] = self.ub(f1)
            los[y] = self.ub(f2)
        z.forget(x)
        for y in ups:
            if ups[y] < INF:
                z.m[z.ix(x)][z.ix(y)] = min(z.m[z.ix(x)][z.ix(y)], ups[y])
            if los[y] < INF:
                z.m[z.ix(y)][z.ix(x)] = min(z.m[z.ix(y)][z.ix(x)], los[y])
        z.close()
        return z

    def entails_le0(self, form):
        return self.bottom or self.ub(form) <= 0

    def describe(self, names=None):
        out = []
        for i, a in enumerate(self.vars):
            for j, b in enumerate(self.vars):
                if i != j and self.m[i][j] < INF:
                    c = self.m[i][j]
                    if a == ZERO:
                        out.append(f'{b} >= {-c:g}')
                    elif b == ZERO:
                        out.append(f'{a} <= {c:g}')
                    else:
                        out.append(f'{a} - {b} <= {c:g}')
        return ', '.join(out)


def lin(e, rename=None):
    """linear form of an expression with symbols renamed; None if not
    linear."""
    try:
        f = linear(e)
    except NonLinear:
        return None
    out = {}
    for k, c in f.items():
        k2 = (rename or {}).get(k, k)
        out[k2] = out.get(k2, 0) + c
    return {k: c for k, c in out.items() if c != 0 or k == ZERO}


def sub(a, b):
    out = dict(a)
    for k, c in b.items():
        out[k] = out.get(k, 0) - c
    return {k: c for k, c in out.items() if c != 0 or k == ZERO}


def compare_forms(test, rename=None):
    """(form, strict) with  form <= 0  (or < 0) equivalent to the integer
    comparison `test` being TRUE, plus the same for it being FALSE; None
    when the test is not a linear comparison."""
    if not (isinstance(test, ast.Compare) and len(test.ops) == 1):
        return None
    a = lin(test.left, rename)
    b = lin(test.comparators[0], rename)
    if a is None or b is None:
        return None
    op = test.ops[0]
    d = sub(a, b)          # a - b
    nd = sub(b, a)

    def plus(f, c):
        g = dict(f)
        g[ZERO] = g.get(ZERO, 0) + c
        return g
    if isinstance(op, ast.Lt):      # a < b  <=> a - b + 1 <= 0
        return [plus(d, 1)], [nd]
    if isinstance(op, ast.LtE):
        return [d], [plus(nd, 1)]
    if isinstance(op, ast.Gt):
        return [plus(nd, 1)], [d]
    if isinstance(op, ast.GtE):
        return [nd], [plus(d, 1)]
    if isinstance(op, ast.Eq):
        return [d, nd], None        # false branch: disjunction, no refine
    if isinstance(op, ast.NotEq):
        return None, [d, nd]
    return None
