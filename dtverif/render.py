"""Render-phase helpers: the callables the compiler stores in block lists
(what `block(md)` in render_blocks_ dispatches to)."""
import ast

from .callgraph import CallGraph
from .core import AnalysisError
from .model import own_nodes


def render_entries(model, cg=None):
    """FuncInfos reachable through `block(md)`: for every registry class its
    __call__ (following the `__call__ = render` alias), for factory entries
    the bound methods their __call__ returns."""
    cg = cg or CallGraph(model)
    out = {}
    for key, ent in cg.registry.entries.items():
        c = ent['cls']
        if c is None:
            continue
        if ent['kind'] == 'class':
            f = model.lookup_method(c, '__call__')
            if f is None:
                _, v = model.lookup_class_attr(c, '__call__')
                if isinstance(v, ast.Name):
                    f = model.lookup_method(c, v.id)
            if f is not None:
                out[f.where] = f
        else:
            call = model.lookup_method(c, '__call__')
            if call is None:
                continue
            for n in own_nodes(call.node):
                if isinstance(n, ast.Return) and \
                        isinstance(n.value, ast.Attribute) and \
                        isinstance(n.value.value, ast.Name):
                    for d in model.local_defs(call, n.value.value.id):
                        if isinstance(d, ast.Call):
                            for t in model.resolve_callee(d.func, call):
                                if t[0] == 'class':
                                    f = model.lookup_method(t[1],
                                                            n.value.attr)
                                    if f is not None:
                                        out[f.where] = f
    if len(out) < 8:
        raise AnalysisError('render entries: fewer than 8 found')
    return out


def is_block_dispatch(call, fi):
    """`x(md)` where x is the loop variable over a block list or an element
    of a block tuple, inside render_blocks_."""
    return fi.where == '_DocumentTemplate:render_blocks_' and \
        isinstance(call.func, ast.Name) and len(call.args) == 1 and \
        isinstance(call.args[0], ast.Name) and \
        call.func.id not in ('len', 'isinstance', 'ustr', 'html_quote')
