"""Prefix-knowledge interpretation of the SGML scanner
(DT_HTML.dtml_re_class.search), shared by C01.R4 / C06.R3a / C07.R5 / C07.R6.

The scanner binds `s` to the start of a candidate ('<' or '&') and then
decides, by comparing slices of the text at `s` with literals, which kind
of tag it looks at.  The interpretation tracks

  * integer variables as offsets from `s`            ('off', k),
  * what the tests taken so far say the text at `s` starts with (`known`),
  * constant strings / ints,

decides every test of the text against a literal from `known` (or refines
`known` on the branch where it holds), and records an event for every read
of the text from a position relative to `s`.  The rules judge the events:
where the name is read, how the tag end is found, which characters are
indexed.  No shape of the code is assumed: merged branches, helper
functions, conditional expressions, str.startswith (also with a tuple) and
slice comparisons are all the same to it.
"""
import ast

from ..core import AnalysisError
from ..core import norm
from ..flow import BaseState
from ..flow import Domain
from ..flow import Interp
from ..flow import Outcome
from ..flow import NORMAL

UNK = ('?',)


class SS(BaseState):
    def __init__(self, env=None, known=''):
        self.env = env or {}
        self.known = known

    def key(self):
        return (tuple(sorted(self.env.items())), self.known)

    def copy(self):
        n = SS(dict(self.env), self.known)
        n.trace = self.trace
        return n


class ScanResult:
    def __init__(self):
        self.events = {}      # key -> (kind, node, k, len(known), known)
        self.success = set()  # (known, endvalue)
        self.index = {}       # id(node) -> (node, [safe?...])
        self.parity = {}      # key -> (known, verdict, node)
        self.args_vals = set()   # (known, kind of the value stored as 'args')
        self.text = None
        self.svar = None


def _parity_nodes(fn_nodes):
    """id(leaf test) -> verdict for conditionals on the parity of a quote
    count (see c07._quote_parity_tests)."""
    from .c07 import _even_when_true
    out = {}
    for fn in fn_nodes:
        for n in ast.walk(fn):
            if not isinstance(n, ast.If):
                continue
            tests = [n.test]
            disj = False
            if isinstance(n.test, ast.BoolOp) and \
                    isinstance(n.test.op, ast.Or):
                tests = list(n.test.values)
                disj = True
            for t in tests:
                v = _even_when_true(t)
                if v is None:
                    continue

                def leaves(body):
                    return bool(body) and isinstance(
                        body[-1], (ast.Break, ast.Return))
                if v:
                    ok = leaves(n.body) and (disj or not leaves(n.orelse))
                else:
                    ok = not disj and not leaves(n.body) and (
                        leaves(n.orelse) or not n.orelse)
                out[id(t)] = ok
    return out


class ScanDomain(Domain):
    def __init__(self, model, fi, text, svar, res, depth=0):
        self.model = model
        self.fi = fi
        self.text = text
        self.svar = svar
        self.res = res
        self.depth = depth
        self.par = _parity_nodes([fi.node])
        self.returns = []
        self._handled = set()

    # ------------------------------------------------------------ values
    def ev(self, e, st):
        if isinstance(e, ast.Constant):
            if isinstance(e.value, bool) or e.value is None:
                return ('const', e.value)
            if isinstance(e.value, int):
                return ('int', e.value)
            if isinstance(e.value, str):
                return ('str', e.value)
            return UNK
        if isinstance(e, ast.Name):
            return st.env.get(e.id, UNK)
        if isinstance(e, ast.BinOp) and isinstance(e.op, (ast.Add, ast.Sub)):
            a, b = self.ev(e.left, st), self.ev(e.right, st)
            sign = 1 if isinstance(e.op, ast.Add) else -1
            if a[0] == 'off' and b[0] == 'int':
                return ('off', a[1] + sign * b[1])
            if a[0] == 'int' and b[0] == 'off' and sign == 1:
                return ('off', a[1] + b[1])
            if a[0] == 'int' and b[0] == 'int':
                return ('int', a[1] + sign * b[1])
            if a[0] == 'str' and b[0] == 'str' and sign == 1:
                return ('str', a[1] + b[1])
            return UNK
        if isinstance(e, ast.Call) and isinstance(e.func, ast.Name) and \
                e.func.id == 'len' and len(e.args) == 1:
            a = self.ev(e.args[0], st)
            if a[0] == 'str':
                return ('int', len(a[1]))
            return UNK
        if isinstance(e, ast.IfExp):
            t = self.truth(e.test, st)
            if t is True:
                return self.ev(e.body, st)
            if t is False:
                return self.ev(e.orelse, st)
            a, b = self.ev(e.body, st), self.ev(e.orelse, st)
            return a if a == b else UNK
        if isinstance(e, ast.Subscript) and isinstance(e.value, ast.Name) \
                and e.value.id == self.text:
            return self.read(e, st)
        if isinstance(e, ast.Call) and isinstance(e.func, ast.Attribute) \
                and e.func.attr in ('strip', 'lower', 'upper') \
                and not e.args:
            a = self.ev(e.func.value, st)
            if a[0] == 'str':
                return ('str', getattr(a[1], e.func.attr)())
            if e.func.attr == 'strip':
                return ('stripped',)
            return UNK
        return UNK

    def read(self, sub, st):
        """value of text[...]; also records index safety"""
        sl = sub.slice
        if isinstance(sl, ast.Slice):
            if sl.step is not None or sl.lower is None:
                return UNK
            lo = self.ev(sl.lower, st)
            hi = self.ev(sl.upper, st) if sl.upper is not None else UNK
            if lo[0] == 'off' and hi[0] == 'off' and 0 <= lo[1] <= hi[1]:
                if hi[1] <= len(st.known):
                    return ('str', st.known[lo[1]:hi[1]])
                return ('tslice', lo[1], hi[1])
            return UNK
        ix = self.ev(sl, st)
        ent = self.res.index.setdefault(id(sub), (sub, []))
        if ix[0] == 'off' and 0 <= ix[1]:
            ent[1].append(ix[1] < len(st.known))
            if ix[1] < len(st.known):
                return ('str', st.known[ix[1]])
            return ('tslice', ix[1], ix[1] + 1)
        ent[1].append(False)
        return UNK

    # -------------------------------------------------------------- tests
    def _cmp_text(self, a, b, lits, st):
        """text[s+a:s+b] is one of lits -> list of (bool, state); a lone
        (True, st) means the test is decided by what is known"""
        known = st.known
        trues = []
        for lit in lits:
            if len(lit) != b - a:
                continue             # a slice of another width never equals
            if a > len(known):
                trues.append((True, st))
                continue
            have = known[a:b]
            if lit[:len(have)] != have:
                continue
            if len(have) == len(lit):
                return [(True, st)]
            ns = st.copy()
            ns.known = known[:a] + lit
            trues.append((True, ns))
        return trues + [(False, st)]

    def branch(self, test, st):
        if id(test) in self.par:
            self.res.parity[(st.known, id(test))] = (
                st.known, self.par[id(test)], test)
        hb = self._helper_test(test, st)
        if hb is not None:
            return hb
        self.note(test, st)
        r = self._branch(test, st)
        return r if r is not None else [(True, st), (False, st)]

    def _helper_test(self, test, st):
        """`helper(text, pos) is [not] None` / `helper(text, pos)` as a
        test: one branch per way the helper returns"""
        call, want_none = None, None
        if isinstance(test, ast.Compare) and len(test.ops) == 1 and \
                isinstance(test.ops[0], (ast.Is, ast.IsNot)) and \
                isinstance(test.comparators[0], ast.Constant) and \
                test.comparators[0].value is None:
            call, want_none = test.left, isinstance(test.ops[0], ast.Is)
        elif isinstance(test, ast.Call):
            call, want_none = test, False
        h = self.helper_of(call) if call is not None else None
        if h is None:
            return None
        self._handled.add(id(call))
        out = []
        for val, known, endv in self.inter(h, call, st):
            ns = st.copy()
            if known.startswith(st.known):
                ns.known = known
            if endv != UNK:
                ns.env['<end>'] = endv
            if val == ('const', None):
                truth = [want_none]
            elif val == ('selfobj',):
                truth = [not want_none]
            else:
                truth = [True, False]
            for t in truth:
                out.append((t, ns))
        return out or None

    def _lits(self, e):
        if isinstance(e, ast.Constant) and isinstance(e.value, str):
            return [e.value]
        if isinstance(e, (ast.Tuple, ast.List, ast.Set)) and e.elts and all(
                isinstance(x, ast.Constant) and isinstance(x.value, str)
                for x in e.elts):
            return [x.value for x in e.elts]
        return None

    def _branch(self, test, st):
        if isinstance(test, ast.Compare) and len(test.ops) == 1 and \
                isinstance(test.ops[0], (ast.Is, ast.IsNot)) and \
                isinstance(test.comparators[0], ast.Constant) and \
                test.comparators[0].value is None:
            a = self.ev(test.left, st)
            isnone = None
            if a == ('selfobj',):
                isnone = False
            elif a == ('const', None):
                isnone = True
            if isnone is None:
                return None
            return [(isnone == isinstance(test.ops[0], ast.Is), st)]
        if isinstance(test, ast.Compare) and len(test.ops) == 1:
            op = test.ops[0]
            a = self.ev(test.left, st)
            lits = self._lits(test.comparators[0])
            if isinstance(op, (ast.Eq, ast.NotEq)) and lits is not None \
                    and len(lits) != 1:
                lits = None
            if isinstance(op, (ast.In, ast.NotIn)) and isinstance(
                    test.comparators[0], ast.Constant):
                lits = None          # substring test
            neg = isinstance(op, (ast.NotEq, ast.NotIn))
            if lits is not None and isinstance(
                    op, (ast.Eq, ast.NotEq, ast.In, ast.NotIn)):
                if a[0] == 'str':
                    return [((a[1] in lits) != neg, st)]
                if a[0] == 'tslice':
                    return [(b != neg, s) for b, s in
                            self._cmp_text(a[1], a[2], lits, st)]
            return None
        if isinstance(test, ast.Call) and isinstance(
                test.func, ast.Attribute) and test.func.attr == 'startswith' \
                and isinstance(test.func.value, ast.Name) \
                and test.func.value.id == self.text and test.args:
            lits = self._lits(test.args[0])
            pos = self.ev(test.args[1], st) if len(test.args) > 1 \
                else UNK
            if lits is None or pos[0] != 'off' or pos[1] < 0:
                return None
            out = []
            for lit in lits:
                r = self._cmp_text(pos[1], pos[1] + len(lit), [lit], st)
                if len(r) == 1:
                    return [(True, st)]
                out += [x for x in r if x[0]]
            return out + [(False, st)]
        if isinstance(test, ast.Name):
            a = self.ev(test, st)
            if a[0] == 'str':
                return [(bool(a[1]), st)]
            if a[0] == 'const':
                return [(bool(a[1]), st)]
            return None
        if isinstance(test, ast.Constant):
            return [(bool(test.value), st)]
        return None

    def truth(self, test, st):
        if isinstance(test, ast.UnaryOp) and isinstance(test.op, ast.Not):
            t = self.truth(test.operand, st)
            return None if t is None else not t
        r = self._branch(test, st)
        if r is None:
            return None
        vals = {b for b, _ in r}
        return vals.pop() if len(vals) == 1 else None

    # ------------------------------------------------------------- events
    def note(self, node, st):
        """record reads of the text from s-relative positions"""
        for c in ast.walk(node):
            if isinstance(c, ast.Subscript) and isinstance(
                    c.value, ast.Name) and c.value.id == self.text and \
                    isinstance(c.ctx, ast.Load):
                sl = c.slice
                if isinstance(sl, ast.Slice):
                    if sl.lower is None:
                        continue
                    lo = self.ev(sl.lower, st)
                    hi = self.ev(sl.upper, st) if sl.upper is not None \
                        else UNK
                    if lo[0] == 'off' and hi[0] != 'off':
                        self.event('slice', c, lo[1], st)
                else:
                    self.read(c, st)
            elif isinstance(c, ast.Call):
                self.call_event(c, st)

    def event(self, kind, node, k, st):
        self.res.events[(kind, id(node), k, st.known)] = (
            kind, node, k, len(st.known), st.known)

    def call_event(self, c, st):
        f = c.func
        if isinstance(f, ast.Attribute) and isinstance(f.value, ast.Name) \
                and f.value.id == self.text:
            if f.attr in ('find', 'index') and len(c.args) >= 2:
                p = self.ev(c.args[1], st)
                if p[0] == 'off':
                    self.event('find', c, p[1], st)
            elif f.attr == 'count' and len(c.args) >= 2:
                p = self.ev(c.args[1], st)
                if p[0] == 'off':
                    self.event('count', c, p[1], st)
            return
        if len(c.args) >= 2 and isinstance(c.args[0], ast.Name) and \
                c.args[0].id == self.text:
            p = self.ev(c.args[1], st)
            # a helper of the same module: interpret it with the bindings
            if self.helper_of(c) is not None:
                if id(c) not in self._handled:
                    self.inter(self.helper_of(c), c, st)
                return
            if p[0] == 'off':
                self.event(self.regex_method(f) or 'call', c, p[1], st)

    def regex_method(self, f):
        """match / search / fullmatch when the callable is a bound method
        of a compiled pattern (directly, through a parameter default or a
        module-level name)"""
        for _ in range(4):
            if isinstance(f, ast.Attribute):
                return f.attr if f.attr in ('match', 'search',
                                            'fullmatch') else None
            if not isinstance(f, ast.Name):
                return None
            nxt = None
            a = self.fi.node.args
            pos = a.posonlyargs + a.args
            for p, d in zip(pos[len(pos) - len(a.defaults):], a.defaults):
                if p.arg == f.id:
                    nxt = d
            for p, d in zip(a.kwonlyargs, a.kw_defaults):
                if p.arg == f.id and d is not None:
                    nxt = d
            if nxt is None:
                for st_ in self.fi.module.tree.body:
                    if isinstance(st_, ast.Assign) and any(
                            isinstance(t, ast.Name) and t.id == f.id
                            for t in st_.targets):
                        nxt = st_.value
            if nxt is None:
                return None
            f = nxt
        return None

    def inter(self, callee, call, st):
        """Interpret a helper of the same module with the caller's
        bindings.  -> list of (returned value, known prefix, end marker)"""
        params = callee.params()
        is_method = bool(params) and params[0] == 'self'
        if is_method:
            params = params[1:]
        env = {}
        for p, a in zip(params, call.args):
            env[p] = self.ev(a, st)
        for kw in call.keywords:
            if kw.arg:
                env[kw.arg] = self.ev(kw.value, st)
        if not params:
            return []
        if is_method:
            env['self'] = ('selfobj',)
        tpar = params[0]
        for p, a in zip(params, call.args):
            if isinstance(a, ast.Name) and a.id == self.text:
                tpar = p
        sub = ScanDomain(self.model, callee, tpar, None, self.res,
                         self.depth + 1)
        outs = Interp(sub, 4000).run(callee.node, SS(env, st.known))
        rets = list(sub.returns)
        for o in outs:
            if o.kind == NORMAL:
                rets.append((('const', None), o.state.known,
                             o.state.env.get('<end>', UNK)))
        return rets

    def helper_of(self, e):
        """FuncInfo when e is a call of a same-module helper that is
        handed the text"""
        if not (isinstance(e, ast.Call) and len(e.args) >= 2 and any(
                isinstance(a, ast.Name) and a.id == self.text
                for a in e.args)) or self.depth >= 2:
            return None
        if isinstance(e.func, ast.Attribute) and isinstance(
                e.func.value, ast.Name) and e.func.value.id == self.text:
            return None
        tgt = [t[1] for t in self.model.resolve_callee(e.func, self.fi)
               if t[0] == 'func' and t[1].module is self.fi.module]
        return tgt[0] if tgt else None

    # --------------------------------------------------------- statements
    def simple(self, stmt, st):
        if isinstance(stmt, ast.Assign) and len(stmt.targets) == 1 and \
                isinstance(stmt.targets[0], ast.Name) and \
                self.helper_of(stmt.value) is not None:
            # a helper that gets the text: continue once per way it returns
            self._handled.add(id(stmt.value))
            outs = []
            seen = set()
            for val, known, endv in self.inter(
                    self.helper_of(stmt.value), stmt.value, st):
                ns = st.copy()
                if known.startswith(st.known):
                    ns.known = known
                ns.env[stmt.targets[0].id] = val
                if endv != UNK:
                    ns.env['<end>'] = endv
                if ns.key() not in seen:
                    seen.add(ns.key())
                    outs.append(Outcome(NORMAL, ns))
            return outs or [Outcome(NORMAL, st)]
        self.note(stmt, st)
        ns = st
        if isinstance(stmt, ast.Assign):
            v = self.ev(stmt.value, st)
            ns = st.copy()
            for t in stmt.targets:
                if isinstance(t, ast.Name):
                    if t.id == self.svar:
                        # a new candidate: nothing is known about it
                        ns.env = {k: x for k, x in ns.env.items()
                                  if x[0] not in ('off', 'tslice')}
                        ns.known = ''
                        ns.env[t.id] = ('off', 0)
                    else:
                        ns.env[t.id] = v
                elif isinstance(t, (ast.Tuple, ast.List)):
                    for x in ast.walk(t):
                        if isinstance(x, ast.Name):
                            ns.env[x.id] = UNK
                elif isinstance(t, ast.Subscript) and isinstance(
                        t.slice, ast.Constant) and t.slice.value == 'end':
                    ns.env['<end>'] = v
                elif isinstance(t, ast.Subscript) and isinstance(
                        t.slice, ast.Constant) and t.slice.value == 'args':
                    self.res.args_vals.add((st.known, v[0]))
        elif isinstance(stmt, ast.AugAssign) and isinstance(
                stmt.target, ast.Name):
            ns = st.copy()
            ns.env[stmt.target.id] = self.ev(ast.BinOp(
                left=stmt.target, op=stmt.op, right=stmt.value), st)
        return [Outcome(NORMAL, ns)]

    def for_target(self, node, st):
        ns = st.copy()
        for x in ast.walk(node.target):
            if isinstance(x, ast.Name):
                ns.env[x.id] = UNK
        return ns

    def on_return(self, node, st):
        val = ('const', None)
        rets = [(None, st.known, st.env.get('<end>', UNK))]
        if node.value is not None:
            h = self.helper_of(node.value)
            if h is not None:
                self._handled.add(id(node.value))
                rets = [(v, k if k.startswith(st.known) else st.known, e)
                        for v, k, e in self.inter(h, node.value, st)]
            else:
                self.note(node.value, st)
                val = self.ev(node.value, st)
                if isinstance(node.value, ast.Name) and \
                        node.value.id == 'self':
                    val = ('selfobj',)
                rets = [(val, st.known, st.env.get('<end>', UNK))]
        else:
            rets = [(val, st.known, st.env.get('<end>', UNK))]
        for v, known, endv in rets:
            if v == ('selfobj',) and self.depth == 0:
                self.res.success.add((known, endv))
            self.returns.append((v, known, endv))
        return [], st


def scan(model):
    """Interpret the scanner; cached on the model."""
    cached = getattr(model, '_scan_result', None)
    if cached is not None:
        return cached
    fi = model.func('DT_HTML', 'dtml_re_class.search')
    params = fi.params()
    if len(params) < 2:
        raise AnalysisError('scanner: search(self, text, ...) expected')
    text = params[1]
    cands = {}
    for n in ast.walk(fi.node):
        if isinstance(n, ast.Assign) and isinstance(n.value, ast.Call) and \
                isinstance(n.value.func, ast.Attribute) and \
                n.value.func.attr == 'start' and len(n.targets) == 1 and \
                isinstance(n.targets[0], ast.Name):
            cands[n.targets[0].id] = n
    if len(cands) != 1:
        raise AnalysisError('scanner: the candidate position (X = '
                            f'mo.start()) is not unique: {sorted(cands)}')
    svar = next(iter(cands))
    res = ScanResult()
    res.text, res.svar, res.fi = text, svar, fi
    dom = ScanDomain(model, fi, text, svar, res)
    it = Interp(dom, 60000)
    it.run(fi.node, SS())
    if it.overflow:
        raise AnalysisError('scanner: state budget exhausted')
    model._scan_result = res
    return res


PREFIXES = ('<!--#', '<dtml-', '</dtml-', '&dtml-', '&dtml.')


def describe(ev):
    kind, node, k, lk, known = ev
    return f'{kind} at +{k} after {known!r}: {norm(node)[:60]}'
