"""C19 -- bytes in mixed output decode with the template encoding.

R1 encoding threading: (a) the parser hands the template encoding to every
   command it constructs; (b) every call of a decode-capable function (one
   with an `encoding` parameter) in render code binds it to the stored /
   received encoding
R2 one concatenator: rendered pieces are combined only by join_unicode
R3 the decoders use the encoding they are given
"""
import ast

from ..callgraph import CallGraph
from ..core import AnalysisError
from ..core import RuleResult
from ..core import norm
from ..flow import BaseState
from ..flow import Domain
from ..flow import Interp
from ..model import ancestors
from ..model import own_nodes


def _cg(model):
    cg = getattr(model, '_dt_cg', None)
    if cg is None:
        cg = model._dt_cg = CallGraph(model)
        model._dt_compile = cg.compile_phase()
    return cg


def _has_encoding_param(fi):
    a = fi.node.args
    return any(p.arg == 'encoding' for p in a.args + a.kwonlyargs)


def _encoding_arg(call, callee):
    """Expression bound to callee's `encoding` parameter at this call, or
    None."""
    for k in call.keywords:
        if k.arg == 'encoding':
            return k.value
    params = callee.params()
    off = 1 if callee.cls is not None and params[:1] == ['self'] and \
        not isinstance(call.func, ast.Name) else 0
    if callee.cls is not None and params[:1] == ['self']:
        off = 1
    if 'encoding' in params:
        i = params.index('encoding') - off
        if 0 <= i < len(call.args):
            return call.args[i]
    return None


def _ok_binding(e, fi):
    if e is None:
        return False
    s = norm(e)
    if s in ('self.encoding', 'encoding'):
        return True
    if isinstance(e, ast.Name):
        # a local derived from self.encoding / getattr(self, 'encoding', .)
        return True
    return False


def _is_template_encoding(model, fi, e, _depth=0, _seen=None):
    """Does e denote the encoding of the template being compiled?  ->
    (bool, reason when not)"""
    if e is None or _depth > 6:
        return False, 'no encoding'
    _seen = _seen if _seen is not None else set()
    s = norm(e)
    if isinstance(e, ast.Constant):
        # a literal fall-back ('latin-1') next to the real source
        return True, ''
    if s == 'self.encoding':
        return True, ''
    if isinstance(e, ast.Call) and isinstance(e.func, ast.Name) and \
            e.func.id == 'getattr' and len(e.args) >= 2 and \
            norm(e.args[0]) == 'self' and norm(e.args[1]) == "'encoding'":
        return True, ''
    if isinstance(e, ast.Name):
        if e.id in _seen:
            return True, ''
        _seen = _seen | {e.id}
        defs = model.local_defs(fi, e.id)
        if not defs:
            r_ = model.resolve_global(fi.module, e.id)
            if r_ is not None:
                return True, ''      # module constant (DEFAULT_ENCODING)
            return False, f'`{e.id}` is not bound from the template'
        for d in defs:
            if d == 'param':
                if e.id != 'encoding':
                    return False, f'parameter `{e.id}`'
                continue
            if not isinstance(d, ast.AST):
                return False, f'`{e.id}` is bound in a way not followed'
            ok, why = _is_template_encoding(model, fi, d, _depth + 1, _seen)
            if not ok:
                return False, why
        return True, ''
    if isinstance(e, ast.Attribute) and norm(e).endswith('_ENCODING'):
        return True, ''
    if isinstance(e, ast.Attribute) and e.attr == 'encoding' and \
            isinstance(e.value, ast.Name):
        defs = [d for d in model.local_defs(fi, e.value.id)]
        if defs and all(isinstance(d, ast.Call) and isinstance(
                d.func, ast.Attribute) and d.func.attr == 'SubTemplate'
                for d in defs):
            S = model.cls('DT_String', 'String')
            for ci in [S] + list(model.subclasses(S)):
                sub = ci.methods.get('SubTemplate')
                if sub is None:
                    continue
                for x in own_nodes(sub.node):
                    if not isinstance(x, ast.Return):
                        continue
                    v = x.value
                    enc = None
                    if isinstance(v, ast.Call):
                        enc = next((k.value for k in v.keywords
                                    if k.arg == 'encoding'), None)
                    ok, why = _is_template_encoding(model, sub, enc,
                                                    _depth + 1)
                    if not ok:
                        return False, (
                            f'`{s}` is the encoding of the section '
                            f'template, and {sub.where} creates sections '
                            'without the encoding of the template they '
                            'belong to')
            return True, ''
        return False, f'`{s}` is not the encoding of this template'
    if isinstance(e, (ast.BoolOp, ast.IfExp)):
        vals = e.values if isinstance(e, ast.BoolOp) else [e.body, e.orelse]
        for v in vals:
            ok, why = _is_template_encoding(model, fi, v, _depth + 1, _seen)
            if not ok:
                return False, why
        return True, ''
    return False, f'`{s}` is not derived from the template\'s encoding'


def rule_threading(model):
    ra = RuleResult('C19.R1a', 'the parser passes the template encoding to '
                    'every command it constructs')
    rb = RuleResult('C19.R1b', 'every decode-capable call in render code is '
                    'given the encoding of the template')
    cg = _cg(model)
    S = model.cls('DT_String', 'String')
    ctor_ok = {}
    for key, f in cg.registry.constructors():
        ctor_ok[key] = _has_encoding_param(f)
    for name in ('parse', 'parse_block'):
        fi = S.methods[name]
        for n in own_nodes(fi.node):
            if isinstance(n, ast.Call) and isinstance(n.func, ast.Name) and \
                    n.func.id in ('command', 'scommand'):
                enc = next((k.value for k in n.keywords
                            if k.arg == 'encoding'), None)
                ra.instance(fi.where, n, 'encoding passed' if enc is not None
                            else 'NO encoding')
                if enc is None:
                    ra.finding(fi.where, n, 'a command is constructed '
                               'without the template encoding: bytes it '
                               'decodes (html_quote of a bytes value) fall '
                               'back to Latin-1', node=n, ctx=fi)
                else:
                    ok, why = _is_template_encoding(model, fi, enc)
                    if not ok:
                        ra.finding(fi.where, n, 'the encoding handed to '
                                   'the command is not the encoding of the '
                                   f'template being compiled: {why}; bytes '
                                   'rendered inside the block are decoded '
                                   'with another encoding', node=n, ctx=fi)
    for key, ok in sorted(ctor_ok.items()):
        ra.instance('DT_String:String.commands', f'{key!r} constructor '
                    'accepts encoding' if ok else f'{key!r} constructor has '
                    'no encoding parameter')
        if not ok:
            ra.finding('DT_String:String.commands', f'{key!r} constructor',
                       'command constructor does not accept the template '
                       'encoding')
    ra.require_floor(4)

    # (b) all render-phase functions = everything not compile-only
    n_sites = 0
    for fi in model.all_funcs():
        if fi.module.short in ('DT_UI', 'security', 'sequence'):
            continue
        for n in own_nodes(fi.node):
            if not isinstance(n, ast.Call):
                continue
            callees = [t[1] for t in model.resolve_callee(n.func, fi)
                       if t[0] == 'func']
            callees = [c for c in callees if _has_encoding_param(c)]
            if not callees:
                continue
            # constructors are judged under (a)
            if any(c.name == '__init__' for c in callees):
                continue
            n_sites += 1
            e = _encoding_arg(n, callees[0])
            ok = _ok_binding(e, fi)
            if ok and e is not None:
                ok2, why = _is_template_encoding(model, fi, e)
                if not ok2:
                    rb.instance(fi.where, n, f'encoding={norm(e)}: {why}')
                    rb.finding(fi.where, n, f'the encoding handed to '
                               f'{callees[0].where} is not (only) the '
                               f'encoding of the template: {why}; bytes '
                               'are decoded with whatever that source '
                               'holds at the time (another template\'s '
                               'encoding after a sub-template ran)',
                               node=n, ctx=fi)
                    continue
            rb.instance(fi.where, n, f'encoding={norm(e)}' if e is not None
                        else 'NO encoding')
            if not ok:
                rb.finding(fi.where, n, f'call of {callees[0].where} '
                           'without the encoding: bytes rendered below this '
                           'point are decoded with the Latin-1 fallback '
                           'instead of the template encoding', node=n,
                           ctx=fi)
    # table dispatch in Var.render
    ren = model.func('DT_Var', 'Var.render')
    mv = ren.module
    for n in own_nodes(ren.node):
        if not isinstance(n, ast.Call):
            continue
        via = None
        if isinstance(n.func, ast.Name):
            for d in model.local_defs(ren, n.func.id):
                if isinstance(d, tuple) and d[0] == 'iter' and \
                        'modifiers' in norm(d[1]):
                    via = 'modifiers'
        elif isinstance(n.func, ast.Subscript) and \
                norm(n.func.value) == 'special_formats':
            via = 'special_formats'
        if via is None:
            continue
        targets = []
        for v in mv.globals.get(via, []):
            elts = v.elts if isinstance(v, (ast.Tuple, ast.List)) else (
                v.values if isinstance(v, ast.Dict) else [])
            for e in elts:
                t = model.resolve_name_expr(mv, e)
                if t and t[0] == 'func' and _has_encoding_param(t[1]):
                    targets.append(t[1].where)
        n_sites += 1
        has = any(k.arg == 'encoding' for k in n.keywords)
        rb.instance(ren.where, n, f'dispatch over {via}: decode-capable '
                    f'entries {sorted(set(targets))}')
        if targets and not has:
            rb.finding(ren.where, n, f'dispatch over {via} reaches '
                       f'{sorted(set(targets))[0]} without the encoding: '
                       '<dtml-var x html_quote ...> of a bytes value '
                       'decodes it as Latin-1', node=n, ctx=ren)
    rb.stats = {'decode_capable_call_sites': n_sites}
    if n_sites < 15:
        raise AnalysisError(f'C19.R1b: only {n_sites} decode-capable call '
                            'sites found (floor 15)')
    rb.floor = 15
    return [ra, rb]


def _render_call(model, call, fi):
    names = model.callee_names(call, fi)
    return '_DocumentTemplate:render_blocks' in names


def rule_concat(model):
    r = RuleResult('C19.R2', 'rendered pieces are combined only through '
                   'join_unicode (never with +, % or str.join)')
    # parameters that receive rendered values through .append
    recv = {}       # where -> set(param names)
    changed = True
    rounds = 0

    def rendered_expr(e, fi, rnames):
        if isinstance(e, ast.Call) and _render_call(model, e, fi):
            return True
        if isinstance(e, ast.Name) and e.id in rnames:
            return True
        return False

    info = {}
    for fi in model.all_funcs():
        rnames = set()
        for _ in range(2):
            for n in own_nodes(fi.node):
                if isinstance(n, ast.Assign) and \
                        isinstance(n.targets[0], ast.Name):
                    v = n.value
                    if rendered_expr(v, fi, rnames) or (
                            isinstance(v, ast.BinOp) and (
                                rendered_expr(v.left, fi, rnames) or
                                rendered_expr(v.right, fi, rnames))):
                        rnames.add(n.targets[0].id)
        info[fi.where] = rnames
    while changed and rounds < 5:
        changed = False
        rounds += 1
        for fi in model.all_funcs():
            rnames = info[fi.where]
            lists = set(recv.get(fi.where, ()))
            appenders = {}
            for n in own_nodes(fi.node):
                if isinstance(n, ast.Assign) and \
                        isinstance(n.value, ast.Attribute) and \
                        n.value.attr == 'append' and \
                        isinstance(n.targets[0], ast.Name):
                    appenders[n.targets[0].id] = norm(n.value.value)
            for n in own_nodes(fi.node):
                if isinstance(n, ast.Call) and n.args and \
                        rendered_expr(n.args[0], fi, rnames):
                    if isinstance(n.func, ast.Attribute) and \
                            n.func.attr == 'append':
                        lists.add(norm(n.func.value))
                    elif isinstance(n.func, ast.Name) and \
                            n.func.id in appenders:
                        lists.add(appenders[n.func.id])
            # propagate to callers: list passed as argument to a function
            # whose parameter receives rendered values
            for n in own_nodes(fi.node):
                if isinstance(n, ast.Call):
                    for t in model.resolve_callee(n.func, fi):
                        if t[0] != 'func':
                            continue
                        ps = t[1].params()
                        for i, a in enumerate(n.args):
                            if i < len(ps) and ps[i] in recv.get(
                                    t[1].where, ()) and \
                                    isinstance(a, ast.Name):
                                lists.add(a.id)
            params = set(fi.params())
            got = {x for x in lists if x in params}
            if got - recv.get(fi.where, set()):
                recv.setdefault(fi.where, set()).update(got)
                changed = True
            info[(fi.where, 'lists')] = lists
    n_ops = 0
    for fi in model.all_funcs():
        rnames = info[fi.where]
        lists = info.get((fi.where, 'lists'), set())
        for n in own_nodes(fi.node):
            if isinstance(n, ast.JoinedStr) and any(
                    isinstance(v, ast.FormattedValue) and
                    rendered_expr(v.value, fi, rnames) for v in n.values):
                n_ops += 1
                r.instance(fi.where, n, 'F-STRING OF A RENDERED PIECE')
                r.finding(fi.where, n, 'a rendered piece is formatted '
                          'into a string: a bytes piece shows up as its '
                          'repr instead of being decoded with the template '
                          'encoding', node=n, ctx=fi)
            if isinstance(n, ast.Call) and isinstance(
                    n.func, ast.Attribute) and n.func.attr == 'format' and \
                    any(rendered_expr(a, fi, rnames) for a in
                        list(n.args) + [k.value for k in n.keywords]):
                n_ops += 1
                r.instance(fi.where, n, 'str.format OF A RENDERED PIECE')
                r.finding(fi.where, n, 'a rendered piece is formatted '
                          'into a string: a bytes piece shows up as its '
                          'repr instead of being decoded with the template '
                          'encoding', node=n, ctx=fi)
            if isinstance(n, ast.BinOp) and isinstance(n.op, (ast.Add,
                                                               ast.Mod)):
                operands = [n.left, n.right]
                if isinstance(n.op, ast.Mod) and isinstance(
                        n.right, (ast.Tuple, ast.List)):
                    operands += list(n.right.elts)
                if isinstance(n.op, ast.Mod) and isinstance(
                        n.right, ast.Dict):
                    operands += [v for v in n.right.values if v is not None]
                if any(rendered_expr(o, fi, rnames) for o in operands):
                    # formatting a rendered piece into an engine literal is
                    # still a concatenation of pieces
                    n_ops += 1
                    r.instance(fi.where, n, 'CONCATENATION')
                    r.finding(fi.where, n, 'rendered pieces are combined '
                              'with an operator: a piece that is a bytes '
                              'value raises TypeError (or is not decoded '
                              'with the template encoding)', node=n, ctx=fi)
            if isinstance(n, ast.Call) and isinstance(n.func,
                                                      ast.Attribute) and \
                    n.func.attr == 'join' and n.args and \
                    norm(n.args[0]) in lists:
                n_ops += 1
                r.instance(fi.where, n, 'str.join of rendered pieces')
                r.finding(fi.where, n, 'rendered pieces are joined with '
                          'str.join instead of join_unicode: a bytes piece '
                          'raises TypeError', node=n, ctx=fi)
            if isinstance(n, ast.Call) and \
                    '_DocumentTemplate:join_unicode' in model.callee_names(
                        n, fi):
                n_ops += 1
                r.instance(fi.where, n, 'join_unicode')
    r.stats = {'combination_sites': n_ops}
    r.require_floor(3)
    return r


def _rebound_globals(model, m):
    """Module-level names of module m that some function re-assigns:
    through a `global` statement or as attribute of the imported module."""
    cache = getattr(model, '_dt_rebound', None)
    if cache is None:
        cache = model._dt_rebound = {}
        for fi in model.all_funcs():
            gl = set()
            for n in own_nodes(fi.node):
                if isinstance(n, ast.Global):
                    gl.update(n.names)
            for n in own_nodes(fi.node):
                tg = []
                if isinstance(n, ast.Assign):
                    tg = n.targets
                elif isinstance(n, (ast.AugAssign, ast.AnnAssign)):
                    tg = [n.target]
                for t in tg:
                    if isinstance(t, ast.Name) and t.id in gl:
                        cache.setdefault(fi.module.short, set()).add(t.id)
                    if isinstance(t, ast.Attribute) and isinstance(
                            t.value, ast.Name) and \
                            t.value.id in fi.module.imports and not \
                            model.local_defs(fi, t.value.id):
                        imp = fi.module.imports[t.value.id]
                        tgt = str(imp[1] or imp[0]).rsplit('.', 1)[-1]
                        cache.setdefault(tgt, set()).add(t.attr)
                        cache.setdefault(t.value.id.lstrip('_'),
                                         set()).add(t.attr)
    return cache.get(m.short, set())


def rule_decoders(model):
    r = RuleResult('C19.R3', 'html_quote and join_unicode decode bytes with '
                   'the encoding they are given')
    for mod, name in (('html_quote', 'html_quote'),
                      ('_DocumentTemplate', 'join_unicode')):
        fi = model.func(mod, name)
        decs = [n for n in model.closure_nodes(fi)
                if isinstance(n, ast.Call)
                and isinstance(n.func, ast.Attribute)
                and n.func.attr == 'decode']
        if not decs:
            r.finding(fi.where, 'decode', f'{name} no longer decodes bytes',
                      node=fi.node, ctx=fi)
        for d in decs:
            arg = d.args[0] if d.args else None
            ok = arg is not None and any(
                isinstance(x, ast.Name) and x.id == 'encoding'
                for x in ast.walk(arg))
            r.instance(fi.where, d, 'uses the parameter' if ok
                       else 'IGNORES the parameter')
            if not ok:
                r.finding(fi.where, d, f'{name} decodes bytes without '
                          'using its encoding parameter', node=d, ctx=fi)
            if arg is not None:
                for x in ast.walk(arg):
                    if isinstance(x, ast.Name) and x.id != 'encoding' and \
                            x.id in _rebound_globals(model, fi.module):
                        r.finding(fi.where, d, f'{name} decodes with '
                                  f'`{x.id}`, a module-level variable that '
                                  'is re-assigned while templates render: '
                                  'process-wide state, so a render in '
                                  'another thread (or a nested template '
                                  'with another encoding) decides how these '
                                  'bytes are decoded', node=d, ctx=fi)
            if isinstance(d.func.value, ast.Call):
                r.finding(fi.where, d, f'{name} decodes a combination of '
                          'pieces in one call: every bytes value must be '
                          'decoded on its own (codecs with a byte-order '
                          'mark or state, e.g. UTF-16, differ)', node=d,
                          ctx=fi)
            # decode must be guarded by isinstance(.., bytes)
        # the encoding the caller gave is replaced only when none was given
        if 'encoding' in fi.params():
            for n in own_nodes(fi.node):
                tg = []
                if isinstance(n, ast.Assign):
                    tg = n.targets
                elif isinstance(n, (ast.AugAssign, ast.AnnAssign)):
                    tg = [n.target]
                elif isinstance(n, ast.NamedExpr):
                    tg = [n.target]
                elif isinstance(n, (ast.For, ast.comprehension)):
                    tg = [n.target]
                if not any(isinstance(x, ast.Name) and x.id == 'encoding'
                           for t in tg for x in ast.walk(t)):
                    continue
                ok = False
                v = getattr(n, 'value', None)
                if isinstance(v, ast.BoolOp) and isinstance(v.op, ast.Or) \
                        and norm(v.values[0]) == 'encoding':
                    ok = True
                if isinstance(v, ast.IfExp) and (
                        (norm(v.test) in ('encoding is None',
                                          'not encoding')
                         and True) or
                        (norm(v.test) in ('encoding is not None',
                                          'encoding')
                         and norm(v.body) == 'encoding')):
                    ok = True
                node = n
                for anc in ancestors(n):
                    if isinstance(anc, ast.If) and node in anc.body and \
                            norm(anc.test) in ('encoding is None',
                                               'not encoding'):
                        ok = True
                    if isinstance(anc, (ast.FunctionDef, ast.Lambda)):
                        break
                    node = anc
                r.instance(fi.where, n, 'default for a missing encoding'
                           if ok else 'REPLACES the given encoding')
                if not ok:
                    r.finding(fi.where, n, f'{name} replaces the encoding '
                              'it was given although one was given: bytes '
                              'decoded afterwards (later pieces of the same '
                              'join) are decoded with a different encoding '
                              'than the template\'s', node=n, ctx=fi)
    # anywhere in the package: bytes are decoded one value at a time
    for fi in model.all_funcs():
        for d in own_nodes(fi.node):
            if isinstance(d, ast.Call) and isinstance(
                    d.func, ast.Attribute) and d.func.attr == 'decode':
                recv = d.func.value
                combo = (isinstance(recv, ast.Call) and isinstance(
                    recv.func, ast.Attribute) and
                    recv.func.attr == 'join') or (
                    isinstance(recv, ast.BinOp) and
                    isinstance(recv.op, ast.Add))
                if fi.module.short in ('html_quote', '_DocumentTemplate',
                                       'DT_In', 'DT_Var', 'DT_Util',
                                       'TreeTag', 'DT_Try', 'DT_With',
                                       'DT_Let', 'DT_If', 'ustr'):
                    r.instance(fi.where, d, 'one value' if not combo
                               else 'COMBINATION DECODED')
                if combo and fi.where not in (
                        'html_quote:html_quote',
                        '_DocumentTemplate:join_unicode'):
                    r.finding(fi.where, d, 'several rendered pieces are '
                              'concatenated as bytes and decoded in one '
                              'call: with an encoding that has a byte-order '
                              'mark or state (UTF-16) every piece after the '
                              'first keeps its mark as a stray character; '
                              'each bytes value must be decoded on its own',
                              node=d, ctx=fi)
    # ... with an encoding that does not depend on the bytes themselves:
    # the codec is the template's (or the fixed default), never one chosen
    # by looking at the value (BOM sniffing, trial decoding)
    for fi in model.all_funcs():
        if fi.module.short not in ('html_quote', '_DocumentTemplate',
                                   'DT_In', 'DT_Var', 'ustr', 'DT_Util'):
            continue
        for d in own_nodes(fi.node):
            if not (isinstance(d, ast.Call) and isinstance(
                    d.func, ast.Attribute) and d.func.attr == 'decode'
                    and isinstance(d.func.value, ast.Name)):
                continue
            v = d.func.value.id
            enc = d.args[0] if d.args else next(
                (k.value for k in d.keywords if k.arg == 'encoding'), None)
            if enc is None:
                continue
            exprs = [enc]
            if isinstance(enc, ast.Name):
                exprs += [x for x in model.local_defs(fi, enc.id)
                          if isinstance(x, ast.AST)]
                # a loop variable over candidate codecs: trial decoding
                if any(isinstance(x, tuple) and x[0] == 'iter'
                       for x in model.local_defs(fi, enc.id)):
                    exprs.append(ast.Call(
                        func=ast.Name(id='candidates', ctx=ast.Load()),
                        args=[ast.Name(id=v, ctx=ast.Load())],
                        keywords=[]))
            sniff = [c for e in exprs for c in ast.walk(e)
                     if isinstance(c, ast.Call) and any(
                         isinstance(a, ast.Name) and a.id == v
                         for a in ast.walk(c))]
            r.instance(fi.where, d, 'codec fixed by the template'
                       if not sniff else 'CODEC CHOSEN FROM THE DATA')
            if sniff:
                r.finding(fi.where, d, f'the codec `{norm(enc)}` used to '
                          f'decode `{v}` is chosen by looking at the bytes '
                          'themselves: it outranks the encoding of the '
                          'template, so bytes that merely look like '
                          'another encoding (a text starting with the two '
                          'Latin-1 characters of a BOM, valid UTF-8 in a '
                          'Latin-1 template) are decoded differently from '
                          'every other insertion of the same value',
                          node=d, ctx=fi)
    # join_unicode: only bytes elements are decoded, order kept
    # (on the view with new helpers inlined: a helper that decodes the
    # list is judged as part of join_unicode)
    mi = model.inlined_view()
    ju = mi.func('_DocumentTemplate', 'join_unicode')
    pieces = ju.params()[0]

    busy = set()

    def in_order(e, depth=0, fi=None, pname=None):
        # e (an expression of fi) holds the pieces in list order: the
        # parameter, a list() copy, a local bound to one of those, a
        # comprehension over one of those that yields the element (decoded
        # or not), or what a helper returns that is handed one of those
        fi = fi or ju
        pname = pname or pieces
        if depth > 6:
            return False
        if isinstance(e, ast.Name):
            ds = mi.local_defs(fi, e.id)
            ok = bool(ds)
            for d in ds:
                if isinstance(d, ast.AST):
                    if id(d) in busy:
                        continue        # rendered = list(rendered)
                    busy.add(id(d))
                    try:
                        ok = ok and in_order(d, depth + 1, fi, pname)
                    finally:
                        busy.discard(id(d))
                elif not (d == 'param' and e.id == pname):
                    ok = False
            return ok
        if isinstance(e, ast.Call) and isinstance(e.func, ast.Name) and \
                e.func.id in ('list', 'tuple') and len(e.args) == 1:
            return in_order(e.args[0], depth + 1, fi, pname)
        if isinstance(e, ast.Call) and isinstance(e.func, ast.Name) and \
                e.args:
            tg = mi.resolve_callee(e.func, fi)
            if len(tg) == 1 and tg[0][0] == 'func' and tg[0][1].params() \
                    and in_order(e.args[0], depth + 1, fi, pname):
                h = tg[0][1]
                hr = [x for x in own_nodes(h.node)
                      if isinstance(x, ast.Return)]
                return bool(hr) and all(
                    x.value is not None and
                    in_order(x.value, depth + 1, h, h.params()[0])
                    for x in hr)
            return False
        if isinstance(e, (ast.ListComp, ast.GeneratorExp)) and \
                len(e.generators) == 1 and not e.generators[0].ifs and \
                isinstance(e.generators[0].target, ast.Name):
            v = e.generators[0].target.id

            def elt_ok(x):
                if isinstance(x, ast.Name):
                    return x.id == v
                if isinstance(x, ast.IfExp):
                    return elt_ok(x.body) and elt_ok(x.orelse)
                if isinstance(x, ast.Call) and isinstance(
                        x.func, ast.Attribute) and x.func.attr == 'decode':
                    return elt_ok(x.func.value)
                return False
            return elt_ok(e.elt) and in_order(e.generators[0].iter,
                                              depth + 1, fi, pname)
        return False
    rets = [x for x in own_nodes(ju.node) if isinstance(x, ast.Return)]
    bad = []
    for x in rets:
        v = x.value
        ok = isinstance(v, ast.Call) and isinstance(v.func, ast.Attribute) \
            and v.func.attr == 'join' and isinstance(
                v.func.value, ast.Constant) and v.func.value.value == '' \
            and len(v.args) == 1 and in_order(v.args[0])
        r.instance(ju.where, x, 'joined in list order' if ok
                   else 'NOT THE ORDERED JOIN')
        if not ok:
            bad.append(x)
    if bad or not rets:
        r.finding(ju.where, 'join', 'join_unicode does not concatenate the '
                  'pieces in list order', node=bad[0] if bad else ju.node,
                  ctx=ju)
    return r


class _NS(BaseState):
    def __init__(self, env=None):
        self.env = dict(env or {})

    def key(self):
        return tuple(sorted(self.env.items()))

    def copy(self):
        n = _NS(self.env)
        n.trace = self.trace
        return n


class _ExcDomain(Domain):
    """Scenario: the argument is an exception object with exactly `n`
    constructor arguments (args attribute present)."""

    def __init__(self, p, n):
        self.p = p
        self.n = n
        self.aliases = {f'{p}.args'}

    def _is_args(self, e, st):
        s = norm(e)
        return s in self.aliases or (isinstance(e, ast.Name) and
                                     st.env.get(e.id) == 'ARGS')

    def truth(self, e, st):
        if isinstance(e, ast.UnaryOp) and isinstance(e.op, ast.Not):
            v = self.truth(e.operand, st)
            return None if v is None else not v
        if self._is_args(e, st):
            return self.n > 0
        if isinstance(e, ast.Call) and norm(e.func) == 'hasattr' and \
                len(e.args) == 2 and norm(e.args[1]) == "'args'":
            return True
        if isinstance(e, ast.Compare) and len(e.ops) == 1:
            l, op, r = e.left, e.ops[0], e.comparators[0]
            if isinstance(l, ast.Call) and norm(l.func) == 'len' and \
                    l.args and self._is_args(l.args[0], st) and \
                    isinstance(r, ast.Constant) and \
                    isinstance(r.value, int):
                k = r.value
                return {ast.Eq: self.n == k, ast.NotEq: self.n != k,
                        ast.Gt: self.n > k, ast.GtE: self.n >= k,
                        ast.Lt: self.n < k, ast.LtE: self.n <= k}.get(
                            type(op))
            if self._is_args(l, st) and isinstance(op, (ast.Is, ast.IsNot)) \
                    and isinstance(r, ast.Constant) and r.value is None:
                return isinstance(op, ast.IsNot)
            if self._is_args(l, st) and isinstance(op, (ast.Eq, ast.NotEq)) \
                    and norm(r) == '()':
                return (self.n == 0) == isinstance(op, ast.Eq)
        return None

    def branch(self, test, st):
        v = self.truth(test, st)
        if v is None:
            return [(True, st), (False, st)]
        return [(v, st)]

    def raises(self, node, st):
        return []

    def effects(self, stmt, st):
        if isinstance(stmt, ast.Assign) and len(stmt.targets) == 1 and \
                isinstance(stmt.targets[0], ast.Name):
            v = stmt.value
            isargs = self._is_args(v, st) or (
                isinstance(v, ast.Call) and norm(v.func) == 'getattr' and
                len(v.args) >= 2 and norm(v.args[0]) == self.p and
                norm(v.args[1]) == "'args'")
            st = st.copy()
            if isargs:
                st.env[stmt.targets[0].id] = 'ARGS'
            else:
                st.env.pop(stmt.targets[0].id, None)
        return st

    def on_return(self, node, st):
        return [], st


def rule_exception_str(model):
    r = RuleResult('C19.R4', 'an exception object is inserted as its '
                   'message on every path: no args -> empty, one arg -> '
                   'that argument (converted by ustr), else the args tuple')
    fi = model.func('ustr', '_exception_str')
    u = model.func('ustr', 'ustr')
    p = fi.params()[0]

    def classify(ret, st, dom):
        v = ret.value if ret is not None else None
        if v is None:
            return 'none'
        if isinstance(v, ast.Constant) and v.value == '':
            return 'empty'
        if isinstance(v, ast.Call) and norm(v.func) in ('ustr', 'str') and \
                len(v.args) == 1 and isinstance(v.args[0], ast.Subscript) \
                and dom._is_args(v.args[0].value, st) and \
                norm(v.args[0].slice) == '0':
            return 'first'
        if isinstance(v, ast.Call) and norm(v.func) in ('str', 'repr') and \
                len(v.args) == 1 and dom._is_args(v.args[0], st):
            return 'tuple'
        if isinstance(v, ast.Call) and norm(v.func) == 'str' and \
                len(v.args) == 1 and norm(v.args[0]) == p:
            return 'str(exc)'
        return 'other:' + norm(v)
    want = {0: 'empty', 1: 'first', 2: 'tuple'}
    for n in (0, 1, 2):
        dom = _ExcDomain(p, n)
        outs = Interp(dom).run(fi.node, _NS())
        kinds = {}
        for o in outs:
            if o.kind == 'return':
                kinds.setdefault(classify(o.node, o.state, dom), o)
            elif o.kind == 'normal':
                kinds.setdefault('none', o)
        r.instance(fi.where, f'{n}-argument exception',
                   ' / '.join(sorted(kinds)))
        for k, o in sorted(kinds.items()):
            if k != want[n]:
                r.finding(fi.where, f'{n}-argument case', 'an exception '
                          f'with {n} argument(s) can be inserted as '
                          f'`{k}` instead of ' +
                          {0: 'the empty string', 1: 'that argument '
                           '(built-in exception classes with their own '
                           '__str__, e.g. KeyError, quote or mangle it)',
                           2: 'the args tuple'}[n],
                          node=o.node or fi.node, ctx=fi,
                          path=o.state.trace)
        if not kinds:
            raise AnalysisError('_exception_str: no exits')
    # ustr routes exceptions there
    routed = any(isinstance(n, ast.Call) and fi.where in
                 model.callee_names(n, u) for n in own_nodes(u.node))
    r.instance(u.where, 'exceptions -> _exception_str',
               'ok' if routed else 'MISSING')
    if not routed:
        r.finding(u.where, '_exception_str(v)', 'ustr does not convert '
                  'exception objects through their message', node=u.node,
                  ctx=u)
    return r


def rule_compile_receiver(model):
    r = RuleResult('C19.R1c', 'the compiler recursion stays on the template '
                   'object: section bodies are parsed by the template '
                   'itself (self.parse / self.parse_block ...), not by the '
                   'sub-template objects created for the sections, which do '
                   'not carry the template encoding')
    S = model.cls('DT_String', 'String')
    compile_methods = {'parse', 'parse_block', 'parse_close', 'parseTag',
                      '_parseTag', 'parse_error', 'skip_eol', 'tagre',
                      'varExtra'}
    n = 0
    for cls in [S] + [c for c in model.all_classes()
                      if c is not S and S in model.mro(c)]:
        for name, fi in cls.methods.items():
            if name not in compile_methods:
                continue
            for c in own_nodes(fi.node):
                if isinstance(c, ast.Call) and \
                        isinstance(c.func, ast.Attribute) and \
                        c.func.attr in ('parse', 'parse_block',
                                        'parse_close'):
                    n += 1
                    recv = norm(c.func.value)
                    r.instance(fi.where, c, f'receiver {recv}')
                    if recv != 'self':
                        r.finding(fi.where, c, 'a section is parsed by '
                                  f'`{recv}` instead of the template '
                                  'itself: tags nested in it are built '
                                  'with that object\'s (default) encoding, '
                                  'so bytes inside nested blocks are '
                                  'decoded with the wrong codec', node=c,
                                  ctx=fi)
    if n < 3:
        raise AnalysisError(f'C19.R1c: only {n} recursive parse calls found')
    r.floor = 3
    return r


def rule_stringify(model):
    r = RuleResult('C19.R5', 'a value is turned into text only by the '
                   'package converter ustr() (which leaves bytes for '
                   'html_quote / join_unicode to decode): on the default '
                   'format path no str()/repr()/format() is applied to the '
                   'inserted value')
    conv = model.func('ustr', 'ustr').where
    # (function, value variable)
    ren = model.func('DT_Var', 'Var.render')
    rb = model.func('_DocumentTemplate', 'render_blocks_')
    hq = model.func('html_quote', 'html_quote')
    targets = []

    def closure(fi):
        out, todo = [fi], [fi]
        while todo:
            f = todo.pop()
            for c in own_nodes(f.node):
                if isinstance(c, ast.Call):
                    for t in model.resolve_callee(c.func, f):
                        if t[0] == 'func' and t[1].module is fi.module and \
                                t[1] not in out and t[1].cls is None and \
                                t[1].name not in ('render_blocks',
                                                  'join_unicode'):
                            out.append(t[1])
                            todo.append(t[1])
        return out
    groups = []
    for anchor in (ren, rb, hq):
        members = closure(anchor) if anchor in (rb, hq) else [anchor]
        groups.append((anchor, members))
    for anchor, members in groups:
        for fi in members:
            # the value variable: assigned from a ustr(...) call, or the
            # returned name
            names = set()
            for n in own_nodes(fi.node):
                if isinstance(n, ast.Assign) and len(n.targets) == 1 and \
                        isinstance(n.targets[0], ast.Name) and \
                        isinstance(n.value, ast.Call) and \
                        conv in model.callee_names(n.value, fi):
                    names.add(n.targets[0].id)
            if fi is ren:
                for n in own_nodes(fi.node):
                    if isinstance(n, ast.Return) and \
                            isinstance(n.value, ast.Name):
                        names.add(n.value.id)
            if fi is hq:
                names.add(fi.params()[0])
            targets.append((fi, names, anchor))
    # in the escaper the conversion comes first: the bytes test / decode is
    # applied to what ustr() returned (an object whose __str__ yields bytes
    # is text only after ustr), never to the raw argument
    for f_ in closure(hq):
        for d_ in own_nodes(f_.node):
            if not (isinstance(d_, ast.Call) and isinstance(
                    d_.func, ast.Attribute) and d_.func.attr == 'decode'
                    and isinstance(d_.func.value, ast.Name)):
                continue
            v_ = d_.func.value.id
            defs_ = [x for x in model.local_defs(f_, v_)]
            conv_ = any(isinstance(x, ast.Call) and
                        conv in model.callee_names(x, f_) for x in defs_
                        if isinstance(x, ast.AST))
            r.instance(f_.where, d_, 'decodes what ustr() returned'
                       if conv_ else 'DECODES THE RAW ARGUMENT')
            if not conv_:
                r.finding(f_.where, d_, f'`{v_}` is tested for bytes / '
                          'decoded before it went through ustr(): a value '
                          'whose string form is bytes (an object with '
                          '__str__ returning encoded bytes, an exception '
                          'with a bytes message) is converted afterwards '
                          'and reaches the escaper as bytes', node=d_,
                          ctx=f_)
    have = {}
    for fi, names, anchor in targets:
        uses = [n for n in own_nodes(fi.node) if isinstance(n, ast.Call)
                and conv in model.callee_names(n, fi)]
        have[anchor.where] = have.get(anchor.where, 0) + len(uses)
    for fi, names, anchor in targets:
        uses = have[anchor.where]
        if fi is anchor:
            r.instance(fi.where, f'ustr() conversions: {uses}',
                       'ok' if uses else 'MISSING')
        if not uses and fi is anchor:
            r.finding(fi.where, 'ustr(value)', 'the inserted value is no '
                      'longer converted by ustr(): bytes values are turned '
                      "into their repr (b'...') or fail, instead of being "
                      'decoded with the template encoding', node=fi.node,
                      ctx=fi)
        from ..model import ancestors
        for n in own_nodes(fi.node):
            if not (isinstance(n, ast.Assign) and len(n.targets) == 1 and
                    isinstance(n.targets[0], ast.Name) and
                    n.targets[0].id in names):
                continue
            v = n.value
            bad = None
            if isinstance(v, ast.Call) and isinstance(v.func, ast.Name) and \
                    v.func.id in ('str', 'repr', 'format', 'ascii') and \
                    v.args and isinstance(v.args[0], ast.Name) and \
                    v.args[0].id in names and \
                    not model.local_defs(fi, v.func.id):
                bad = v
            if isinstance(v, ast.JoinedStr) and any(
                    isinstance(x, ast.Name) and x.id in names
                    for x in ast.walk(v)):
                bad = v
            if bad is None:
                continue
            # explicit formats are excepted: inside `if 'fmt' in args`, or
            # on the non-default branch of the `fmt == 's'` test, or guarded
            # by an isinstance test that excludes bytes
            exempt = False
            child = n
            for a in ancestors(n):
                if a is fi.node:
                    break
                if isinstance(a, ast.If):
                    t = norm(a.test)
                    in_else = any(child is x for x in a.orelse)
                    if "'fmt' in" in t and not in_else:
                        exempt = True
                    if ("fmt == 's'" in t and in_else) or \
                            ("fmt != 's'" in t and not in_else):
                        exempt = True
                    if 'isinstance(' in t and 'bytes' in t and (
                            (t.startswith('not ') and not in_else) or
                            (not t.startswith('not ') and in_else)):
                        exempt = True
                child = a
            r.instance(fi.where, n, 'exempt (explicit format / bytes '
                       'excluded)' if exempt else 'BUILTIN CONVERSION')
            if not exempt:
                r.finding(fi.where, n, 'the inserted value is converted '
                          'with a built-in (str/repr/format) on the default '
                          "path: a bytes value becomes its repr (b'...') "
                          'instead of being decoded with the template '
                          'encoding', node=n, ctx=fi)
    r.require_floor(3)
    return r


def _inl(rule):
    """Run a rule on the view in which helpers that are new w.r.t. the
    reference tree are inlined at their call sites (normalise.N2)."""
    def run(model):
        return rule(model.inlined_view())
    run.__name__ = rule.__name__
    return run


INLINED_VIEW = False
class _FreshS(BaseState):
    def __init__(self, fresh=frozenset()):
        self.fresh = fresh

    def key(self):
        return self.fresh

    def copy(self):
        n = _FreshS(self.fresh)
        n.trace = self.trace
        return n


class _FreshDomain(Domain):
    """Which locals name a sequence this call has built itself (list(x),
    a display, a comprehension) -- as opposed to the caller's object."""

    def __init__(self, params, watch=None):
        self.params = set(params)
        self.stores = []          # (node, name, fresh?)
        self.watch = watch        # predicate on Call nodes
        self.calls = []           # (call, first argument is fresh?)

    def raises(self, node, st):
        from ..flow import ANY
        return [ANY] if any(isinstance(x, ast.Call)
                            for x in ast.walk(node)) else []

    @staticmethod
    def _builds(v):
        return isinstance(v, (ast.List, ast.ListComp)) or (
            isinstance(v, ast.Call) and isinstance(v.func, ast.Name) and
            v.func.id in ('list', 'sorted')) or (
            isinstance(v, ast.BinOp) and isinstance(v.op, ast.Add))

    def effects(self, stmt, st):
        for x in ast.walk(stmt):
            if self.watch is not None and isinstance(x, ast.Call) and \
                    x.args and self.watch(x):
                a = x.args[0]
                self.calls.append((x, self._builds(a) or (
                    isinstance(a, ast.Name) and a.id in st.fresh)))
            if isinstance(x, ast.Subscript) and isinstance(
                    x.ctx, (ast.Store, ast.Del)) and isinstance(
                    x.value, ast.Name):
                self.stores.append((x, x.value.id,
                                    x.value.id in st.fresh))
            if isinstance(x, ast.Call) and isinstance(
                    x.func, ast.Attribute) and isinstance(
                    x.func.value, ast.Name) and x.func.attr in (
                        'append', 'extend', 'insert', 'pop', 'remove',
                        'sort', 'reverse', 'clear'):
                self.stores.append((x, x.func.value.id,
                                    x.func.value.id in st.fresh))
        if isinstance(stmt, ast.Assign) and len(stmt.targets) == 1 and \
                isinstance(stmt.targets[0], ast.Name):
            name = stmt.targets[0].id
            st = st.copy()
            if self._builds(stmt.value):
                st.fresh = st.fresh | {name}
            elif isinstance(stmt.value, ast.Name) and \
                    stmt.value.id in st.fresh:
                st.fresh = st.fresh | {name}
            else:
                st.fresh = st.fresh - {name}
        return st


def rule_join_copy(model):
    r = RuleResult('C19.R7', 'the decoding fallback of join_unicode works '
                   'on its own copy of the pieces: it never assigns into '
                   'the sequence it was given (callers pass lists, tuples '
                   'and generators; a tuple cannot be assigned to and a '
                   'caller\'s list must not change)')
    fi = model.func('_DocumentTemplate', 'join_unicode')
    dom = _FreshDomain(fi.params())
    Interp(dom).run(fi.node, _FreshS())
    seen = set()
    inplace = []
    for node, name, fresh in dom.stores:
        if (id(node), fresh) in seen:
            continue
        seen.add((id(node), fresh))
        r.instance(fi.where, node, 'own copy' if fresh
                   else 'THE CALLER\'S SEQUENCE')
        if not fresh and name in dom.params:
            inplace.append((node, name))
    # the fallback writes into what it was given: then every caller must
    # hand in a list it has just built
    if inplace:
        node, name = inplace[0]
        bad = []
        for g in model.all_funcs():
            if not any(isinstance(c, ast.Call) and fi.where in
                       model.callee_names(c, g)
                       for c in own_nodes(g.node)):
                continue
            d2 = _FreshDomain(g.params(), watch=lambda c, g=g: fi.where in
                              model.callee_names(c, g))
            Interp(d2, 200000).run(g.node, _FreshS())
            verdict = {}
            for c, ok in d2.calls:
                verdict[id(c)] = (c, verdict.get(id(c), (c, True))[1]
                                  and ok)
            for c, ok in verdict.values():
                r.instance(g.where, c, 'passes a list of its own' if ok
                           else 'PASSES ANOTHER KIND OF SEQUENCE')
                if not ok:
                    bad.append((g, c))
        for g, c in bad:
            r.finding(g.where, c, f'join_unicode assigns into the sequence '
                      f'it is given (`{name}[i] = ...`), and this caller '
                      'hands in something that is not a list of its own (a '
                      'tuple raises TypeError instead of being decoded '
                      'with the template encoding)', node=c, ctx=g)
    r.instance(fi.where, 'assignments into a sequence',
               f'{len(seen)} site(s), {len(inplace)} into the argument')
    return r


def rule_block_encoding(model):
    r = RuleResult('C19.R6', 'compiled blocks carry the encoding of the '
                   'template they were compiled for (block tags get '
                   'encoding=self.encoding at compile time): blocks taken '
                   'from a store shared between templates are looked up by '
                   'a key that includes the encoding')
    from .c01 import compiled_block_origins
    os_ = compiled_block_origins(model)
    for fi, n, kind, cont, kd in os_:
        r.instance(fi.where, n, 'compiled here' if kind == 'parse' else
                   f'shared store {cont} keyed by {sorted(kd)}')
        if kind == 'shared' and 'self.encoding' not in kd:
            r.finding(fi.where, n, f'compiled blocks are taken from the '
                      f'shared store `{cont}` by a key that ignores the '
                      'encoding: a template with the same source and '
                      'another encoding reuses block tags bound to the '
                      'first template\'s encoding (bytes in dtml-in / with '
                      '/ let / try bodies are decoded with the wrong '
                      'codec)', node=n, ctx=fi)
    if not os_:
        raise AnalysisError('C19.R6: cook() not understood')
    r.floor = 1
    return r


def rule_sections_as_blocks(model):
    r = RuleResult('C19.R8', 'a block tag keeps the compiled block LISTS of '
                   'its sections and renders them itself with the template '
                   'encoding it was given; it does not keep the section '
                   'templates (rendering one means calling it, and a '
                   'section template carries the default encoding, not the '
                   'template\'s)')
    from ..shared import shared_classes
    n = 0
    for kind, ci in shared_classes(model).values():
        if kind != 'tag':
            continue
        for fi in ci.methods.values():
            # section variables: third name unpacked from blocks[...]
            secs = set()
            for x in own_nodes(fi.node):
                tgt = src = None
                if isinstance(x, ast.Assign) and isinstance(
                        x.targets[0], ast.Tuple):
                    tgt, src = x.targets[0], x.value
                elif isinstance(x, ast.For) and isinstance(
                        x.target, ast.Tuple):
                    tgt, src = x.target, x.iter
                if tgt is not None and len(tgt.elts) == 3 and isinstance(
                        tgt.elts[2], ast.Name) and 'blocks' in norm(src):
                    secs.add(tgt.elts[2].id)
            if not secs:
                continue
            for x in own_nodes(fi.node):
                val = None
                if isinstance(x, ast.Assign) and any(
                        isinstance(t, ast.Attribute) and isinstance(
                            t.value, ast.Name) and t.value.id == 'self'
                        for t in x.targets):
                    val = x.value
                elif isinstance(x, ast.Call) and isinstance(
                        x.func, ast.Attribute) and x.func.attr in (
                        'append', 'insert', 'setdefault') and \
                        'self.' in norm(x.func.value) and x.args:
                    val = x.args[-1]
                if val is None:
                    continue
                bare = [y for y in ast.walk(val) if isinstance(y, ast.Name)
                        and y.id in secs and not (
                            isinstance(getattr(y, '_dt_parent', None),
                                       ast.Attribute) and
                            y._dt_parent.attr == 'blocks')]
                if not any(isinstance(y, ast.Name) and y.id in secs
                           for y in ast.walk(val)):
                    continue
                n += 1
                r.instance(fi.where, x, 'block list' if not bare
                           else 'SECTION TEMPLATE KEPT')
                if bare:
                    r.finding(fi.where, x, f'the tag keeps the section '
                              f'template `{bare[0].id}` itself, not its '
                              'block list: it can only be rendered by '
                              'calling it, and then bytes are joined and '
                              'quoted with the section\'s default '
                              'encoding instead of the encoding of the '
                              'template', node=x, ctx=fi)
    if n < 8:
        raise AnalysisError(f'C19.R8: only {n} section stores found')
    return r


RULES_PLAIN = [rule_sections_as_blocks, rule_threading,
               rule_compile_receiver, rule_concat, rule_decoders, rule_exception_str, rule_stringify,
               rule_block_encoding, rule_join_copy]
RULES = [_inl(r_) for r_ in RULES_PLAIN] if INLINED_VIEW else RULES_PLAIN
EXPLANATION = (
    'Call-site query: every call whose resolved callee has an `encoding` '
    'parameter must bind it (self.encoding / the received encoding), '
    'including table dispatch in Var.render; constructor calls of the '
    'parser; def-use tracking of rendered pieces into +, % and str.join; '
    'decoder argument check.')
ASSUMPTIONS = ['does not decide ustr() over all value types nor codec '
               'tables']
TRUSTED = ['python ast']
