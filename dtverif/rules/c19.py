"""C19 -- bytes in mixed output decode with the template encoding.

R1 encoding threading: (a) the parser hands the template encoding to every
   command it constructs; (b) every call of a decode-capable function (one
   with an `encoding` parameter) in render code binds it to the stored /
   received encoding
R2 one concatenator: rendered pieces are combined only by join_unicode
R3 the decoders use the encoding they are given
"""
import ast

from ..callgraph import CallGraph
from ..core import AnalysisError
from ..core import RuleResult
from ..core import norm
from ..model import own_nodes


def _cg(model):
    cg = getattr(model, '_dt_cg', None)
    if cg is None:
        cg = model._dt_cg = CallGraph(model)
        model._dt_compile = cg.compile_phase()
    return cg


def _has_encoding_param(fi):
    a = fi.node.args
    return any(p.arg == 'encoding' for p in a.args + a.kwonlyargs)


def _encoding_arg(call, callee):
    """Expression bound to callee's `encoding` parameter at this call, or
    None."""
    for k in call.keywords:
        if k.arg == 'encoding':
            return k.value
    params = callee.params()
    off = 1 if callee.cls is not None and params[:1] == ['self'] and \
        not isinstance(call.func, ast.Name) else 0
    if callee.cls is not None and params[:1] == ['self']:
        off = 1
    if 'encoding' in params:
        i = params.index('encoding') - off
        if 0 <= i < len(call.args):
            return call.args[i]
    return None


def _ok_binding(e, fi):
    if e is None:
        return False
    s = norm(e)
    if s in ('self.encoding', 'encoding'):
        return True
    if isinstance(e, ast.Name):
        # a local derived from self.encoding / getattr(self, 'encoding', .)
        return True
    return False


def rule_threading(model):
    ra = RuleResult('C19.R1a', 'the parser passes the template encoding to '
                    'every command it constructs')
    rb = RuleResult('C19.R1b', 'every decode-capable call in render code is '
                    'given the encoding of the template')
    cg = _cg(model)
    S = model.cls('DT_String', 'String')
    ctor_ok = {}
    for key, f in cg.registry.constructors():
        ctor_ok[key] = _has_encoding_param(f)
    for name in ('parse', 'parse_block'):
        fi = S.methods[name]
        for n in own_nodes(fi.node):
            if isinstance(n, ast.Call) and isinstance(n.func, ast.Name) and \
                    n.func.id in ('command', 'scommand'):
                enc = next((k.value for k in n.keywords
                            if k.arg == 'encoding'), None)
                ra.instance(fi.where, n, 'encoding passed' if enc is not None
                            else 'NO encoding')
                if enc is None:
                    ra.finding(fi.where, n, 'a command is constructed '
                               'without the template encoding: bytes it '
                               'decodes (html_quote of a bytes value) fall '
                               'back to Latin-1', node=n, ctx=fi)
    for key, ok in sorted(ctor_ok.items()):
        ra.instance('DT_String:String.commands', f'{key!r} constructor '
                    'accepts encoding' if ok else f'{key!r} constructor has '
                    'no encoding parameter')
        if not ok:
            ra.finding('DT_String:String.commands', f'{key!r} constructor',
                       'command constructor does not accept the template '
                       'encoding')
    ra.require_floor(4)

    # (b) all render-phase functions = everything not compile-only
    n_sites = 0
    for fi in model.all_funcs():
        if fi.module.short in ('DT_UI', 'security', 'sequence'):
            continue
        for n in own_nodes(fi.node):
            if not isinstance(n, ast.Call):
                continue
            callees = [t[1] for t in model.resolve_callee(n.func, fi)
                       if t[0] == 'func']
            callees = [c for c in callees if _has_encoding_param(c)]
            if not callees:
                continue
            # constructors are judged under (a)
            if any(c.name == '__init__' for c in callees):
                continue
            n_sites += 1
            e = _encoding_arg(n, callees[0])
            ok = _ok_binding(e, fi)
            rb.instance(fi.where, n, f'encoding={norm(e)}' if e is not None
                        else 'NO encoding')
            if not ok:
                rb.finding(fi.where, n, f'call of {callees[0].where} '
                           'without the encoding: bytes rendered below this '
                           'point are decoded with the Latin-1 fallback '
                           'instead of the template encoding', node=n,
                           ctx=fi)
    # table dispatch in Var.render
    ren = model.func('DT_Var', 'Var.render')
    mv = ren.module
    for n in own_nodes(ren.node):
        if not isinstance(n, ast.Call):
            continue
        via = None
        if isinstance(n.func, ast.Name):
            for d in model.local_defs(ren, n.func.id):
                if isinstance(d, tuple) and d[0] == 'iter' and \
                        'modifiers' in norm(d[1]):
                    via = 'modifiers'
        elif isinstance(n.func, ast.Subscript) and \
                norm(n.func.value) == 'special_formats':
            via = 'special_formats'
        if via is None:
            continue
        targets = []
        for v in mv.globals.get(via, []):
            elts = v.elts if isinstance(v, (ast.Tuple, ast.List)) else (
                v.values if isinstance(v, ast.Dict) else [])
            for e in elts:
                t = model.resolve_name_expr(mv, e)
                if t and t[0] == 'func' and _has_encoding_param(t[1]):
                    targets.append(t[1].where)
        n_sites += 1
        has = any(k.arg == 'encoding' for k in n.keywords)
        rb.instance(ren.where, n, f'dispatch over {via}: decode-capable '
                    f'entries {sorted(set(targets))}')
        if targets and not has:
            rb.finding(ren.where, n, f'dispatch over {via} reaches '
                       f'{sorted(set(targets))[0]} without the encoding: '
                       '<dtml-var x html_quote ...> of a bytes value '
                       'decodes it as Latin-1', node=n, ctx=ren)
    rb.stats = {'decode_capable_call_sites': n_sites}
    if n_sites < 15:
        raise AnalysisError(f'C19.R1b: only {n_sites} decode-capable call '
                            'sites found (floor 15)')
    rb.floor = 15
    return [ra, rb]


def _render_call(model, call, fi):
    names = model.callee_names(call, fi)
    return '_DocumentTemplate:render_blocks' in names


def rule_concat(model):
    r = RuleResult('C19.R2', 'rendered pieces are combined only through '
                   'join_unicode (never with +, % or str.join)')
    # parameters that receive rendered values through .append
    recv = {}       # where -> set(param names)
    changed = True
    rounds = 0

    def rendered_expr(e, fi, rnames):
        if isinstance(e, ast.Call) and _render_call(model, e, fi):
            return True
        if isinstance(e, ast.Name) and e.id in rnames:
            return True
        return False

    info = {}
    for fi in model.all_funcs():
        rnames = set()
        for _ in range(2):
            for n in own_nodes(fi.node):
                if isinstance(n, ast.Assign) and \
                        isinstance(n.targets[0], ast.Name):
                    v = n.value
                    if rendered_expr(v, fi, rnames) or (
                            isinstance(v, ast.BinOp) and (
                                rendered_expr(v.left, fi, rnames) or
                                rendered_expr(v.right, fi, rnames))):
                        rnames.add(n.targets[0].id)
        info[fi.where] = rnames
    while changed and rounds < 5:
        changed = False
        rounds += 1
        for fi in model.all_funcs():
            rnames = info[fi.where]
            lists = set(recv.get(fi.where, ()))
            appenders = {}
            for n in own_nodes(fi.node):
                if isinstance(n, ast.Assign) and \
                        isinstance(n.value, ast.Attribute) and \
                        n.value.attr == 'append' and \
                        isinstance(n.targets[0], ast.Name):
                    appenders[n.targets[0].id] = norm(n.value.value)
            for n in own_nodes(fi.node):
                if isinstance(n, ast.Call) and n.args and \
                        rendered_expr(n.args[0], fi, rnames):
                    if isinstance(n.func, ast.Attribute) and \
                            n.func.attr == 'append':
                        lists.add(norm(n.func.value))
                    elif isinstance(n.func, ast.Name) and \
                            n.func.id in appenders:
                        lists.add(appenders[n.func.id])
            # propagate to callers: list passed as argument to a function
            # whose parameter receives rendered values
            for n in own_nodes(fi.node):
                if isinstance(n, ast.Call):
                    for t in model.resolve_callee(n.func, fi):
                        if t[0] != 'func':
                            continue
                        ps = t[1].params()
                        for i, a in enumerate(n.args):
                            if i < len(ps) and ps[i] in recv.get(
                                    t[1].where, ()) and \
                                    isinstance(a, ast.Name):
                                lists.add(a.id)
            params = set(fi.params())
            got = {x for x in lists if x in params}
            if got - recv.get(fi.where, set()):
                recv.setdefault(fi.where, set()).update(got)
                changed = True
            info[(fi.where, 'lists')] = lists
    n_ops = 0
    for fi in model.all_funcs():
        rnames = info[fi.where]
        lists = info.get((fi.where, 'lists'), set())
        for n in own_nodes(fi.node):
            if isinstance(n, ast.BinOp) and isinstance(n.op, (ast.Add,
                                                               ast.Mod)):
                if rendered_expr(n.left, fi, rnames) or \
                        rendered_expr(n.right, fi, rnames):
                    # formatting a rendered piece into an engine literal is
                    # still a concatenation of pieces
                    n_ops += 1
                    r.instance(fi.where, n, 'CONCATENATION')
                    r.finding(fi.where, n, 'rendered pieces are combined '
                              'with an operator: a piece that is a bytes '
                              'value raises TypeError (or is not decoded '
                              'with the template encoding)', node=n, ctx=fi)
            if isinstance(n, ast.Call) and isinstance(n.func,
                                                      ast.Attribute) and \
                    n.func.attr == 'join' and n.args and \
                    norm(n.args[0]) in lists:
                n_ops += 1
                r.instance(fi.where, n, 'str.join of rendered pieces')
                r.finding(fi.where, n, 'rendered pieces are joined with '
                          'str.join instead of join_unicode: a bytes piece '
                          'raises TypeError', node=n, ctx=fi)
            if isinstance(n, ast.Call) and \
                    '_DocumentTemplate:join_unicode' in model.callee_names(
                        n, fi):
                n_ops += 1
                r.instance(fi.where, n, 'join_unicode')
    r.stats = {'combination_sites': n_ops}
    r.require_floor(3)
    return r


def rule_decoders(model):
    r = RuleResult('C19.R3', 'html_quote and join_unicode decode bytes with '
                   'the encoding they are given')
    for mod, name in (('html_quote', 'html_quote'),
                      ('_DocumentTemplate', 'join_unicode')):
        fi = model.func(mod, name)
        decs = [n for n in own_nodes(fi.node) if isinstance(n, ast.Call)
                and isinstance(n.func, ast.Attribute)
                and n.func.attr == 'decode']
        if not decs:
            r.finding(fi.where, 'decode', f'{name} no longer decodes bytes',
                      node=fi.node, ctx=fi)
        for d in decs:
            arg = d.args[0] if d.args else None
            ok = arg is not None and any(
                isinstance(x, ast.Name) and x.id == 'encoding'
                for x in ast.walk(arg))
            r.instance(fi.where, d, 'uses the parameter' if ok
                       else 'IGNORES the parameter')
            if not ok:
                r.finding(fi.where, d, f'{name} decodes bytes without '
                          'using its encoding parameter', node=d, ctx=fi)
            if isinstance(d.func.value, ast.Call):
                r.finding(fi.where, d, f'{name} decodes a combination of '
                          'pieces in one call: every bytes value must be '
                          'decoded on its own (codecs with a byte-order '
                          'mark or state, e.g. UTF-16, differ)', node=d,
                          ctx=fi)
            # decode must be guarded by isinstance(.., bytes)
    # join_unicode: only bytes elements are decoded, order kept
    ju = model.func('_DocumentTemplate', 'join_unicode')
    src = ast.unparse(ju.node)
    r.instance(ju.where, "''.join(rendered)")
    if "''.join(rendered)" not in src or 'sorted(' in src or \
            'reversed(' in src:
        r.finding(ju.where, 'join', 'join_unicode does not concatenate the '
                  'pieces in list order', node=ju.node, ctx=ju)
    return r


def rule_exception_str(model):
    r = RuleResult('C19.R4', 'an exception object is inserted as its '
                   'message: no args -> empty, one arg -> that arg, else '
                   'the args tuple')
    fi = model.func('ustr', '_exception_str')
    u = model.func('ustr', 'ustr')
    p = fi.params()[0]
    empty = one = False
    for n in own_nodes(fi.node):
        if isinstance(n, ast.If):
            t = norm(n.test)
            rets = [x for x in n.body if isinstance(x, ast.Return)]
            if t in (f'not {p}.args', f'len({p}.args) == 0',
                     f'{p}.args == ()') and rets and \
                    isinstance(rets[0].value, ast.Constant) and \
                    rets[0].value.value == '':
                empty = True
            if t == f'len({p}.args) == 1' and rets and \
                    norm(rets[0].value) in (f'ustr({p}.args[0])',
                                            f'str({p}.args[0])'):
                one = True
    r.instance(fi.where, 'no-argument case', 'ok' if empty else 'MISSING')
    r.instance(fi.where, 'one-argument case', 'ok' if one else 'MISSING')
    if not empty:
        r.finding(fi.where, 'no-argument case', 'an exception without '
                  'arguments is not inserted as the empty string',
                  node=fi.node, ctx=fi)
    if not one:
        r.finding(fi.where, 'one-argument case', 'an exception with one '
                  'argument is not inserted as that argument',
                  node=fi.node, ctx=fi)
    # ustr routes exceptions there
    routed = any(isinstance(n, ast.Call) and fi.where in
                 model.callee_names(n, u) for n in own_nodes(u.node))
    r.instance(u.where, 'exceptions -> _exception_str',
               'ok' if routed else 'MISSING')
    if not routed:
        r.finding(u.where, '_exception_str(v)', 'ustr does not convert '
                  'exception objects through their message', node=u.node,
                  ctx=u)
    return r


RULES = [rule_threading, rule_concat, rule_decoders, rule_exception_str]
EXPLANATION = (
    'Call-site query: every call whose resolved callee has an `encoding` '
    'parameter must bind it (self.encoding / the received encoding), '
    'including table dispatch in Var.render; constructor calls of the '
    'parser; def-use tracking of rendered pieces into +, % and str.join; '
    'decoder argument check.')
ASSUMPTIONS = ['does not decide ustr() over all value types nor codec '
               'tables']
TRUSTED = ['python ast']
