"""C12 -- batching a lazy sequence pulls only the window plus look-ahead.

R1 effect rule: on the batch path no operation that forces the whole
   sequence (len, iteration, truth test, list/tuple/sorted..., slicing,
   negative index) is applied to the sequence, except in the features the
   property excepts; len() only in the handler of a failed probe.
R2 single puller: next() on the wrapped iterator only in
   SequenceFromIter.__getitem__, guarded by the index test; negative indexes
   rejected first; nobody else touches the iterator.
"""
import ast

from ..core import AnalysisError
from ..core import RuleResult
from ..core import norm
from ..model import ancestors
from ..model import own_nodes
from ..flow import BaseState as _BaseState
from ..flow import Domain as _Domain
from ..flow import NORMAL as _NORMAL
from ..flow import RAISE as _RAISE
from ..flow import Interp as _Interp
from ..flow import Outcome as _Outcome

# functions of the batch path and the names the sequence is known by
BATCH_PATH = {
    'DT_In:InClass.renderwb': None,
    'DT_InSV:opt': None,
    'DT_InSV:sequence_variables.__init__': None,
    'DT_InSV:sequence_variables.key': None,
    'DT_InSV:sequence_variables.item': None,
    'DT_InSV:sequence_variables.value': None,
    'DT_InSV:sequence_variables.first': None,
    'DT_InSV:sequence_variables.last': None,
    'DT_InSV:sequence_variables.previous_batches': None,
    'DT_InSV:sequence_variables.__getitem__': None,
    'DT_InSV:sequence_variables.query': None,
    'DT_Util:sequence_ensure_subscription': None,
}
# features the property excepts (whole sequence inherently needed)
EXCEPTED = {
    'DT_In:InClass.sort_sequence', 'DT_In:InClass.reverse_sequence',
    'DT_InSV:sequence_variables.length',
    'DT_InSV:sequence_variables.statistics',
    'DT_InSV:sequence_variables.next_batches',
    'DT_In:InClass.renderwob',
}
FORCING_CALLS = {'len', 'list', 'tuple', 'sorted', 'reversed', 'sum', 'min',
                 'max', 'set', 'frozenset', 'enumerate', 'zip', 'map',
                 'filter', 'any', 'all', 'iter'}
SEQ_ATTR = 'items'


def seq_names(model, fi):
    """Expressions (normalised) that denote the client sequence in fi."""
    names = set(getattr(fi, '_dt_seq_params', ()))
    params = fi.params()
    if fi.where == 'DT_InSV:opt':
        names.add(params[-1])
    if fi.where == 'DT_Util:sequence_ensure_subscription':
        names.add(params[0])
    if fi.cls is not None and fi.cls.name == 'sequence_variables':
        names.add(f'self.{SEQ_ATTR}')
        if fi.name == '__init__':
            names.add(params[1])
    for n in own_nodes(fi.node):
        if isinstance(n, ast.Assign) and isinstance(n.targets[0], ast.Name):
            v = n.value
            if isinstance(v, ast.Call):
                cn = model.callee_names(v, fi)
                if 'DT_Util:sequence_ensure_subscription' in cn or any(
                        x.endswith(('sort_sequence', 'reverse_sequence'))
                        for x in cn):
                    names.add(n.targets[0].id)
            elif norm(v) in names or norm(v) == f'self.{SEQ_ATTR}':
                names.add(n.targets[0].id)
    # second pass for aliases
    for n in own_nodes(fi.node):
        if isinstance(n, ast.Assign) and isinstance(n.targets[0], ast.Name) \
                and norm(n.value) in names:
            names.add(n.targets[0].id)
    return names


def _probe_handler(node, seq):
    """Is node inside the handler of a try whose body is a single probe
    `seq[...]`?"""
    prev = node
    for anc in ancestors(node):
        if isinstance(anc, ast.ExceptHandler):
            tr = anc._dt_parent
            if isinstance(tr, ast.Try) and len(tr.body) == 1 and \
                    isinstance(tr.body[0], ast.Expr) and \
                    isinstance(tr.body[0].value, ast.Subscript) and \
                    norm(tr.body[0].value.value) == seq:
                return True
        if isinstance(anc, ast.FunctionDef):
            break
        prev = anc
    return False


def batch_closure(model):
    """BATCH_PATH plus the same-module helpers its functions call (not the
    excepted features)."""
    todo = []
    for where in sorted(BATCH_PATH):
        mshort, qual = where.split(':')
        todo.append(model.func(mshort, qual))
    seen = {f.where: f for f in todo}
    while todo:
        fi = todo.pop()
        names = seq_names(model, fi)
        for n in own_nodes(fi.node):
            if not isinstance(n, ast.Call):
                continue
            for t in model.resolve_callee(n.func, fi):
                if t[0] == 'func' and \
                        t[1].where not in EXCEPTED and \
                        t[1].module.short in ('DT_In', 'DT_InSV') and \
                        t[1].name not in ('__init__',) and \
                        not t[1].where.startswith('DT_In:InClass.render'):
                    # parameters of the helper that receive the sequence
                    ps = t[1].params()
                    off = 1 if t[1].cls is not None and ps[:1] == ['self'] \
                        else 0
                    got = set(getattr(t[1], '_dt_seq_params', ()))
                    for i, a in enumerate(n.args):
                        if norm(a) in names and i + off < len(ps):
                            got.add(ps[i + off])
                    new = got != set(getattr(t[1], '_dt_seq_params', ()))
                    t[1]._dt_seq_params = got
                    if t[1].where not in seen or new:
                        seen[t[1].where] = t[1]
                        todo.append(t[1])
    return seen


def rule_effects(model):
    r = RuleResult('C12.R1', 'no operation on the batch path forces the '
                   'whole (lazy) sequence')
    n_uses = 0
    closure = batch_closure(model)
    for where in sorted(closure):
        fi = closure[where]
        names = seq_names(model, fi)
        if not names:
            if where not in BATCH_PATH or where.endswith(
                    ('query', '__getitem__', 'first', 'last')):
                continue
            raise AnalysisError(f'C12.R1: no sequence value found in '
                                f'{where}')

        def is_seq(e):
            return norm(e) in names

        for n in own_nodes(fi.node):
            bad = None
            if isinstance(n, ast.Call) and isinstance(n.func, ast.Name) and \
                    n.func.id in FORCING_CALLS and n.args and \
                    any(is_seq(a) for a in n.args):
                seq = next(norm(a) for a in n.args if is_seq(a))
                if n.func.id == 'len' and _probe_handler(n, seq):
                    r.instance(where, n, 'len() in the handler of a failed '
                               'probe (iterator already exhausted)')
                    n_uses += 1
                    continue
                if n.func.id == 'iter' and \
                        where.endswith('sequence_ensure_subscription'):
                    r.instance(where, n, 'iterator wrapped lazily')
                    n_uses += 1
                    continue
                bad = f'{n.func.id}() forces the whole sequence'
            elif isinstance(n, (ast.For, ast.comprehension)) and \
                    is_seq(n.iter):
                bad = 'iteration pulls every element'
            elif isinstance(n, ast.Subscript) and is_seq(n.value):
                n_uses += 1
                if isinstance(n.slice, ast.Slice):
                    bad = 'slicing forces the sequence'
                elif isinstance(n.slice, ast.UnaryOp) and \
                        isinstance(n.slice.op, ast.USub):
                    bad = 'negative index forces the sequence'
                else:
                    r.instance(where, n, 'index')
                    continue
            elif isinstance(n, (ast.If, ast.While, ast.IfExp)) or \
                    isinstance(n, ast.BoolOp) or (
                        isinstance(n, ast.UnaryOp) and
                        isinstance(n.op, ast.Not)):
                tests = []
                if isinstance(n, (ast.If, ast.While, ast.IfExp)):
                    tests = [n.test]
                elif isinstance(n, ast.BoolOp):
                    tests = n.values
                else:
                    tests = [n.operand]
                for t in tests:
                    if is_seq(t):
                        bad = ('truth test calls __len__ on the sequence')
            elif isinstance(n, ast.Starred) and is_seq(n.value):
                bad = 'unpacking pulls every element'
            elif isinstance(n, ast.Call) and isinstance(n.func,
                                                        ast.Attribute) and \
                    is_seq(n.func.value) and n.func.attr in (
                        '__len__', 'sort', 'reverse', 'count', 'index',
                        'copy'):
                bad = f'.{n.func.attr}() forces the sequence'
            if bad:
                n_uses += 1
                r.instance(where, n if not isinstance(n, ast.For) else
                           f'for ... in {norm(n.iter)}', 'FORCING')
                r.finding(where, n if not isinstance(
                    n, (ast.For, ast.If, ast.While)) else
                    f'{type(n).__name__.lower()} {norm(getattr(n, "iter", None) or n.test)}',
                    f'{bad}: a batch of a lazy / unbounded sequence pulls '
                    'more than the window and its look-ahead', node=n,
                    ctx=fi)
        # calls that hand the sequence on must go to analysed / excepted
        # functions
        for n in own_nodes(fi.node):
            if isinstance(n, ast.Call) and any(is_seq(a) for a in n.args):
                if isinstance(n.func, ast.Name) and \
                        n.func.id in FORCING_CALLS | INSPECTING_CALLS:
                    continue
                tg = set()
                for t in model.resolve_callee(n.func, fi):
                    if t[0] == 'func':
                        tg.add(t[1].where)
                    elif t[0] == 'class':
                        tg.add(f'{t[1].module.short}:{t[1].name}.__init__')
                    elif t[0] == 'unknown' or t[0] == 'method':
                        tg.add('?' + norm(n.func))
                ok = all(w in closure or w in EXCEPTED or
                         w == 'DT_Util:sequence_supports_subscription'
                         or w.startswith('?guarded_getitem')
                         or w == 'DT_Util:SequenceFromIter.__init__'
                         for w in tg) and tg
                r.instance(where, n, 'passed on to ' + ','.join(sorted(tg)))
                n_uses += 1
                # an excepted feature may force -- but only when requested
                for w in tg & EXCEPTED:
                    stem = 'sort' if 'sort' in w else (
                        'reverse' if 'reverse' in w else None)
                    if stem is None or where in EXCEPTED:
                        continue
                    cond = False

                    def expanded(test):
                        # locals that merely alias an option of the tag
                        # (sort_expr = self.sort_expr) read as the option
                        t_ = ast.unparse(test)
                        for x in ast.walk(test):
                            if isinstance(x, ast.Name):
                                ds = model.local_defs(fi, x.id)
                                if len(ds) == 1 and isinstance(
                                        ds[0], ast.Attribute) and isinstance(
                                        ds[0].value, ast.Name) and \
                                        ds[0].value.id == 'self':
                                    import re as _re
                                    t_ = _re.sub(r'(?<![\w.])%s(?!\w)' %
                                                 _re.escape(x.id),
                                                 ast.unparse(ds[0]), t_)
                        return t_
                    for anc in ancestors(n):
                        if isinstance(anc, ast.If) and \
                                f'self.{stem}' in expanded(anc.test):
                            cond = True
                            t = expanded(anc.test)
                            # an *_expr option requests the feature only
                            # when it evaluates true
                            if stem == 'reverse' and \
                                    f'self.{stem}_expr' in t and \
                                    f'self.{stem}_expr.eval(' not in t:
                                cond = False
                        if isinstance(anc, ast.FunctionDef):
                            break
                    if not cond:
                        r.finding(where, n, f'{w.split(".")[-1]} (which '
                                  'needs the whole sequence) is called '
                                  f'whether or not {stem} was requested',
                                  node=n, ctx=fi)
                if not ok:
                    r.finding(where, n, 'the sequence is handed to a '
                              'function that is not known to leave it lazy',
                              node=n, ctx=fi)
    # the raw iterable is owned by the lazy wrapper alone
    ens = 'DT_Util:sequence_ensure_subscription'
    for fi in model.all_funcs():
        if fi.module.short not in ('DT_In', 'DT_InSV', 'TreeTag'):
            continue
        for n in own_nodes(fi.node):
            if isinstance(n, ast.Call) and ens in model.callee_names(n, fi) \
                    and n.args and isinstance(n.args[0], ast.Name):
                raw = n.args[0].id
                if raw in fi.params():
                    continue
                for u in own_nodes(fi.node):
                    if isinstance(u, ast.Name) and u.id == raw and \
                            isinstance(u.ctx, ast.Load) and \
                            u is not n.args[0]:
                        par = u._dt_parent
                        ok = isinstance(par, ast.Call) and \
                            isinstance(par.func, ast.Name) and \
                            par.func.id == 'isinstance'
                        r.instance(fi.where, par, 'raw value use')
                        if not ok:
                            r.finding(fi.where, par, f'the raw iterable '
                                      f'`{raw}` is used (stored / passed '
                                      'on) besides being wrapped: whoever '
                                      'reaches it through that reference '
                                      'pulls elements behind the lazy '
                                      'wrapper', node=u, ctx=fi)
    r.stats = {'uses_classified': n_uses,
               'functions': sorted(closure)}
    r.require_floor(20)
    return r


class _StoreState(_BaseState):
    def __init__(self, pending=None):
        self.pending = pending

    def key(self):
        return (self.pending,)

    def copy(self):
        n = _StoreState(self.pending)
        n.trace = self.trace
        return n


class _StoreDomain(_Domain):
    """Every element pulled from the wrapped iterator is appended to the
    cache before the next pull, the next loop round or the return:
    `pending` names the local that holds a pulled, not yet stored
    element."""

    def __init__(self, it_attr, data_attr):
        self.it = f'self.{it_attr}'
        self.data = f'self.{data_attr}'
        self.bad = {}

    def _pulls(self, node):
        return [c for c in ast.walk(node) if isinstance(c, ast.Call)
                and norm(c.func) == 'next' and c.args
                and norm(c.args[0]) == self.it]

    def _flag(self, node, why):
        self.bad.setdefault((id(node), why), (node, why))

    def simple(self, stmt, st):
        outs = []
        pulls = self._pulls(stmt)
        ns = st
        for c in ast.walk(stmt):
            if isinstance(c, ast.Attribute) and norm(c) == self.it and \
                    not any(c is p.args[0] for p in pulls):
                # bulk pull whose whole result goes into the cache in the
                # same statement: data.extend([list(]islice(it, n)[)])
                par = getattr(c, '_dt_parent', None)
                bulk = False
                if isinstance(par, ast.Call) and norm(par.func) in (
                        'islice', 'itertools.islice') and \
                        par.args and par.args[0] is c:
                    up = getattr(par, '_dt_parent', None)
                    if isinstance(up, ast.Call) and norm(up.func) in (
                            'list', 'tuple') and len(up.args) == 1:
                        up = getattr(up, '_dt_parent', None)
                    if isinstance(up, ast.Call) and isinstance(
                            up.func, ast.Attribute) and \
                            up.func.attr == 'extend' and \
                            norm(up.func.value) == self.data:
                        bulk = True
                if bulk:
                    continue
                self._flag(c, 'the iterator is handed on or replaced')
        if pulls:
            if st.pending is not None:
                self._flag(pulls[0], 'a second element is pulled while '
                           f'`{st.pending}` is not stored yet')
            # the pull itself may end the iteration
            outs.append(_Outcome(_RAISE, st, 'StopIteration', stmt))
            if len(pulls) > 1:
                self._flag(pulls[1], 'several at once')
            c = pulls[0]
            par = c._dt_parent
            if isinstance(par, ast.Call) and isinstance(
                    par.func, ast.Attribute) and par.func.attr == 'append' \
                    and norm(par.func.value) == self.data:
                pass
            elif isinstance(stmt, ast.Assign) and stmt.value is c and \
                    len(stmt.targets) == 1 and isinstance(
                        stmt.targets[0], ast.Name):
                ns = st.copy()
                ns.pending = stmt.targets[0].id
            else:
                self._flag(c, 'the element is dropped')
        else:
            for c in ast.walk(stmt):
                if isinstance(c, ast.Call) and isinstance(
                        c.func, ast.Attribute) and c.func.attr == 'append' \
                        and norm(c.func.value) == self.data and c.args and \
                        st.pending is not None and \
                        norm(c.args[0]) == st.pending:
                    ns = st.copy()
                    ns.pending = None
        outs.append(_Outcome(_NORMAL, ns))
        return outs

    def branch(self, test, st):
        if self._pulls(test):
            self._flag(test, 'pulled in a condition')
        return [(True, st), (False, st)]

    def loop_head(self, node, st):
        if st.pending is not None:
            self._flag(node, f'`{st.pending}` is not stored when the loop '
                       'goes round')
            st = st.copy()
            st.pending = None
        return st

    def on_return(self, node, st):
        if st.pending is not None:
            self._flag(node, f'`{st.pending}` is not stored on return')
        if node.value is not None and self._pulls(node.value):
            self._flag(node, 'the element is returned, not stored')
        if node.value is not None:
            pulls = self._pulls(node.value)
            for c in ast.walk(node.value):
                if isinstance(c, ast.Attribute) and norm(c) == self.it and \
                        not any(c is p.args[0] for p in pulls):
                    self._flag(c, 'the iterator is handed out: whoever '
                               'walks it takes elements the cache never '
                               'sees')
        return [], st


# builtins that look at an object without iterating / indexing it
INSPECTING_CALLS = {'isinstance', 'hasattr', 'callable', 'type', 'id'}


def rule_puller(model):
    r = RuleResult('C12.R2', 'the wrapped iterator is advanced only by '
                   'SequenceFromIter.__getitem__ under the index test; '
                   'negative indexes are rejected first')
    cls = model.cls('DT_Util', 'SequenceFromIter')
    init = cls.methods.get('__init__')
    gi = cls.methods.get('__getitem__')
    if init is None or gi is None:
        raise AnalysisError('SequenceFromIter methods not found')
    # attribute holding the iterator: assigned from the ctor parameter
    it_attr = data_attr = None
    p = init.params()[1]
    for n in own_nodes(init.node):
        if isinstance(n, ast.Assign) and \
                isinstance(n.targets[0], ast.Attribute):
            if norm(n.value) == p:
                it_attr = n.targets[0].attr
            elif isinstance(n.value, ast.List):
                data_attr = n.targets[0].attr
    if it_attr is None or data_attr is None:
        raise AnalysisError('SequenceFromIter: iterator/data attributes '
                            'not found')
    for fi in model.all_funcs():
        for n in own_nodes(fi.node):
            if isinstance(n, ast.Attribute) and n.attr == it_attr and \
                    isinstance(n.value, ast.Name) and n.value.id == 'self' \
                    and fi.cls is cls:
                r.instance(fi.where, n, 'owner class')
                # outside __init__ the iterator is only advanced, and what
                # it yields is stored (decided per function below)
    # who may touch the wrapped iterator: the constructor and the element
    # reader (with the helpers only it calls); every other way to the
    # elements (iteration, length) goes through the element reader, so the
    # cached prefix is replayed and the position is shared
    owners = {init.where} | {f.where for f in model.closure(gi)}
    for fi in cls.methods.values():
        if fi.where in owners:
            continue
        touched = [n for n in own_nodes(fi.node)
                   if isinstance(n, ast.Attribute) and n.attr == it_attr
                   and isinstance(n.value, ast.Name) and n.value.id == 'self']
        # a method that stores what it pulls (judged below like the
        # element reader) is fine; one that hands the iterator's elements
        # on itself -- a generator, or a loop over the iterator -- bypasses
        # the cached prefix
        hands_on = any(isinstance(n, (ast.Yield, ast.YieldFrom))
                       for n in own_nodes(fi.node)) or any(
            isinstance(n, (ast.For, ast.comprehension)) and any(
                x is t for t in touched for x in ast.walk(n.iter))
            for n in own_nodes(fi.node))
        if touched and hands_on:
            r.finding(fi.where, touched[0], f'{fi.name}() reads the wrapped '
                      'iterator itself instead of going through the element '
                      'reader: elements already fetched (the emptiness probe '
                      'of dtml-in fetches the first) are not replayed, and '
                      'two walkers advance one iterator',
                      node=touched[0], ctx=fi)
    for fi in cls.methods.values():
        if fi is init:
            continue
        if not any(isinstance(n, ast.Attribute) and n.attr == it_attr
                   for n in own_nodes(fi.node)):
            continue
        dom = _StoreDomain(it_attr, data_attr)
        _Interp(dom, 20000).run(fi.node, _StoreState())
        for node, why in dom.bad.values():
            r.finding(fi.where, node, 'the wrapped iterator is used '
                      'other than by storing its next element: '
                      f'elements are pulled without being kept ({why})',
                      node=node, ctx=fi)
    # nobody outside the class reaches the wrapped iterator
    for fi in model.all_funcs():
        if fi.cls is cls:
            continue
        for n in own_nodes(fi.node):
            if isinstance(n, ast.Attribute) and n.attr == it_attr and \
                    isinstance(n.value, ast.Name) and \
                    n.value.id in ('sequence', 'items', 'seq'):
                r.finding(fi.where, n, 'the wrapped iterator is touched '
                          'outside the lazy wrapper', node=n, ctx=fi)
    nexts = [n for n in own_nodes(gi.node) if isinstance(n, ast.Call)
             and isinstance(n.func, ast.Name) and n.func.id == 'next']
    idx = gi.params()[1]
    for n in nexts:
        guarded = False
        for anc in ancestors(n):
            if isinstance(anc, ast.While) and idx in norm(anc.test) and \
                    f'len(self.{data_attr})' in norm(anc.test) and \
                    '>=' in norm(anc.test):
                guarded = True
            if isinstance(anc, ast.FunctionDef):
                break
        r.instance(gi.where, n, 'guarded by index test' if guarded
                   else 'UNGUARDED')
        if not guarded:
            r.finding(gi.where, n, 'next() is not guarded by `index >= '
                      'len(data)`: elements beyond the requested index are '
                      'pulled', node=n, ctx=gi)
    if not nexts and not r.findings:
        raise AnalysisError('SequenceFromIter.__getitem__: next() not found')
    if not nexts:
        return r
    # appended exactly once per pull
    apps = [n for n in own_nodes(gi.node) if isinstance(n, ast.Call)
            and isinstance(n.func, ast.Attribute)
            and n.func.attr == 'append']
    if len(apps) != len(nexts):
        r.finding(gi.where, 'data.append(next(it))', 'pulled elements are '
                  'not stored exactly once', node=gi.node, ctx=gi)
    # negative index rejected before any pull
    first = gi.node.body[0]
    if isinstance(first, ast.Expr) and isinstance(first.value, ast.Constant):
        first = gi.node.body[1]
    neg_ok = isinstance(first, ast.If) and f'{idx} < 0' in norm(first.test) \
        and any(isinstance(x, ast.Raise) for x in first.body)
    r.instance(gi.where, f'if {norm(first.test)}' if isinstance(
        first, ast.If) else norm(first), 'negative index refusal')
    if not neg_ok:
        r.finding(gi.where, 'negative index test', 'negative indexes are '
                  'not rejected before pulling (a[-1] would exhaust an '
                  'unbounded iterator)', node=gi.node, ctx=gi)
    # nobody else calls next() on anything derived from the wrapper
    ens = model.func('DT_Util', 'sequence_ensure_subscription')
    r.instance(ens.where, ens.node.body[-1], 'lazy wrap')
    obj = ens.params()[0]

    def lazy_iter(e, depth=0):
        # iter(obj), possibly through a local
        if isinstance(e, ast.Call) and isinstance(e.func, ast.Name) and \
                e.func.id == 'iter' and len(e.args) == 1 and \
                norm(e.args[0]) == obj:
            return True
        if isinstance(e, ast.Name) and depth < 2:
            ds = model.local_defs(ens, e.id)
            return bool(ds) and all(isinstance(d, ast.AST) and
                                    lazy_iter(d, depth + 1) for d in ds)
        return False
    wrapped = any(
        isinstance(c, ast.Call) and any(
            x.endswith(':SequenceFromIter')
            for x in model.callee_names(c, ens)) and len(c.args) == 1 and
        lazy_iter(c.args[0]) for c in own_nodes(ens.node))
    # ... and nothing else is handed back: the object itself when it can
    # be subscripted, the lazy wrapper otherwise -- a return that builds a
    # list / tuple from the iterable pulls it to the end
    for x in own_nodes(ens.node):
        if not (isinstance(x, ast.Return) and x.value is not None):
            continue
        v = x.value
        vals = [v]
        if isinstance(v, ast.Name) and v.id != obj:
            vals = [d for d in model.local_defs(ens, v.id)
                    if isinstance(d, ast.AST)] or [v]
        for w in vals:
            ok_r = norm(w) == obj or (isinstance(w, ast.Call) and any(
                y.endswith(':SequenceFromIter')
                for y in model.callee_names(w, ens)) and len(w.args) == 1
                and lazy_iter(w.args[0]))
            r.instance(ens.where, x, 'the object / the lazy wrapper'
                       if ok_r else 'SOMETHING ELSE')
            if not ok_r:
                r.finding(ens.where, x, f'`{norm(w)}` is handed back instead '
                          'of the object itself or the lazy wrapper: an '
                          'iterable that is materialised here is pulled to '
                          'its end before the first batch is shown',
                          node=x, ctx=ens)
    # the buffer of the lazy wrapper is handed out by the element reader
    # only (after pulling up to the index asked for): no other method reads
    # `self.data`, and no code anywhere materialises an object it has just
    # recognised as the wrapper
    W = model.cls('DT_Util', 'SequenceFromIter')
    for mname, m_ in W.methods.items():
        if mname in ('__init__', '__getitem__', '__len__'):
            continue
        for x in own_nodes(m_.node):
            if isinstance(x, ast.Attribute) and x.attr == 'data' and \
                    norm(x.value) == 'self' and isinstance(x.ctx, ast.Load):
                r.instance(m_.where, x, 'BUFFER READ OUTSIDE THE READER')
                r.finding(m_.where, x, f'{mname}() reads the buffer of the '
                          'lazy wrapper directly: it sees only the elements '
                          'pulled so far (statistics, sorting and '
                          'iteration over a batched iterator cover the '
                          'first batch only)', node=x, ctx=m_)
    for f in model.all_funcs():
        if f.cls is W:
            continue
        tested = set()
        for x in own_nodes(f.node):
            if isinstance(x, ast.Call) and norm(x.func) == 'isinstance' \
                    and len(x.args) == 2 and \
                    'SequenceFromIter' in norm(x.args[1]) and \
                    isinstance(x.args[0], ast.Name):
                tested.add(x.args[0].id)
        for x in own_nodes(f.node):
            if tested and isinstance(x, ast.Call) and isinstance(
                    x.func, ast.Name) and x.func.id in (
                    'list', 'tuple', 'sorted', 'len', 'set') and x.args \
                    and isinstance(x.args[0], ast.Name) and \
                    x.args[0].id in tested:
                r.instance(f.where, x, 'WRAPPER MATERIALISED')
                r.finding(f.where, x, f'`{norm(x)}` on an object just '
                          'recognised as the lazy wrapper pulls the '
                          'wrapped iterator to its end (and never returns '
                          'for an unbounded one)', node=x, ctx=f)
    if not wrapped:
        r.finding(ens.where, ens.node.body[-1], 'non-subscriptable '
                  'iterables are not wrapped lazily', node=ens.node,
                  ctx=ens)
    return r


def _inl(rule):
    """Run a rule on the view in which helpers that are new w.r.t. the
    reference tree are inlined at their call sites (normalise.N2)."""
    def run(model):
        return rule(model.inlined_view())
    run.__name__ = rule.__name__
    return run


RULES = [_inl(rule_effects), _inl(rule_puller)]
EXPLANATION = (
    'Effect classification of every use of the sequence value in the '
    'functions of the batch path (forcing vs. indexing vs. passing on to an '
    'analysed function), with len() admitted only in the handler of a '
    'failed single-subscript probe; ownership query for the wrapped '
    'iterator.')
ASSUMPTIONS = ['the numeric look-ahead bound is decided for opt() only '
               '(R3); what a user sequence pulls inside its own '
               '__getitem__ is not modelled',
               'the features the property excepts (sort, reverse, length, '
               'statistics, next-batches, unbatched rendering) may force']
TRUSTED = ['python ast']


# ------------------------------------------------------------------ R3
# the numeric look-ahead bound of the window computation itself
from ..zone import Zone as _Zone          # noqa: E402
from ..zone import lin as _lin            # noqa: E402
from ..zone import sub as _sub            # noqa: E402
from . import c11 as _c11                 # noqa: E402


class _PullDomain(_c11._WindowDomain):
    """Window computation with a ghost variable N = (number of elements
    pulled from a lazy sequence so far) - orphan.  A probe sequence[i] that
    succeeds has pulled i+1 elements, one that fails -- and len() -- has
    pulled all L of them."""

    def __init__(self, fi, seqname, names, orphan):
        super().__init__(fi, seqname, names)
        self.orphan = orphan

    def _raise_n(self, st, cand):
        """states after N := max(N, cand)"""
        outs = []
        keep = st.assume_le0(_sub(cand, {'N': 1}))      # cand <= N
        if not keep.bottom:
            outs.append(keep)
        grow = st.assume_le0(_sub({'N': 1, '': 1}, cand))  # N + 1 <= cand
        if not grow.bottom:
            g2 = grow.assign('N', cand)
            g2.decisions = getattr(grow, 'decisions', ())
            outs.append(g2)
        return outs

    def simple(self, stmt, st):
        idx = self._probe(stmt)
        if idx is not None:
            f = _lin(idx, self.rename)
            if f is None:
                h = st.copy()
                h.havoc = True
                return [_Outcome(_NORMAL, h),
                        _Outcome(_RAISE, h, 'IndexError', stmt)]
            outs = []
            for o in super().simple(stmt, st):
                if o.kind == _NORMAL:
                    cand = dict(f)
                    cand[''] = cand.get('', 0) + 1
                    cand = _sub(cand, {self.orphan: 1})
                    for s2 in self._raise_n(o.state, cand):
                        outs.append(_Outcome(_NORMAL, s2))
                else:
                    for s2 in self._raise_n(o.state,
                                            {'L': 1, self.orphan: -1}):
                        outs.append(_Outcome(_RAISE, s2, o.exc, o.node))
            return outs
        uses_len = any(isinstance(c, ast.Call) and norm(c.func) == 'len' and
                       c.args and norm(c.args[0]) == self.seq
                       for c in ast.walk(stmt))
        outs = super().simple(stmt, st)
        if not uses_len:
            return outs
        res = []
        for o in outs:
            for s2 in self._raise_n(o.state, {'L': 1, self.orphan: -1}):
                res.append(_Outcome(o.kind, s2, o.exc, o.node))
        return res


def rule_lookahead(model):
    r = RuleResult('C12.R3', 'the window computation pulls at most the end '
                   'of the window it returns plus one look-ahead batch: on '
                   'every path, elements pulled <= end + size + orphan '
                   '(zone abstract interpretation with a ghost counter; a '
                   'successful probe sequence[i] pulls i+1 elements, a '
                   'failed one and len() pull the whole sequence)')
    fi = model.func('DT_InSV', 'opt')
    ps = fi.params()
    if len(ps) != 5:
        raise AnalysisError('opt: unexpected signature')
    seq, orphan = ps[4], ps[3]
    names = set(ps[:4])
    for n in own_nodes(fi.node):
        if isinstance(n, ast.Name) and isinstance(n.ctx, ast.Store):
            names.add(n.id)
    names.discard(seq)
    vars_ = [''] + sorted(names) + ['L', 'N']
    z = _Zone(vars_)
    z.add('', 'L', -1)            # non-empty sequence
    z.add('', orphan, 0)          # orphan >= 0
    z.add('N', '', 0)             # nothing pulled yet: N = -orphan <= 0
    z.decisions = ()
    dom = _PullDomain(fi, seq, names, orphan)
    it = _Interp(dom, max_states=400000)
    it.run(fi.node, z)
    if it.overflow:
        raise AnalysisError('C12.R3: state budget exceeded')
    if not dom.returns:
        raise AnalysisError('opt: no return reached')
    n_paths = 0
    failing = []
    undecided = []
    seen = set()
    for node, st in dom.returns:
        if st.bottom:
            continue
        v = node.value
        if not (isinstance(v, ast.Tuple) and len(v.elts) == 3):
            raise AnalysisError('opt: return value is not a 3-tuple')
        R = [_lin(e, dom.rename) for e in v.elts]
        if any(x is None for x in R):
            raise AnalysisError('opt: non-linear return value')
        dec = getattr(st, 'decisions', ())
        path = ' & '.join((t if b else f'not ({t})') for t, b in dec)
        if (path, st.key()) in seen:
            continue
        seen.add((path, st.key()))
        n_paths += 1
        # N <= end + size   (N = pulled - orphan)
        form = _sub(_sub({'N': 1}, R[1]), R[2])
        ok = st.entails_le0(form)
        r.instance(fi.where, f'path: {path}'[:150],
                   'pulled <= end+size+orphan' if ok else 'NOT ESTABLISHED')
        if not ok:
            (undecided if st.havoc else failing).append((path, node, st))
    if failing:
        path, node, st = failing[0]
        r.finding(fi.where, 'pulled <= end + size + orphan',
                  f'on {len(failing)} path(s), e.g. [{path}], the window '
                  'computation may pull more elements from a lazy sequence '
                  'than the end of the returned window plus one look-ahead '
                  'batch (size + orphan)', node=node, ctx=fi,
                  path=st.trace)
    elif undecided:
        raise AnalysisError('C12.R3: look-ahead bound undecided after an '
                            f'un-modelled update ({undecided[0][0][:80]})')
    r.stats = {'paths': n_paths}
    if n_paths < 4:
        raise AnalysisError(f'C12.R3: only {n_paths} return paths analysed')
    r.floor = 4
    return r


RULES = RULES + [_inl(rule_lookahead)]


def rule_step_size(model):
    r = RuleResult('C12.R4', 'the batch size the window computation hands '
                   'back (the caller uses it for the look-ahead batch) is '
                   'the requested size: it is re-assigned only where no '
                   'usable size was given (size < 1)')
    fi = model.func('DT_InSV', 'opt')
    ps = fi.params()
    if len(ps) < 3:
        raise AnalysisError('opt: signature changed')
    size = ps[2]
    # the returned third component must be the size parameter
    nret = 0
    for x in own_nodes(fi.node):
        if isinstance(x, ast.Return) and isinstance(x.value, ast.Tuple) \
                and len(x.value.elts) == 3:
            nret += 1
            e = x.value.elts[2]
            ok = isinstance(e, ast.Name) and e.id == size
            r.instance(fi.where, x, 'returns the size parameter' if ok
                       else 'RETURNS ANOTHER SIZE')
            if not ok:
                r.finding(fi.where, x, 'the window computation returns '
                          f'`{norm(e)}` as batch size instead of the size '
                          'it was given: the look-ahead batch pulled from '
                          'a lazy sequence is no longer size + orphan',
                          node=x, ctx=fi)
    if nret < 1:
        raise AnalysisError('opt: no (start, end, size) return found')
    for x in own_nodes(fi.node):
        tg = []
        if isinstance(x, ast.Assign):
            tg = x.targets
        elif isinstance(x, (ast.AugAssign, ast.AnnAssign)):
            tg = [x.target]
        if not any(isinstance(y, ast.Name) and y.id == size
                   for t in tg for y in ast.walk(t)):
            continue
        guarded = False
        node = x
        for anc in ancestors(x):
            if isinstance(anc, ast.If) and node in anc.body and \
                    norm(anc.test) in (f'{size} < 1', f'{size} <= 0',
                                       f'not {size}', f'{size} is None',
                                       f'1 > {size}', f'0 >= {size}'):
                guarded = True
            if isinstance(anc, (ast.FunctionDef, ast.Lambda)):
                break
            node = anc
        r.instance(fi.where, x, 'default for a missing size' if guarded
                   else 'SIZE CHANGED')
        if not guarded:
            r.finding(fi.where, x, 'the batch size is re-assigned although '
                      'a size was given: the caller computes the look-ahead '
                      'batch with the returned size, so more than '
                      'size + orphan further elements of a lazy sequence '
                      'are pulled', node=x, ctx=fi)
    return r


RULES = RULES + [_inl(rule_step_size)]
