"""C20 -- tree state codec (narrow structural clauses).

R1 mirror: the decoder undoes the encoder's stages in reverse order
R2 chunk constants: encoder chunk a and decoder chunk b satisfy 4a = 3b
R3 the two encoder siblings agree on chunking, padding strip and
   translation
R4 observation only (no obligation): definite-empty range() loops
"""
import ast

from ..core import AnalysisError
from ..core import RuleResult
from ..core import norm
from ..flow import NORMAL
from ..flow import RETURN
from ..flow import BaseState
from ..flow import Domain
from ..flow import Interp
from ..linear import canon
from ..model import own_nodes

ENC_STAGES = ['json.dumps', 'compress', 'b2a_base64', 'strip=', 'tplus',
              'ascii-decode']
DEC_STAGES = ['ascii-encode', 'tminus', 'pad=', 'a2b_base64', 'decompress',
              'json.loads']
INVERSE = {'json.dumps': 'json.loads', 'compress': 'decompress',
           'b2a_base64': 'a2b_base64', 'strip=': 'pad=', 'tplus': 'tminus',
           'ascii-decode': 'ascii-encode'}


PRIMITIVES = ('compress', 'decompress')


def _helper_of(model, fi, call):
    """Same-module plain function a call resolves to (not a codec
    primitive): its stages / constants belong to the caller's pipeline."""
    if model is None or not isinstance(call.func, ast.Name) or \
            call.func.id in PRIMITIVES:
        return None
    tg = model.resolve_callee(call.func, fi)
    if len(tg) == 1 and tg[0][0] == 'func' and \
            tg[0][1].module is fi.module and tg[0][1] is not fi:
        return tg[0][1]
    return None


def _events(fi, model=None, depth=0):
    """Codec stage events of a function in evaluation order (statements in
    source order, the operands of an expression before the operation);
    calls of same-module helpers are replaced by the helper's own
    events."""
    out = []

    def event(n):
        if isinstance(n, ast.Call):
            f = norm(n.func)
            if f in ('json.dumps', 'json.loads', 'compress', 'decompress',
                     'b2a_base64', 'a2b_base64'):
                return [f]
            if f.endswith('.translate') and n.args:
                return [norm(n.args[0])]
            if f.endswith('.decode') and n.args and \
                    norm(n.args[0]).lower() in ("'ascii'",):
                return ['ascii-decode']
            if f.endswith('.encode') and n.args and \
                    norm(n.args[0]).lower() in ("'ascii'",):
                return ['ascii-encode']
            if f.endswith('.find') and n.args and \
                    norm(n.args[0]) == "b'='":
                return ['strip=']
            if depth < 3:
                h = _helper_of(model, fi, n)
                if h is not None:
                    return _events(h, model, depth + 1)
        elif isinstance(n, ast.BinOp) and isinstance(n.op, ast.Add) and \
                "b'='" in norm(n.right):
            return ['pad=']
        elif isinstance(n, ast.AugAssign) and isinstance(n.op, ast.Add) and \
                "b'='" in norm(n.value):
            return ['pad=']
        return []

    def visit(n):
        if isinstance(n, (ast.FunctionDef, ast.AsyncFunctionDef, ast.Lambda,
                          ast.ClassDef)) and n is not fi.node:
            return
        for c in ast.iter_child_nodes(n):
            visit(c)
        out.extend(event(n))
    for st in fi.node.body:
        visit(st)
    return out


def _stages(fi, model=None):
    """Ordered list of codec stages a function applies, ordered by the LAST
    occurrence of each stage (both branches of the chunking `if` end with
    the same tail)."""
    last = {}
    for i, s in enumerate(_events(fi, model)):
        last[s] = i
    return [s for s, _ in sorted(last.items(), key=lambda kv: kv[1])]


def rule_mirror(model):
    r = RuleResult('C20.R1', 'decode_seq undoes the stages of encode_seq in '
                   'reverse order; the translation tables swap the same '
                   'two characters; compress/decompress agree on the text '
                   'encoding')
    enc = model.func('TreeTag', 'encode_seq')
    dec = model.func('TreeTag', 'decode_seq')
    se, sd = _stages(enc, model), _stages(dec, model)
    r.instance(enc.where, ' -> '.join(se))
    r.instance(dec.where, ' -> '.join(sd))
    want = [INVERSE.get(s, '?' + s) for s in reversed(se)]
    if len(se) < 3 or len(sd) < 3:
        raise AnalysisError(f'codec stages not recognised ({se} / {sd})')
    if sd != want:
        r.finding(dec.where, ' -> '.join(sd), 'the decoder is not the '
                  'mirror image of the encoder (expected '
                  + ' -> '.join(want) + '): an encoded state does not '
                  'decode to itself', node=dec.node, ctx=dec)
    # translation tables
    m = model.module('TreeTag')
    tp, tm = m.globals.get('tplus'), m.globals.get('tminus')
    if not tp or not tm:
        raise AnalysisError('tplus/tminus not found')
    from .. import constfold
    try:
        vp = constfold.fold(tp[-1], m.globals)
        vm = constfold.fold(tm[-1], m.globals)
    except constfold.NotConstant as exc:
        raise AnalysisError(f'tplus/tminus are not constant tables ({exc})')
    if not (isinstance(vp, (bytes, bytearray)) and len(vp) == 256 and
            isinstance(vm, (bytes, bytearray)) and len(vm) == 256):
        raise AnalysisError('tplus/tminus are not 256-byte tables')
    alphabet = (b'ABCDEFGHIJKLMNOPQRSTUVWXYZabcdefghijklmnopqrstuvwxyz'
                b'0123456789+/=')
    changed_p = {chr(i): chr(vp[i]) for i in range(256) if vp[i] != i}
    changed_m = {chr(i): chr(vm[i]) for i in range(256) if vm[i] != i}
    r.instance('TreeTag:<module>', f'tplus rewrites {changed_p}')
    r.instance('TreeTag:<module>', f'tminus rewrites {changed_m}')
    broken = [chr(c) for c in alphabet if vm[vp[c]] != c]
    if broken or vp[ord('+')] == ord('+'):
        r.finding('TreeTag:<module>', f'tplus {changed_p} / tminus '
                  f'{changed_m}', 'the two '
                  'translation tables are not inverse to each other'
                  + (f' (characters {broken} of the base64 alphabet do not '
                     'survive)' if broken else " ('+' is left as it is)"),
                  ctx=m)
    co = model.func('TreeTag', 'compress')
    de = model.func('TreeTag', 'decompress')
    ce = [norm(n.args[0]) for n in own_nodes(co.node)
          if isinstance(n, ast.Call) and norm(n.func).endswith('.encode')
          and n.args]
    dd = [norm(n.args[0]) for n in own_nodes(de.node)
          if isinstance(n, ast.Call) and norm(n.func).endswith('.decode')
          and n.args]
    r.instance(co.where, f'encode {ce} / decode {dd}')
    if not ce or ce != dd:
        r.finding(de.where, f'{ce} vs {dd}', 'compress and decompress use '
                  'different text encodings', node=de.node, ctx=de)
    zc = any(norm(n.func) == 'zlib.compress' for n in own_nodes(co.node)
             if isinstance(n, ast.Call))
    zd = any(norm(n.func) == 'zlib.decompress' for n in own_nodes(de.node)
             if isinstance(n, ast.Call))
    if not (zc and zd):
        r.finding(de.where, 'zlib', 'compress/decompress are not the zlib '
                  'pair', node=de.node, ctx=de)
    return r


def _chunk_consts(fi, model=None, depth=0):
    out = set()
    for n in own_nodes(fi.node):
        if isinstance(n, ast.Call) and depth < 3:
            h = _helper_of(model, fi, n)
            if h is not None:
                out |= _chunk_consts(h, model, depth + 1)
        if isinstance(n, ast.Compare) and len(n.ops) == 1 and \
                isinstance(n.ops[0], ast.Gt) and \
                isinstance(n.comparators[0], ast.Constant):
            out.add(n.comparators[0].value)
        if isinstance(n, ast.Call) and norm(n.func) == 'range' and \
                len(n.args) == 3 and isinstance(n.args[2], ast.Constant):
            out.add(n.args[2].value)
        if isinstance(n, ast.BinOp) and isinstance(n.op, (ast.Add,
                                                         ast.FloorDiv)) and \
                isinstance(n.right, ast.Constant) and \
                isinstance(n.right.value, int) and n.right.value > 8:
            out.add(n.right.value)
    return out


def rule_chunks(model):
    r = RuleResult('C20.R2', 'base64 chunking: encoder chunk a and decoder '
                   'chunk b satisfy 4a = 3b everywhere')
    consts = {}
    for name in ('encode_seq', 'encode_str', 'decode_seq'):
        fi = model.func('TreeTag', name)
        consts[name] = _chunk_consts(fi, model)
        r.instance(fi.where, f'chunk constants {sorted(consts[name])}')
        if len(consts[name]) != 1:
            r.finding(fi.where, f'constants {sorted(consts[name])}',
                      'the chunk size is not used consistently inside the '
                      'function (threshold / step / slice width differ)',
                      node=fi.node, ctx=fi)
    ea = consts['encode_seq'] | consts['encode_str']
    db = consts['decode_seq']
    if len(ea) == 1 and len(db) == 1:
        a, b = next(iter(ea)), next(iter(db))
        if 4 * a != 3 * b:
            r.finding('TreeTag:decode_seq', f'{a} vs {b}', f'encoder chunks '
                      f'of {a} bytes become {4 * a // 3} characters, the '
                      f'decoder cuts every {b}: states longer than one '
                      'chunk do not survive', ctx=model.module('TreeTag'))
    elif len(ea) > 1:
        r.finding('TreeTag:encode_str', f'{sorted(ea)}', 'the two encoders '
                  'use different chunk sizes', ctx=model.module('TreeTag'))
    return r


def rule_encoder_twins(model):
    r = RuleResult('C20.R3', 'encode_seq and encode_str agree on chunking, '
                   'padding strip and translation')
    a = model.func('TreeTag', 'encode_seq')
    b = model.func('TreeTag', 'encode_str')

    def core(fi, depth=0):
        out = []
        for st in fi.node.body:
            s = norm(st)
            if isinstance(st, ast.Expr) and isinstance(st.value,
                                                       ast.Constant):
                continue
            # the chunk/strip/translate part moved into a shared helper:
            # the helper's body is the core
            if depth < 2:
                hs = [h for c in ast.walk(st) if isinstance(c, ast.Call)
                      for h in [_helper_of(model, fi, c)] if h is not None]
                if hs:
                    out.extend(core(hs[0], depth + 1))
                    continue
            if 'compress(json.dumps' in s or 'isinstance(state, bytes)' in s \
                    or ".decode('ascii')" in s or s == 'return state':
                continue
            if isinstance(st, ast.Return) and st.value is not None:
                st = ast.Assign(targets=[ast.Name(id='state',
                                                  ctx=ast.Store())],
                                value=st.value, lineno=st.lineno)
            out.append(st)
        return out
    ca, cb = core(a), core(b)
    r.instance(a.where, ' ; '.join(norm(s) for s in ca)[:160])
    r.instance(b.where, ' ; '.join(norm(s) for s in cb)[:160])
    if canon(ca) != canon(cb):
        r.finding(b.where, 'encoder body', 'encode_str (used for the '
                  'expand/collapse links) and encode_seq (used for the '
                  'cookie) chunk / strip / translate differently: one of '
                  'them produces text decode_seq cannot read', node=b.node,
                  ctx=b)
    return r


def rule_cleanup_loop(model):
    r = RuleResult('C20.R4', 'loops meant to walk a list backwards while '
                   'deleting really iterate')
    n = 0
    for fi in model.module('TreeTag').funcs.values():
        for lp in own_nodes(fi.node):
            if isinstance(lp, ast.For) and isinstance(lp.iter, ast.Call) and \
                    norm(lp.iter.func) == 'range' and \
                    len(lp.iter.args) == 2:
                a0, a1 = lp.iter.args
                s0, s1 = norm(a0), norm(a1)
                dels = any(isinstance(x, ast.Delete) for x in ast.walk(lp))
                if s1 == '-1' and ('len(' in s0):
                    n += 1
                    # observation only: with an unchanging tree (the
                    # property's quantifier) no child vanishes, so the dead
                    # clean-up loop does not break C20
                    r.instance(fi.where, f'for {norm(lp.target)} in '
                               f'{norm(lp.iter)}', 'observation: always '
                               'empty range (missing step -1); not a '
                               'violation of C20 for unchanging trees')
    r.instance('TreeTag:<module>', 'range() loops scanned')
    # a LIVE pruning loop (someone repaired the range) may delete only from
    # the node's own child list: on every path to a `del X[i]` inside a
    # backwards loop, X was bound to the own sub-state (sub[1]) -- not the
    # list received as parameter, which is the parent's list when the node
    # has no children to iterate over
    wr = model.func('TreeTag', 'tpRenderTABLE')
    from ..model import ancestors

    def _in_backward_loop(stmt):
        for a in ancestors(stmt):
            if isinstance(a, ast.For):
                it = a.iter
                if (isinstance(it, ast.Call) and
                        norm(it.func) == 'reversed') or (
                        isinstance(it, ast.Call) and
                        norm(it.func) == 'range' and len(it.args) == 3 and
                        norm(it.args[2]).startswith('-')):
                    return any(isinstance(t, ast.Subscript) and
                               norm(t.slice) == norm(a.target)
                               for t in stmt.targets)
        return False

    class _O(BaseState):
        def __init__(self, env=None):
            self.env = dict(env or {})

        def key(self):
            return tuple(sorted(self.env.items()))

        def copy(self):
            n_ = _O(self.env)
            n_.trace = self.trace
            return n_

    class _D(Domain):
        def __init__(self):
            self.sites = []
            self.live = 0

        def raises(self, node, st):
            return []

        def effects(self, stmt, st):
            if isinstance(stmt, ast.Assign) and len(stmt.targets) == 1 and \
                    isinstance(stmt.targets[0], ast.Name):
                v = norm(stmt.value)
                st = st.copy()
                st.env[stmt.targets[0].id] = 'own' if (
                    v.endswith('[1]') and isinstance(stmt.value,
                                                     ast.Subscript)) \
                    else 'other'
            if isinstance(stmt, ast.Delete) and _in_backward_loop(stmt):
                for t in stmt.targets:
                    if isinstance(t, ast.Subscript) and \
                            isinstance(t.value, ast.Name):
                        self.sites.append((stmt, t.value.id, st.env.get(
                            t.value.id, 'param')))
            return st
    dom = _D()
    start = _O({p: 'param' for p in wr.params()})
    Interp(dom).run(wr.node, start)
    seen = set()
    for node, var, origin in dom.sites:
        if (id(node), origin) in seen:
            continue
        seen.add((id(node), origin))
        r.instance(wr.where, node, f'live pruning of `{var}` ({origin})')
        if origin == 'param':
            r.finding(wr.where, node, f'the pruning loop deletes from '
                      f'`{var}`, which on this path is still the list '
                      'received from the caller (the node has no children '
                      'to iterate over): the expansion state of the '
                      'node\'s SIBLINGS is deleted', node=node, ctx=wr)
    return r


HOLE = '\x00'


class _LinkState(BaseState):
    def __init__(self, env=None):
        self.env = dict(env or {})

    def key(self):
        return tuple(sorted(self.env.items()))

    def copy(self):
        n = _LinkState(self.env)
        n.trace = self.trace
        return n


class _LinkDomain(Domain):
    """Partial evaluation of string building: a value is a str in which
    the character HOLE stands for run-time text.  The flag `flagvar` (is
    the node currently expanded?) is fixed per run."""

    model = None     # set by the rule: module constants are folded
    fi = None

    def __init__(self, flagvar, flag):
        self.flagvar = flagvar
        self.flag = flag
        self.texts = set()

    def truth(self, e):
        if isinstance(e, ast.UnaryOp) and isinstance(e.op, ast.Not):
            v = self.truth(e.operand)
            return None if v is None else not v
        if isinstance(e, ast.Name) and e.id == self.flagvar:
            return self.flag
        return None

    def branch(self, test, st):
        self.note(test, st)
        v = self.truth(test)
        if v is None:
            return [(True, st), (False, st)]
        return [(v, st)]

    def ev(self, e, st):
        if isinstance(e, ast.Constant):
            return e.value if isinstance(e.value, str) else HOLE
        if isinstance(e, ast.Name):
            if e.id in st.env:
                return st.env[e.id]
            if self.model is not None and self.fi is not None and \
                    not self.model.local_defs(self.fi, e.id):
                # a module-level string constant (link format, icon)
                ok, v = self.model.fold(e, self.fi)
                if ok and isinstance(v, str):
                    return v
            return HOLE
        if isinstance(e, ast.IfExp):
            v = self.truth(e.test)
            if v is True:
                return self.ev(e.body, st)
            if v is False:
                return self.ev(e.orelse, st)
            a, b = self.ev(e.body, st), self.ev(e.orelse, st)
            return a if a == b else HOLE
        if isinstance(e, ast.BoolOp):
            vals = [self.ev(v, st) for v in e.values]
            return vals[0] if len(set(vals)) == 1 else HOLE
        if isinstance(e, ast.BinOp) and isinstance(e.op, ast.Add):
            return self.ev(e.left, st) + self.ev(e.right, st)
        if isinstance(e, ast.BinOp) and isinstance(e.op, ast.Mod):
            t = self.ev(e.left, st)
            args = e.right.elts if isinstance(e.right, ast.Tuple) \
                else [e.right]
            vals = [self.ev(a, st) for a in args]
            out, i, n = '', 0, 0
            while i < len(t):
                if t[i] == '%' and i + 1 < len(t):
                    if t[i + 1] == '%':
                        out += '%'
                    elif t[i + 1] == '(':
                        j = t.find(')', i)
                        out += HOLE
                        i = (j + 1) if j > 0 else i + 1
                    else:
                        out += vals[n] if n < len(vals) else HOLE
                        n += 1
                    i += 2
                else:
                    out += t[i]
                    i += 1
            return out
        if isinstance(e, ast.JoinedStr):
            out = ''
            for v in e.values:
                out += v.value if isinstance(v, ast.Constant) \
                    else self.ev(v.value, st)
            return out
        if isinstance(e, ast.Call) and isinstance(e.func, ast.Attribute) \
                and e.func.attr == 'format':
            t = self.ev(e.func.value, st)
            vals = [self.ev(a, st) for a in e.args]
            kw = {k.arg: self.ev(k.value, st) for k in e.keywords if k.arg}
            out, n = '', 0
            import re as _re
            pos = 0
            for mm in _re.finditer(r'\{([^{}]*)\}', t):
                out += t[pos:mm.start()]
                name = mm.group(1).split(':')[0].split('!')[0]
                if name == '':
                    out += vals[n] if n < len(vals) else HOLE
                    n += 1
                elif name.isdigit():
                    out += vals[int(name)] if int(name) < len(vals) \
                        else HOLE
                else:
                    out += kw.get(name, HOLE)
                pos = mm.end()
            return out + t[pos:]
        if isinstance(e, ast.Call) and isinstance(e.func, ast.Attribute) \
                and e.func.attr == 'join' and len(e.args) == 1 and \
                isinstance(e.args[0], (ast.Tuple, ast.List)):
            sep = self.ev(e.func.value, st)
            return sep.join(self.ev(x, st) for x in e.args[0].elts)
        return HOLE

    def note(self, node, st):
        for c in ast.walk(node):
            if isinstance(c, (ast.BinOp, ast.JoinedStr, ast.Call,
                              ast.Constant, ast.Name)):
                t = self.ev(c, st)
                if 'tree-' in t:
                    self.texts.add(t)

    def raises(self, node, st):
        return []

    def effects(self, stmt, st):
        self.note(stmt, st)
        if isinstance(stmt, ast.Assign) and len(stmt.targets) == 1 and \
                isinstance(stmt.targets[0], ast.Name):
            v = self.ev(stmt.value, st)
            st = st.copy()
            if v == HOLE:
                st.env.pop(stmt.targets[0].id, None)
            else:
                st.env[stmt.targets[0].id] = v
        elif isinstance(stmt, ast.Assign):
            st0 = st
            st = st.copy()
            for t in stmt.targets:
                if isinstance(t, (ast.Tuple, ast.List)) and isinstance(
                        stmt.value, (ast.Tuple, ast.List)) and \
                        len(t.elts) == len(stmt.value.elts):
                    for a, b in zip(t.elts, stmt.value.elts):
                        if isinstance(a, ast.Name):
                            v = self.ev(b, st0)
                            if v == HOLE:
                                st.env.pop(a.id, None)
                            else:
                                st.env[a.id] = v
                    continue
                for x in ast.walk(t):
                    if isinstance(x, ast.Name) and isinstance(
                            x.ctx, ast.Store):
                        st.env.pop(x.id, None)
        elif isinstance(stmt, ast.AugAssign) and isinstance(
                stmt.target, ast.Name):
            st = st.copy()
            st.env.pop(stmt.target.id, None)
        return st

    def for_target(self, node, st):
        ns = st.copy()
        for x in ast.walk(node.target):
            if isinstance(x, ast.Name):
                ns.env.pop(x.id, None)
        return ns


def _call_chain(model, fi, e, names, depth=0):
    """e is names[0](names[1](...names[-1](<anything>))), each stage
    possibly held in a local of fi that is bound once."""
    if not names:
        return True
    if isinstance(e, ast.Name) and depth < 6:
        ds = model.local_defs(fi, e.id)
        return len(ds) == 1 and isinstance(ds[0], ast.AST) and \
            _call_chain(model, fi, ds[0], names, depth + 1)
    return isinstance(e, ast.Call) and \
        norm(e.func).split('.')[-1] == names[0].split('.')[-1] and \
        len(e.args) >= 1 and _call_chain(model, fi, e.args[0], names[1:],
                                         depth + 1)


def rule_link_agreement(model):
    r = RuleResult('C20.R5', 'the request parameters the tag writes into '
                   'its links / cookie are the ones it reads back, with the '
                   'same meaning (expand vs collapse)')
    rd = model.func('TreeTag', 'tpRender')
    wr = model.func('TreeTag', 'tpRenderTABLE')
    # reader: md['tree-X'] decoded and applied with expand flag
    read = {}
    readers = [rd] + [f for f in model.module('TreeTag').funcs.values()
                      if f is not rd]
    for rfi in readers:
        for n in own_nodes(rfi.node):
            if isinstance(n, ast.If) and isinstance(n.test, ast.Compare) \
                    and isinstance(n.test.left, ast.Constant) and \
                    isinstance(n.test.left.value, str) and \
                    n.test.left.value.startswith('tree-'):
                key = n.test.left.value
                for c in ast.walk(n):
                    if isinstance(c, ast.Call) and \
                            norm(c.func) == 'apply_diff' \
                            and len(c.args) == 3 and \
                            isinstance(c.args[2], ast.Constant):
                        if key in read:
                            continue
                        read[key] = bool(c.args[2].value)
                        # the diff applied is the one decoded from this key
                        dec = c.args[1]
                        if isinstance(dec, ast.Name):
                            ds = [d for d in model.local_defs(rfi, dec.id)
                                  if isinstance(d, ast.AST) and any(
                                      x is d for x in ast.walk(n))]
                            dec = ds[0] if len(ds) == 1 else dec
                        from_key = isinstance(dec, ast.Call) and \
                            norm(dec.func).split('.')[-1] == 'decode_seq' \
                            and len(dec.args) == 1 and isinstance(
                                dec.args[0], ast.Subscript) and isinstance(
                                dec.args[0].slice, ast.Constant) and \
                            dec.args[0].slice.value == key
                        if not from_key:
                            r.finding(rfi.where, f'{key}', 'the diff '
                                      'applied is not decoded from the '
                                      'parameter tested', node=n, ctx=rfi)
    r.instance(rd.where, f'reads {read}')
    if len(read) != 2:
        raise AnalysisError(f'TreeTag: expand/collapse parameters not '
                            f'found ({read})')
    if set(read.values()) != {True, False}:
        r.finding(rd.where, f'apply_diff flags {read}', 'both click '
                  'parameters are applied with the same flag: a node can '
                  'no longer be collapsed (or expanded)', node=rd.node,
                  ctx=rd)
    # writer: link under `if exp:` (node is expanded) must be the collapse
    # parameter, the other one the expand parameter
    wrote = {}
    import re as _re
    # the links are built by string formatting; evaluate every formatted
    # string of the row renderer over partially known strings (unknown
    # parts are holes), once for an expanded and once for a collapsed node
    for expanded in (True, False):
        dom = _LinkDomain('exp', expanded)
        dom.model, dom.fi = model, wr
        Interp(dom, 200000).run(wr.node, _LinkState())
        for text in sorted(dom.texts):
            for k in _re.findall(r'(tree-[a-z])=', text):
                if k in wrote and wrote[k] != expanded:
                    wrote[k] = None          # written in both states
                else:
                    wrote.setdefault(k, expanded)
    both = sorted(k for k, v in wrote.items() if v is None)
    for k in both:
        r.finding(wr.where, f'link parameter {k}', f'{k}= is written for '
                  'expanded and for collapsed nodes alike: clicking does '
                  'not toggle the node', node=wr.node, ctx=wr)
        del wrote[k]
    r.instance(wr.where, f'writes (param -> node currently expanded) '
               f'{wrote}')
    for k, expanded in wrote.items():
        if k not in read:
            r.finding(wr.where, f'link parameter {k}', f'the tag writes '
                      f'{k}= into its links but never reads it back',
                      node=wr.node, ctx=wr)
        elif read[k] == expanded:
            r.finding(wr.where, f'link parameter {k}', 'an expanded node '
                      'carries the expand link (or a collapsed node the '
                      'collapse link): clicking does not toggle the node',
                      node=wr.node, ctx=wr)
    if len(wrote) != 2:
        r.finding(wr.where, f'link parameters {sorted(wrote)}', 'expected '
                  'exactly one expand and one collapse link form',
                  node=wr.node, ctx=wr)
    # link payload: encode_str(compress(json.dumps(diff))) -- the same
    # stages decode_seq undoes
    pay = [n for n in own_nodes(wr.node) if isinstance(n, ast.Call)
           and norm(n.func) == 'encode_str']
    for n in pay:
        r.instance(wr.where, n, 'link payload')
        if not _call_chain(model, wr, n, ['encode_str', 'compress',
                                          'dumps']):
            r.finding(wr.where, n, 'the link payload is not '
                      'encode_str(compress(json.dumps(path))), which is '
                      'what decode_seq undoes', node=n, ctx=wr)
    if not pay:
        raise AnalysisError('tpRenderTABLE: link payload not found')
    # cookie name
    cw = [n for n in own_nodes(rd.node) if isinstance(n, ast.Call)
          and norm(n.func).endswith('.setCookie') and n.args
          and isinstance(n.args[0], ast.Constant)]
    cr = [n.test.left.value for rfi in readers
          for n in own_nodes(rfi.node)
          if isinstance(n, ast.If) and isinstance(n.test, ast.Compare)
          and isinstance(n.test.left, ast.Constant)
          and n.test.left.value == 'tree-s']
    for c in cw:
        r.instance(rd.where, c, 'cookie write')
        if c.args[0].value not in cr:
            r.finding(rd.where, c, f'the state is written to cookie '
                      f'{c.args[0].value!r} but read from {cr}', node=c,
                      ctx=rd)
        carried = c.args[1]
        ok_c = False
        if isinstance(carried, ast.Call):
            ok_c = _call_chain(model, rd, carried, ['encode_seq'])
        elif isinstance(carried, ast.Name):
            # the last binding of the variable before the write is the
            # encoded state:  state = encode_seq(state)
            binds = [x for x in own_nodes(rd.node)
                     if isinstance(x, ast.Assign) and any(
                         isinstance(t, ast.Name) and t.id == carried.id
                         for t in x.targets) and x.lineno <= c.lineno]
            binds.sort(key=lambda x: x.lineno)
            ok_c = bool(binds) and isinstance(binds[-1].value, ast.Call) \
                and norm(binds[-1].value.func).split('.')[-1] == 'encode_seq'
        if not ok_c:
            r.finding(rd.where, c, 'the cookie does not carry '
                      'encode_seq(state)', node=c, ctx=rd)
    if not cw:
        raise AnalysisError('tpRender: cookie write not found')
    return r


# ------------------------------------------------------------------ R6-R8
# click-history half: three structural necessary conditions


class _Depth(BaseState):
    def __init__(self, d=0):
        self.d = d

    def key(self):
        return self.d

    def copy(self):
        n = _Depth(self.d)
        n.trace = self.trace
        return n


class _PathDomain(Domain):
    """Counts pushes / pops of the id path list (`diff`)."""

    def __init__(self, pname, fname):
        self.p = pname
        self.fname = fname
        self.at_payload = []     # depth when the link payload is built
        self.at_recursion = []   # depth at the recursive call
        self.foreign = []        # other mutations of the path list

    def _delta(self, stmt):
        d = 0
        for n in ast.walk(stmt):
            if isinstance(n, ast.Call) and isinstance(n.func, ast.Attribute) \
                    and isinstance(n.func.value, ast.Name) and \
                    n.func.value.id == self.p:
                if n.func.attr == 'append':
                    d += 1
                elif n.func.attr == 'pop' and not n.args:
                    d -= 1
                elif n.func.attr in ('extend', 'insert', 'remove', 'clear',
                                     'reverse', 'sort', 'pop'):
                    self.foreign.append(n)
            if isinstance(n, ast.Delete):
                for t in n.targets:
                    if isinstance(t, ast.Subscript) and \
                            isinstance(t.value, ast.Name) and \
                            t.value.id == self.p:
                        if norm(t.slice) == '-1':
                            d -= 1
                        else:
                            self.foreign.append(n)
            if isinstance(n, (ast.Assign, ast.AugAssign)):
                tg = n.targets if isinstance(n, ast.Assign) else [n.target]
                for t in tg:
                    if isinstance(t, ast.Name) and t.id == self.p:
                        self.foreign.append(n)
                    if isinstance(t, ast.Subscript) and \
                            isinstance(t.value, ast.Name) and \
                            t.value.id == self.p:
                        self.foreign.append(n)
        return d

    def _observe(self, node, state):
        for n in ast.walk(node):
            if isinstance(n, ast.Call):
                f = norm(n.func)
                if f == 'json.dumps' and n.args and \
                        norm(n.args[0]) == self.p:
                    self.at_payload.append((n, state.d))
                if f == self.fname:
                    self.at_recursion.append((n, state.d))

    def effects(self, stmt, state):
        if isinstance(stmt, (ast.FunctionDef, ast.ClassDef)):
            return state
        self._observe(stmt, state)
        d = self._delta(stmt)
        if d:
            state = state.copy()
            state.d = max(-3, min(3, state.d + d))
        return state

    def raises(self, node, state):
        return []

    def on_return(self, node, state):
        if node.value is not None:
            self._observe(node.value, state)
        return [], state

    def branch(self, test, state):
        self._observe(test, state)
        return [(True, state), (False, state)]


def rule_path_stack(model):
    r = RuleResult('C20.R6', 'the id path encoded into the expand/collapse '
                   'links is a stack: the row renderer appends its own id '
                   'exactly once before the link is built and before it '
                   'recurses, and removes it again on every normal exit, so '
                   'a link names precisely the path of its own node')
    wr = model.func('TreeTag', 'tpRenderTABLE')
    pay = [n for n in own_nodes(wr.node) if isinstance(n, ast.Call)
           and norm(n.func) == 'json.dumps' and n.args
           and isinstance(n.args[0], ast.Name)]
    if not pay:
        raise AnalysisError('tpRenderTABLE: path payload json.dumps(<name>) '
                            'not found')
    pname = pay[0].args[0].id
    if pname not in wr.params():
        raise AnalysisError(f'tpRenderTABLE: path list {pname!r} is not a '
                            'parameter')
    dom = _PathDomain(pname, wr.name)
    it = Interp(dom)
    outs = it.run(wr.node, _Depth(0))
    if it.overflow:
        raise AnalysisError('C20.R6: state budget exceeded')
    n_exit = 0
    for o in outs:
        if o.kind in (NORMAL, RETURN):
            n_exit += 1
            r.instance(wr.where, f'exit at line-independent path, depth '
                       f'{o.state.d:+d}', 'balanced' if o.state.d == 0
                       else 'UNBALANCED')
            if o.state.d != 0:
                r.finding(wr.where, f'{pname} depth {o.state.d:+d} at exit',
                          'a normal exit of the row renderer leaves the id '
                          'path longer or shorter than it found it: every '
                          'link rendered afterwards encodes the wrong path '
                          'and toggles another node', node=o.node or wr.node,
                          ctx=wr, path=o.state.trace)
    for n, d in dom.at_payload:
        r.instance(wr.where, n, f'payload built at depth {d:+d}')
        if d != 1:
            r.finding(wr.where, n, 'the link payload is built when the id '
                      f'path does not (exactly once) contain the node\'s own '
                      f'id (depth {d:+d})', node=n, ctx=wr)
    for n, d in dom.at_recursion:
        r.instance(wr.where, 'recursive call', f'depth {d:+d}')
        if d != 1:
            r.finding(wr.where, 'recursive call', 'children are rendered '
                      'when the id path does not contain the parent\'s id '
                      f'exactly once (depth {d:+d})', node=n, ctx=wr)
        # the same list object is handed down
        # ... positionally or by keyword, into the same parameter
        names = [norm(a) for a in n.args]
        names += [norm(k.value) for k in n.keywords if k.arg == pname]
        if pname not in names:
            r.finding(wr.where, n, 'the recursive call does not hand the '
                      'id path down', node=n, ctx=wr)
    for n in dom.foreign:
        r.finding(wr.where, n, 'the id path is mutated other than by '
                  'append / del [-1]', node=n, ctx=wr)
    if not dom.at_recursion or not n_exit:
        raise AnalysisError('C20.R6: recursion or exits not found')
    r.require_floor(3)
    return r


def _names(n):
    return {x.id for x in ast.walk(n) if isinstance(x, ast.Name)}


def rule_apply_diff(model):
    r = RuleResult('C20.R7', 'the state update walks the clicked path by '
                   'position: an id of the path is compared only with ids '
                   'stored in the state, never with another element of the '
                   'path (ids may repeat along a path), and the clicked node '
                   'is the one at which the path is exhausted')
    fi = model.func('TreeTag', 'apply_diff')
    ps = fi.params()
    if len(ps) < 3:
        raise AnalysisError('apply_diff: unexpected signature')
    state_p, path_p = ps[0], ps[1]

    def analyse(fi, path0, state0, depth=0):
        # names derived from the path / from the state (flow-insensitive
        # closure over simple assignments and loop targets)
        path_v, state_v = set(path0), set(state0)
        changed = True
        while changed:
            changed = False
            for n in own_nodes(fi.node):
                tgt = val = None
                if isinstance(n, ast.Assign) and len(n.targets) == 1:
                    tgt, val = n.targets[0], n.value
                elif isinstance(n, ast.For):
                    tgt, val = n.target, n.iter
                elif isinstance(n, ast.NamedExpr):
                    tgt, val = n.target, n.value
                if tgt is None:
                    continue
                tn = {x.id for x in ast.walk(tgt) if isinstance(x, ast.Name)
                      and isinstance(x.ctx, ast.Store)}
                vn = _names(val)
                for src, dst in ((path_v, path_v), (state_v, state_v)):
                    if vn & src and not tn <= dst:
                        # index variables of range(len(x)) are positions
                        if isinstance(val, ast.Call) and \
                                norm(val.func) in ('range', 'len', 'enumerate') \
                                and dst is path_v:
                            if norm(val.func) == 'enumerate' and \
                                    isinstance(tgt, ast.Tuple) and \
                                    len(tgt.elts) == 2 and \
                                    isinstance(tgt.elts[1], ast.Name):
                                if tgt.elts[1].id not in dst:
                                    dst.add(tgt.elts[1].id)
                                    changed = True
                            continue
                        if isinstance(val, ast.Call) and \
                                norm(val.func) in ('range', 'len') :
                            continue
                        dst |= tn
                        changed = True
        path_only = path_v - state_v
        r.instance(fi.where, f'path-derived names {sorted(path_v)}; '
                   f'state-derived names {sorted(state_v)}')
        ncmp = 0
        # comparisons inside helpers that are handed path / state values
        for c in own_nodes(fi.node):
            if not isinstance(c, ast.Call) or depth > 1:
                continue
            for t in model.resolve_callee(c.func, fi):
                if t[0] != 'func' or t[1].module is not fi.module or \
                        t[1] is fi or t[1].cls is not None:
                    continue
                hp = t[1].params()
                p0 = {hp[i] for i, a_ in enumerate(c.args) if i < len(hp)
                      and _names(a_) & path_v and not _names(a_) & state_v}
                s0 = {hp[i] for i, a_ in enumerate(c.args) if i < len(hp)
                      and _names(a_) & state_v}
                if p0 or s0:
                    ncmp += analyse(t[1], p0, s0, depth + 1)
        for n in own_nodes(fi.node):
            if isinstance(n, ast.Compare) and len(n.ops) == 1 and \
                    isinstance(n.ops[0], (ast.Eq, ast.NotEq, ast.Is, ast.IsNot)):
                l, rt = n.left, n.comparators[0]
                ln, rn = _names(l), _names(rt)
                if not (ln | rn) & path_v:
                    continue

                def is_len(e):
                    return isinstance(e, ast.Call) and norm(e.func) == 'len' or \
                        isinstance(e, ast.Constant) or (
                            isinstance(e, ast.BinOp) and
                            any(isinstance(c, ast.Call) and norm(c.func) == 'len'
                                for c in ast.walk(e)))
                if is_len(l) or is_len(rt):
                    continue        # positional / length tests
                ncmp += 1
                both_path = ln and rn and ln <= path_only and rn <= path_only
                r.instance(fi.where, n, 'path id vs path id' if both_path
                           else 'path id vs state id')
                if both_path:
                    r.finding(fi.where, n, 'two elements of the clicked path are '
                              'compared with each other: when an id repeats '
                              'along a path (a/b/a) the walk stops at the first '
                              'occurrence and the wrong node is toggled',
                              node=n, ctx=fi)
        return ncmp
    ncmp = analyse(fi, {path_p}, {state_p})
    if not ncmp:
        raise AnalysisError('apply_diff: no id comparison found')
    return r


def rule_expand_all_isolation(model):
    r = RuleResult('C20.R8', 'expand_all: while collecting the expandable '
                   'nodes a failure on one child (no branches attribute, '
                   'raising id) is confined to that child -- every call on '
                   'the loop item sits in a handler inside the loop that '
                   'goes on with the next sibling')
    fi = model.func('TreeTag', 'tpValuesIds')
    loops = [n for n in own_nodes(fi.node) if isinstance(n, ast.For)
             and isinstance(n.target, ast.Name)]
    if not loops:
        raise AnalysisError('tpValuesIds: item loop not found')
    from ..model import ancestors
    n_calls = 0
    for lp in loops:
        item = lp.target.id
        for st in lp.body:
            for c in ast.walk(st):
                if not isinstance(c, ast.Call):
                    continue
                if item not in {x.id for a in list(c.args) +
                                [k.value for k in c.keywords]
                                for x in ast.walk(a)
                                if isinstance(x, ast.Name)}:
                    continue
                n_calls += 1
                ok = False
                for a in ancestors(c):
                    if a is lp:
                        break
                    if isinstance(a, ast.Try):
                        # the call must be in the try body, not a handler
                        in_body = any(c is x for b in a.body
                                      for x in ast.walk(b))
                        if not in_body:
                            continue
                        for h in a.handlers:
                            names = _handler_names(h)
                            if names and not ({'Exception', 'BaseException'}
                                              & set(names)):
                                continue
                            leaves = any(isinstance(x, (ast.Raise, ast.Return,
                                                        ast.Break))
                                         for b in h.body
                                         for x in ast.walk(b))
                            if not leaves:
                                ok = True
                        if ok:
                            break
                r.instance(fi.where, c, 'isolated' if ok else 'NOT isolated')
                if not ok:
                    r.finding(fi.where, c, 'a failure of this call on one '
                              'child ends the whole sibling loop: every '
                              'expandable sibling after it stays collapsed '
                              'after expand_all', node=c, ctx=fi)
    if n_calls < 2:
        raise AnalysisError('tpValuesIds: calls on the loop item not found')
    return r


def _handler_names(h):
    if h.type is None:
        return []
    els = h.type.elts if isinstance(h.type, ast.Tuple) else [h.type]
    return [norm(e).split('.')[-1] for e in els]


def _inl(rule):
    """Run a rule on the view in which helpers that are new w.r.t. the
    reference tree are inlined at their call sites (normalise.N2)."""
    def run(model):
        return rule(model.inlined_view())
    run.__name__ = rule.__name__
    return run


INLINED_VIEW = False
def rule_id_attr(model):
    r = RuleResult('C20.R9', 'every node id (state, links, expand_all) is '
                   'read with the id attribute configured on the tag '
                   '(args[\'id\']): an id computed with another attribute '
                   'names no node of the tree that is rendered')
    m = model.module('TreeTag')
    ex = m.funcs.get('extract_id')
    if ex is None:
        raise AnalysisError('TreeTag.extract_id not found')

    def callers(fn):
        out = []
        for g in m.funcs.values():
            for c in own_nodes(g.node):
                if isinstance(c, ast.Call) and fn.where in \
                        model.callee_names(c, g):
                    out.append((g, c))
        return out

    def arg_for(fn, call, pname):
        ps = fn.params()
        if pname in ps:
            i = ps.index(pname)
            if i < len(call.args) and not any(
                    isinstance(a, ast.Starred) for a in call.args[:i + 1]):
                return call.args[i]
        for k in call.keywords:
            if k.arg == pname:
                return k.value
        return None

    def origin(e, g, depth=0):
        """'configured' | reason string"""
        if isinstance(e, ast.Subscript) and isinstance(
                e.slice, ast.Constant) and e.slice.value == 'id':
            return 'configured'
        if isinstance(e, ast.Constant):
            return f'the constant {e.value!r}'
        if isinstance(e, ast.Name) and depth < 4:
            defs = model.local_defs(g, e.id)
            if defs == ['param']:
                cs = callers(g)
                if not cs:
                    return f'parameter {e.id} of an uncalled function'
                for g2, c in cs:
                    a = arg_for(g, c, e.id)
                    if a is None:
                        d = model.param_default(g, e.id)
                        if d is None:
                            return f'parameter {e.id} not passed'
                        return (f'the default {norm(d)} of parameter '
                                f'{e.id} (not passed at {g2.where})')
                    o = origin(a, g2, depth + 1)
                    if o != 'configured':
                        return o
                return 'configured'
            vals = [d for d in defs if isinstance(d, ast.AST)]
            if vals and len(vals) == len(defs):
                for v in vals:
                    o = origin(v, g, depth + 1)
                    if o != 'configured':
                        return o
                return 'configured'
        return f'`{norm(e)}`'
    n = 0
    idp = ex.params()[1] if len(ex.params()) > 1 else None
    for g, c in callers(ex):
        n += 1
        a = arg_for(ex, c, idp) if idp else None
        if a is None:
            d = model.param_default(ex, idp) if idp else None
            o = (f'the default {norm(d)} of {ex.name}() (no id attribute '
                 'passed)') if d is not None else 'no id attribute'
        else:
            o = origin(a, g)
        r.instance(g.where, c, 'configured id attribute'
                   if o == 'configured' else o)
        if o != 'configured':
            r.finding(g.where, c, f'the id is read with {o} instead of the '
                      'id attribute configured on the tag: with '
                      '<dtml-tree id="..."> these ids name no node of the '
                      'rendered tree (expand_all shows nothing expanded)',
                      node=c, ctx=g)
    # the id that was read is the id, whatever its truth value: 0 and ''
    # are ids like any other (nodes numbered from 0) -- the value of the id
    # attribute does not pass through `or` / a truth test on its way out
    ex = model.func('TreeTag', 'extract_id')
    idvars = set()
    m_ = 0
    for x in own_nodes(ex.node):
        if isinstance(x, ast.Assign) and isinstance(
                x.targets[0], ast.Name) and any(
                isinstance(c, ast.Call) and
                norm(c.func).split('.')[-1] == 'try_call_attr'
                for c in ast.walk(x.value)):
            idvars.add(x.targets[0].id)

    def carries(e):
        return any((isinstance(c, ast.Call) and
                    norm(c.func).split('.')[-1] == 'try_call_attr') or
                   (isinstance(c, ast.Name) and c.id in idvars)
                   for c in ast.walk(e))
    for x in own_nodes(ex.node):
        bad = None
        if isinstance(x, ast.BoolOp) and any(carries(v)
                                             for v in x.values[:-1]):
            bad = x
        elif isinstance(x, (ast.If, ast.IfExp, ast.While)):
            t = x.test
            tt = t.operand if isinstance(t, ast.UnaryOp) and isinstance(
                t.op, ast.Not) else t
            if isinstance(tt, ast.Name) and tt.id in idvars:
                bad = t
        if isinstance(x, ast.Return) and x.value is not None and \
                carries(x.value):
            m_ += 1
        if bad is not None:
            r.instance(ex.where, bad, 'ID FILTERED BY TRUTH VALUE')
            r.finding(ex.where, bad, 'the id read from the id attribute is '
                      'tested for truth: a node whose id is 0 or an empty '
                      'string gets a made-up id (its persistent id or '
                      'memory address) that differs from request to '
                      'request, so the stored state no longer names it',
                      node=bad, ctx=ex)
    if m_ < 1:
        raise AnalysisError('C20.R9: extract_id does not return the value '
                            'of the id attribute any more')
    if n < 3:
        raise AnalysisError(f'C20.R9: only {n} extract_id calls found')
    r.floor = 3
    return r


def rule_sibling_scope(model):
    r = RuleResult('C20.R11', 'node ids are unique among siblings only: no '
                   'collection that is carried through the whole walk of '
                   'the tree (handed down the recursion and updated on the '
                   'way) decides by id membership whether a node is '
                   'entered, listed or expanded')
    n = 0
    for fi in model.all_funcs():
        if fi.module.short != 'TreeTag' or fi.parent is not None:
            continue
        params = set(fi.params())
        rec_calls = [c for c in own_nodes(fi.node) if isinstance(c, ast.Call)
                     and isinstance(c.func, ast.Name)
                     and c.func.id == fi.name]
        if not rec_calls:
            continue
        n += 1
        handed = set()
        for c in rec_calls:
            for a in list(c.args) + [k.value for k in c.keywords]:
                if isinstance(a, ast.Name) and (
                        a.id in params or any(
                            isinstance(d, ast.AST) for d in
                            model.local_defs(fi, a.id))):
                    handed.add(a.id)
        mutated = set()
        for x in own_nodes(fi.node):
            if isinstance(x, ast.Call) and isinstance(
                    x.func, ast.Attribute) and x.func.attr in (
                    'add', 'append', 'update', 'setdefault', 'extend',
                    'insert') and isinstance(x.func.value, ast.Name):
                mutated.add(x.func.value.id)
            if isinstance(x, ast.Subscript) and isinstance(
                    x.ctx, ast.Store) and isinstance(x.value, ast.Name):
                mutated.add(x.value.id)
        walkwide = {v for v in handed & mutated if v in params}
        r.instance(fi.where, f'def {fi.name}', 'walk-wide collections: ' +
                   (', '.join(sorted(walkwide)) or 'none'))
        for x in own_nodes(fi.node):
            if isinstance(x, ast.Compare) and len(x.ops) == 1 and \
                    isinstance(x.ops[0], (ast.In, ast.NotIn)) and \
                    isinstance(x.comparators[0], ast.Name) and \
                    x.comparators[0].id in walkwide:
                r.instance(fi.where, x, 'MEMBERSHIP IN A WALK-WIDE '
                           'COLLECTION')
                r.finding(fi.where, x, f'`{norm(x)}`: '
                          f'`{x.comparators[0].id}` is handed down the '
                          'recursion and filled on the way, so it spans '
                          'the whole tree, while ids only distinguish '
                          'siblings: a node whose id occurred in another '
                          'branch (or equals an ancestor\'s) is treated as '
                          'already seen and left out of the state',
                          node=x, ctx=fi)
        # the same through a helper closed over a table: a nested function
        # handed down the recursion that fills and consults a dictionary
        # keyed by the node id
        for g in [h for h in fi.module.funcs.values() if h.parent is fi]:
            if not any(isinstance(a, ast.Name) and a.id == g.node.name
                       for c in rec_calls
                       for a in list(c.args) + [k.value for k in c.keywords]):
                continue
            glocals = set(g.params()) | {
                x.id for x in own_nodes(g.node)
                if isinstance(x, ast.Name) and isinstance(x.ctx, ast.Store)}
            filled = set()
            for x in own_nodes(g.node):
                if isinstance(x, ast.Subscript) and isinstance(
                        x.ctx, ast.Store) and isinstance(
                        x.value, ast.Name) and x.value.id not in glocals:
                    filled.add(x.value.id)
                if isinstance(x, ast.Call) and isinstance(
                        x.func, ast.Attribute) and x.func.attr in (
                        'setdefault', 'update', 'add', 'append') and \
                        isinstance(x.func.value, ast.Name) and \
                        x.func.value.id not in glocals:
                    filled.add(x.func.value.id)

            def by_id(e, depth=0):
                if any(isinstance(y, ast.Call) and
                       norm(y.func).split('.')[-1] in ('extract_id',
                                                       'try_call_attr')
                       for y in ast.walk(e)):
                    return True
                if isinstance(e, ast.Name) and depth < 2:
                    return any(isinstance(d, ast.AST) and by_id(d, depth + 1)
                               for d in model.local_defs(g, e.id))
                return False
            for x in own_nodes(g.node):
                tbl = key = None
                if isinstance(x, ast.Subscript) and isinstance(
                        x.ctx, ast.Load) and isinstance(x.value, ast.Name):
                    tbl, key = x.value.id, x.slice
                elif isinstance(x, ast.Compare) and len(x.ops) == 1 and \
                        isinstance(x.ops[0], (ast.In, ast.NotIn)) and \
                        isinstance(x.comparators[0], ast.Name):
                    tbl, key = x.comparators[0].id, x.left
                elif isinstance(x, ast.Call) and isinstance(
                        x.func, ast.Attribute) and x.func.attr in (
                        'get', 'setdefault') and isinstance(
                        x.func.value, ast.Name) and x.args:
                    tbl, key = x.func.value.id, x.args[0]
                if tbl in filled and key is not None and by_id(key):
                    r.instance(g.where, x, 'TABLE KEYED BY NODE ID SPANS '
                               'THE WALK')
                    r.finding(g.where, x, f'`{tbl}` is filled and consulted '
                              f'by {g.node.name}(), which is handed down the '
                              'whole walk of the tree, under the node id: '
                              'ids only distinguish siblings, so a node '
                              'whose id occurred in another branch is '
                              'answered with that other node\'s data '
                              '(children, openness)', node=x, ctx=g)
    if n < 2:
        raise AnalysisError(f'C20.R11: only {n} recursive tree functions '
                            'found')
    return r


def rule_fresh_state(model):
    """The expansion state is updated in place (apply_diff): every state
    the tag builds for a request must be a fresh object, never one that
    lives as long as the module (a mutable default argument)."""
    from .c17 import rule_defaults
    r = rule_defaults(model, 'C20.R10',
                      select=lambda fi: fi.module.short == 'TreeTag',
                      floor=12)
    r.text = ('the tree state is updated in place: no state (or part of '
              'one) the tag builds is a module-lifetime object such as a '
              'mutable default argument -- it would carry one visitor\'s '
              'expansions into every later cookie-less request')
    return r


class _VS(BaseState):
    def __init__(self, env=None):
        self.env = dict(env or {})

    def key(self):
        return tuple(sorted(self.env.items()))

    def copy(self):
        n = _VS(self.env)
        n.trace = self.trace
        return n


class _StateOriginDomain(Domain):
    """Where does an expansion state come from when a click is applied to
    it: built for this tree (FRESH), taken from the request (DECODED),
    taken from the request and checked to be about this tree (VALIDATED),
    or handed in by the caller (PARAM:<i>)?  Helpers are summarised by the
    kinds they return and by the parameters they apply clicks to."""

    def __init__(self, model, fi, summaries, appliers, tracked=None):
        self.model, self.fi = model, fi
        self.summaries, self.appliers = summaries, appliers
        self.applied = {}
        self.returned = set()
        self.tracked = tracked

    def kind(self, e, st):
        if isinstance(e, (ast.Tuple, ast.List)):
            return 'FRESH'
        if isinstance(e, ast.Name):
            return st.env.get(e.id, 'OTHER')
        if isinstance(e, ast.Call):
            for t in self.model.resolve_callee(e.func, self.fi):
                if t[0] == 'func' and t[1].where in self.summaries:
                    ks = self.summaries[t[1].where]
                    if ks and ks <= {'FRESH', 'VALIDATED'}:
                        return 'VALIDATED'
                    if ks:
                        return 'DECODED'
            if any(norm(a) in st.env for a in e.args):
                # state = decode_seq(state): same origin
                return next(st.env[norm(a)] for a in e.args
                            if norm(a) in st.env)
            return 'DECODED'
        if isinstance(e, ast.Subscript):
            return 'DECODED'
        if isinstance(e, ast.IfExp):
            a_, b_ = self.kind(e.body, st), self.kind(e.orelse, st)
            return a_ if a_ == b_ else 'DECODED'
        return 'OTHER'

    def _root_var(self, t):
        if isinstance(t, ast.Compare) and len(t.ops) == 1:
            for y in [t.left] + t.comparators:
                if isinstance(y, ast.Subscript) and isinstance(
                        y.value, ast.Subscript) and isinstance(
                        y.value.value, ast.Name):
                    return y.value.value.id
        return None

    def raises(self, node, st):
        out = []
        for x in ast.walk(node):
            if isinstance(x, ast.Subscript) and isinstance(x.ctx, ast.Load):
                out += ['IndexError', 'KeyError']
            elif isinstance(x, ast.Call):
                out.append('*')
        return sorted(set(out))

    def branch(self, test, st):
        v = self._root_var(test)
        if v is not None:
            ok = st.copy()
            if st.env.get(v) == 'DECODED':
                ok.env[v] = 'VALIDATED'
            neq = isinstance(test.ops[0], ast.NotEq)
            return [(neq, st), (not neq, ok)]
        return [(True, st), (False, st)]

    def effects(self, stmt, st):
        for c in ast.walk(stmt):
            if not isinstance(c, ast.Call):
                continue
            idxs = []
            if norm(c.func).split('.')[-1] == 'apply_diff':
                idxs = [0]
            else:
                for t in self.model.resolve_callee(c.func, self.fi):
                    if t[0] == 'func' and t[1].where in self.appliers:
                        idxs = sorted(self.appliers[t[1].where])
            for i in idxs:
                if i < len(c.args) and isinstance(c.args[i], ast.Name):
                    rec = self.applied.setdefault(id(c), [c, set()])
                    rec[1].add(st.env.get(c.args[i].id, 'OTHER'))
        if isinstance(stmt, ast.Assign) and len(stmt.targets) == 1 and \
                isinstance(stmt.targets[0], ast.Name) and (
                    self.tracked is None or
                    stmt.targets[0].id in self.tracked):
            k = self.kind(stmt.value, st)
            st = st.copy()
            st.env[stmt.targets[0].id] = k
        return st

    def on_return(self, node, st):
        if node.value is not None:
            self.returned.add(self.kind(node.value, st))
        return self.raises(node.value, st) if node.value is not None \
            else [], st


def rule_state_checked_first(model):
    r = RuleResult('C20.R12', 'a click is applied to a state that is about '
                   'THIS tree: where the state came in with the request '
                   '(cookie), the test that its root is this tree\'s root -- '
                   'and its replacement by a fresh state otherwise -- comes '
                   'before the expand / collapse diff is applied, on every '
                   'path (typestate FRESH / DECODED / VALIDATED, helpers '
                   'summarised)')
    top = model.func('TreeTag', 'tpRender')
    clo = [f for f in model.closure(top, depth=4)
           if f.module.short == 'TreeTag']
    # only the functions and the locals a state passes through
    def calls_of(f):
        return [c for c in own_nodes(f.node) if isinstance(c, ast.Call)]

    def callee(f, c):
        for t in model.resolve_callee(c.func, f):
            if t[0] == 'func' and t[1] in clo:
                return t[1]
        return None
    tracked = {}
    for f in clo:
        names = {c.args[0].id for c in calls_of(f)
                 if norm(c.func).split('.')[-1] == 'apply_diff' and c.args
                 and isinstance(c.args[0], ast.Name)}
        if names:
            tracked[f.where] = names
    for _ in range(4):
        grew = False
        for f in clo:
            tr = tracked.get(f.where)
            if tr is None:
                continue
            size0 = len(tr)
            for x in own_nodes(f.node):
                if isinstance(x, ast.Assign) and len(x.targets) == 1 and \
                        isinstance(x.targets[0], ast.Name) and \
                        x.targets[0].id in tr:
                    if isinstance(x.value, ast.Name):
                        tr.add(x.value.id)
                    if isinstance(x.value, ast.Call):
                        g = callee(f, x.value)
                        if g is not None and g.where not in tracked:
                            tracked[g.where] = {
                                y.value.id for y in own_nodes(g.node)
                                if isinstance(y, ast.Return) and
                                isinstance(y.value, ast.Name)}
                            grew = True
            ps = [i for i, p_ in enumerate(f.params()) if p_ in tr]
            if ps:
                for h in clo:
                    for c in calls_of(h):
                        if callee(h, c) is f:
                            t2 = tracked.setdefault(h.where, set())
                            for i in ps:
                                if i < len(c.args) and isinstance(
                                        c.args[i], ast.Name) and \
                                        c.args[i].id not in t2:
                                    t2.add(c.args[i].id)
                                    grew = True
            grew = grew or len(tr) != size0
        if not grew:
            break
    clo = [f for f in clo if f.where in tracked]
    summaries = {f.where: set() for f in clo if f is not top}
    appliers = {}
    doms = {}
    for _ in range(4):
        before = ({k: set(v) for k, v in summaries.items()},
                  {k: set(v) for k, v in appliers.items()})
        for f in clo:
            dom = _StateOriginDomain(model, f, summaries, appliers,
                                     tracked[f.where])
            st0 = _VS({p_: f'PARAM:{i}' for i, p_ in enumerate(f.params())
                       if p_ in tracked[f.where]})
            it = Interp(dom, max_states=200000)
            it.run(f.node, st0)
            if it.overflow:
                raise AnalysisError(f'C20.R12: state budget in {f.where}')
            doms[f.where] = (f, dom)
            if f is not top:
                summaries[f.where] = {k for k in dom.returned
                                      if not k.startswith('PARAM')
                                      and k != 'OTHER'}
                ps = {int(k.split(':')[1]) for c, ks in dom.applied.values()
                      for k in ks if k.startswith('PARAM:')}
                if ps:
                    appliers[f.where] = ps
        if before == (summaries, appliers):
            break
    n = 0
    for f, dom in doms.values():
        for c, kinds in dom.applied.values():
            kinds = {k for k in kinds if not k.startswith('PARAM')}
            if not kinds:
                continue
            n += 1
            r.instance(f.where, c, 'applied to: ' + '/'.join(sorted(kinds)))
            if 'DECODED' in kinds:
                r.finding(f.where, c, 'the click is applied to a state '
                          'taken from the request before it was checked to '
                          'belong to this tree: with a cookie written by '
                          'another tree the click lands in that foreign '
                          'state and is thrown away with it when the check '
                          'follows', node=c, ctx=f)
    if n < 1:
        raise AnalysisError('C20.R12: no application of a click to a state '
                            'of known origin was found')
    return r


RULES_PLAIN = [rule_state_checked_first, rule_mirror, rule_chunks, rule_encoder_twins, rule_cleanup_loop, rule_link_agreement, rule_path_stack, rule_apply_diff, rule_expand_all_isolation, rule_id_attr, rule_fresh_state, rule_sibling_scope]
RULES = [_inl(r_) for r_ in RULES_PLAIN] if INLINED_VIEW else [
    (_inl(r_) if r_ in (rule_link_agreement, rule_state_checked_first,
                        rule_apply_diff)
     else r_) for r_ in RULES_PLAIN]
EXPLANATION = (
    'Stage extraction of the encoder and decoder pipelines and comparison '
    'of the decoder with the reversed inverse stage list; arithmetic '
    'agreement 4a = 3b of the chunk constants; AST twin comparison of the '
    'two encoders; definite-empty-range query.')
ASSUMPTIONS = ['does not decide expand/collapse semantics over click '
               'histories, nor the round trip on all states']
TRUSTED = ['python ast']
