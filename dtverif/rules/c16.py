"""C16 -- summary statistics of dtml-in (formula clauses).

The property quantifies over run-time data, but what each statistic *is*
is fixed by the formulas of sequence_variables.statistics, and those can be
read off the source:

R1 per element the numeric accumulators change by (x, x*x, one more value):
   polynomial identities of one loop round; the square is computed before
   any accumulator is touched (a non-numeric value leaves them alone).
R2 mean, total, variance-n, standard-deviation-n, variance,
   standard-deviation are, as rational functions of (S1 = sum x, S2 = sum
   x*x, n), the textbook definitions; the sample variants exist only for
   n > 1.
R3 the running minimum / maximum are the order-theoretic min / max of the
   values seen (decided over the finite set of orderings of item, min,
   max).
R4 the median is the middle value of the sorted values for an odd count
   and, for an even count, the mean of the two middle values -- which lies
   between them; a floored mean does so only for integers.
R5 None / the missing-value marker are not counted.
"""
import ast

from ..core import AnalysisError
from ..core import RuleResult
from ..core import norm
from ..model import ancestors
from ..model import own_nodes
from .. import constfold
from .. import miniexec
from .. import ratfun
from ..ratfun import Rat

STAT_KEYS = ('mean', 'total', 'variance-n', 'standard-deviation-n',
             'variance', 'standard-deviation', 'count', 'min', 'max',
             'median')


def _fi(model):
    return model.func('DT_InSV', 'sequence_variables.statistics')


def _stat_of_key(model, fi, k):
    from .c10 import _key_prefix
    pre = _key_prefix(model, fi, k)
    if pre and pre.endswith('-') and pre[:-1] in STAT_KEYS:
        return pre[:-1]
    return None


def _stores(model, fi):
    """{statistic: [(assign node, value expr)]} for data['<stat>-%s'] = v"""
    out = {}
    for n in own_nodes(fi.node):
        if isinstance(n, ast.Assign) and len(n.targets) == 1 and \
                isinstance(n.targets[0], ast.Subscript):
            st = _stat_of_key(model, fi, n.targets[0].slice)
            if st:
                out.setdefault(st, []).append((n, n.value))
    return out


def _item_loop(fi):
    """the loop over the items, its element variable"""
    loops = [n for n in fi.node.body if isinstance(n, ast.For)
             and isinstance(n.target, ast.Name)
             and any(isinstance(x, ast.AugAssign) or (
                 isinstance(x, ast.Assign) and isinstance(
                     x.value, ast.BinOp)) for x in ast.walk(n))]
    cands = [lp for lp in loops if any(
        isinstance(c, ast.Call) and isinstance(c.func, ast.Attribute)
        and c.func.attr == 'append' for c in ast.walk(lp))]
    if len(cands) != 1:
        raise AnalysisError('statistics: item loop not found')
    return cands[0]


def _names(model, fi):
    """roles of the locals: which name is the sum, the sum of squares, the
    value list, the minimum, the maximum, the count"""
    st = _stores(model, fi)
    roles = {}

    def only_name(key):
        vals = {norm(v) for _, v in st.get(key, []) if isinstance(
            v, ast.Name)}
        return vals.pop() if len(vals) == 1 else None
    roles['sum'] = only_name('total')
    roles['min'] = only_name('min')
    roles['max'] = only_name('max')
    roles['count'] = only_name('count')
    if None in roles.values():
        raise AnalysisError(f'statistics: roles of the locals not found '
                            f'({roles})')
    # count = len(<values>)
    vals = None
    for n in own_nodes(fi.node):
        if isinstance(n, ast.Assign) and len(n.targets) == 1 and \
                norm(n.targets[0]) == roles['count'] and \
                isinstance(n.value, ast.Call) and \
                norm(n.value.func) == 'len' and n.value.args and \
                isinstance(n.value.args[0], ast.Name):
            vals = n.value.args[0].id
    if vals is None:
        raise AnalysisError('statistics: count = len(values) not found')
    roles['values'] = vals
    return roles


def _numeric_region(fi, loop, roles):
    """statements of the loop body that update the sum (the innermost
    statement list holding the update)"""
    item = loop.target.id
    for n in ast.walk(loop):
        for fld in ('body', 'orelse', 'finalbody'):
            lst = getattr(n, fld, None)
            if isinstance(lst, list) and any(
                    isinstance(s, (ast.Assign, ast.AugAssign)) and any(
                        isinstance(t, ast.Name) and t.id == roles['sum']
                        for t in (s.targets if isinstance(s, ast.Assign)
                                  else [s.target])) for s in lst):
                return item, lst
    raise AnalysisError('statistics: accumulation of the sum not found')


def rule_accumulate(model):
    r = RuleResult('C16.R1', 'one round of the item loop adds x to the sum, '
                   'x*x to the sum of squares and x to the list of values, '
                   'and computes the square (which fails for non-numeric '
                   'values) before it touches any accumulator')
    fi = _fi(model)
    loop = _item_loop(fi)
    roles = _names(model, fi)
    item, region = _numeric_region(fi, loop, roles)
    env = {item: Rat.sym('x')}
    appended = []
    order = []         # ('square'|'update', stmt)
    sq_name = None
    for st in region:
        if isinstance(st, ast.If):
            # alternative spellings of the same value in the two branches
            # (item * int(item) for ints): both must agree
            outs = []
            for br in (st.body, st.orelse):
                e2 = dict(env)
                for s2 in br:
                    if isinstance(s2, ast.Assign) and isinstance(
                            s2.targets[0], ast.Name):
                        try:
                            e2[s2.targets[0].id] = ratfun.evaluate(
                                s2.value, e2)
                        except ratfun.NotRational:
                            e2.pop(s2.targets[0].id, None)
                outs.append(e2)
            for k in set(outs[0]) | set(outs[1]):
                if k.startswith('__'):
                    continue
                a, b = outs[0].get(k), outs[1].get(k)
                # a branch that makes the variable non-numeric (None for
                # the missing-value marker) leaves the numeric path at the
                # square: only the other branch continues here
                if a is None and b is not None and k in env:
                    a = b
                if b is None and a is not None and k in env:
                    b = a
                if a is not None and b is not None and a.same(b):
                    env[k] = a
                    if any(isinstance(x, ast.BinOp) and isinstance(
                            x.op, (ast.Mult, ast.Pow))
                            for x in ast.walk(st)):
                        order.append(('square', st))
                else:
                    env.pop(k, None)
            continue
        tgt = val = None
        if isinstance(st, ast.Assign) and len(st.targets) == 1 and \
                isinstance(st.targets[0], ast.Name):
            tgt, val = st.targets[0].id, st.value
        elif isinstance(st, ast.AugAssign) and isinstance(
                st.target, ast.Name):
            tgt = st.target.id
            val = ast.BinOp(left=ast.Name(id=tgt, ctx=ast.Load()),
                            op=st.op, right=st.value)
        elif isinstance(st, ast.Expr) and isinstance(st.value, ast.Call) \
                and isinstance(st.value.func, ast.Attribute) and \
                st.value.func.attr == 'append' and st.value.args:
            if norm(st.value.func.value) == roles['values']:
                appended.append(st.value.args[0])
                order.append(('update', st))
            continue
        if tgt is None:
            continue
        try:
            v = ratfun.evaluate(val, env)
        except ratfun.NotRational:
            env.pop(tgt, None)
            continue
        mult = any(isinstance(x, ast.BinOp) and isinstance(
            x.op, (ast.Mult, ast.Pow)) for x in ast.walk(val))
        if tgt in (roles['sum'],) or (tgt in env and False):
            order.append(('update', st))
        elif mult:
            order.append(('square', st))
        env[tgt] = v
    x = Rat.sym('x')
    s_sym = Rat.sym(roles['sum'])
    got = env.get(roles['sum'])
    r.instance(fi.where, f'{roles["sum"]} after one round',
               got.text() if got is not None else '?')
    if got is None or not (got - s_sym).same(x):
        r.finding(fi.where, 'sum accumulation', 'one round of the loop does '
                  f'not add the value to `{roles["sum"]}`: total- and '
                  'mean- are not the sum / mean of the values',
                  node=loop, ctx=fi)
    # the sum of squares: the accumulator whose increment is x*x
    sq = [k for k, v in env.items() if not k.startswith('__')
          and k != roles['sum'] and isinstance(v, Rat)
          and (v - Rat.sym(k)).same(x * x)]
    r.instance(fi.where, 'accumulator of squares', ', '.join(sq) or 'NONE')
    if not sq:
        r.finding(fi.where, 'sum of squares', 'no accumulator grows by the '
                  'square of the value in one round: the variances are not '
                  'computed from the sum of squares', node=loop, ctx=fi)
    else:
        sq_name = sq[0]
        for i, (k, st) in enumerate(order):
            pass
    ok_app = [a for a in appended if norm(a) == item]
    r.instance(fi.where, f'{roles["values"]}.append(...)',
               ', '.join(norm(a) for a in appended) or 'NONE')
    if len(ok_app) != 1 or len(appended) != 1:
        r.finding(fi.where, 'value list', 'one round of the loop does not '
                  'append exactly the value to the list the count and the '
                  'median are taken from', node=loop, ctx=fi)
    # atomicity: the first statement that multiplies the value precedes
    # every accumulator update of the region
    first_sq = next((i for i, (k, _) in enumerate(order) if k == 'square'),
                    None)
    first_up = next((i for i, (k, _) in enumerate(order) if k == 'update'),
                    None)
    upd_sq = None
    for i, st in enumerate(region):
        if sq_name and isinstance(st, (ast.Assign, ast.AugAssign)) and any(
                isinstance(t, ast.Name) and t.id == sq_name
                for t in (st.targets if isinstance(st, ast.Assign)
                          else [st.target])):
            upd_sq = i
    r.instance(fi.where, 'square computed before the accumulators change',
               'yes' if first_sq is not None and first_up is not None
               and first_sq < first_up else 'NO')
    if first_sq is None or first_up is None or first_sq > first_up:
        r.finding(fi.where, 'order of square and updates', 'an accumulator '
                  'is updated before the square of the value is computed: '
                  'a non-numeric value (TypeError at the square) is then '
                  'half counted', node=loop, ctx=fi)
    return r, roles, sq_name


def _post_env(fi, loop, roles, sq_name):
    """symbolic environment after the loop"""
    env = {roles['sum']: Rat.sym('S1'), roles['count']: Rat.sym('n')}
    if sq_name:
        env[sq_name] = Rat.sym('S2')
    env[f'len({roles["values"]})'] = Rat.sym('n')
    return env


def rule_formulas(model):
    r0, roles, sq_name = rule_accumulate(model)
    r = RuleResult('C16.R2', 'mean, total, population and sample variance '
                   'and their square roots are the textbook rational '
                   'functions of S1 = sum x, S2 = sum x*x and n; the sample '
                   'variants exist only for n > 1')
    fi = _fi(model)
    loop = _item_loop(fi)
    env0 = _post_env(fi, loop, roles, sq_name)
    S1, S2, n = Rat.sym('S1'), Rat.sym('S2'), Rat.sym('n')
    one = Rat.const(1)
    var_n = S2 / n - (S1 / n) * (S1 / n)
    var_s = var_n * n / (n - one)
    got = {}        # statistic -> list of (cond, Rat or '' , node)

    def run(stmts, env, cond):
        for st in stmts:
            if isinstance(st, ast.For):
                continue           # initialisation of all keys to ''
            if isinstance(st, ast.Try):
                run(st.body, env, cond)
                continue
            if isinstance(st, ast.If):
                t = norm(st.test)
                e1, e2 = dict(env), dict(env)
                run(st.body, e1, cond + ((t, True),))
                run(st.orelse, e2, cond + ((t, False),))
                for k in list(env):
                    if k.startswith('__'):
                        continue
                    a, b = e1.get(k), e2.get(k)
                    if a is None or b is None or not (
                            isinstance(a, Rat) and isinstance(b, Rat)
                            and a.same(b)):
                        env.pop(k, None)
                    else:
                        env[k] = a
                continue
            if isinstance(st, ast.Assign) and len(st.targets) == 1:
                t = st.targets[0]
                if isinstance(t, ast.Name):
                    if isinstance(st.value, ast.Call) and \
                            norm(st.value.func) == 'len':
                        key = norm(st.value)
                        env[t.id] = env.get(key, Rat.sym(key))
                        continue
                    try:
                        env[t.id] = ratfun.evaluate(st.value, env)
                    except (ratfun.NotRational, KeyError):
                        env.pop(t.id, None)
                elif isinstance(t, ast.Subscript):
                    stat = _stat_of_key(model, fi, t.slice)
                    if stat is None:
                        continue
                    if isinstance(st.value, ast.Constant) and \
                            st.value.value == '':
                        got.setdefault(stat, []).append((cond, '', st))
                        continue
                    try:
                        v = ratfun.evaluate(st.value, env)
                    except (ratfun.NotRational, KeyError):
                        v = None
                    got.setdefault(stat, []).append((cond, v, st))
    body = fi.node.body
    run(body[body.index(loop) + 1:], env0, ())
    env_ref = dict(env0)
    want = {
        'mean': S1 / n, 'total': S1, 'variance-n': var_n,
        'variance': var_s,
    }
    sd_n = ratfun._sqrt(var_n, env0)
    sd_s = ratfun._sqrt(var_s, env0)
    want['standard-deviation-n'] = sd_n
    want['standard-deviation'] = sd_s
    for stat, ref in want.items():
        entries = [(c, v, nd) for c, v, nd in got.get(stat, [])
                   if v != '']
        if not entries:
            r.finding(fi.where, f'{stat}-<name>', f'{stat}- is never '
                      'computed', node=fi.node, ctx=fi)
            continue
        for cond, v, nd in entries:
            ok = v is not None and v.same(ref)
            r.instance(fi.where, f'{stat} = {norm(nd.value)}',
                       'is ' + ref.text()[:80] if ok else (
                           'DIFFERS: ' + (v.text()[:80] if v is not None
                                          else 'not a formula')))
            if not ok:
                r.finding(fi.where, f'{stat} formula', f'{stat}- is not '
                          f'{ref.text()} of the values (S1 = sum, S2 = sum '
                          'of squares, n = count): it is '
                          + (v.text()[:120] if v is not None
                             else 'not a rational formula of them'),
                          node=nd, ctx=fi)
            if stat in ('variance', 'standard-deviation'):
                guarded = any(('> 1' in t and b) or ('>= 2' in t and b) or
                              ('<= 1' in t and not b) or
                              ('< 2' in t and not b) or
                              ('== 1' in t and not b)
                              for t, b in cond)
                if not guarded:
                    r.finding(fi.where, f'{stat} for one value', f'the '
                              f'sample {stat} (division by n - 1) is '
                              'computed without the test n > 1', node=nd,
                              ctx=fi)
    r.require_floor(6)
    return [r0, r]


def rule_extremes(model):
    r = RuleResult('C16.R3', 'the running minimum and maximum are the '
                   'least and the greatest value seen so far (decided for '
                   'every ordering of the new value relative to the '
                   'current extremes, and for the first value)')
    fi = _fi(model)
    loop = _item_loop(fi)
    roles = _names(model, fi)
    item = loop.target.id
    mn, mx = roles['min'], roles['max']
    # the statement that updates the minimum on the numeric path
    _, region = _numeric_region(fi, loop, roles)
    upd = [st for st in region if any(
        isinstance(x, ast.Name) and isinstance(x.ctx, ast.Store)
        and x.id in (mn, mx) for x in ast.walk(st))]
    if not upd:
        raise AnalysisError('statistics: update of the minimum not found')
    fn = ast.FunctionDef(name='_', args=None, body=upd, decorator_list=[])
    cases = [(None, None, 5)]
    for a, b in ((2, 2), (2, 6)):
        for c in (0, 2, 4, 6, 9):
            cases.append((a, b, c))
    for a, b, c in cases:
        env = {mn: a, mx: b, item: c}
        try:
            miniexec.run(fn, env, {})
        except miniexec.Unsupported as exc:
            raise AnalysisError(f'statistics: extremes not understood '
                                f'({exc})')
        want_mn = c if a is None else min(a, c)
        want_mx = c if b is None else max(b, c)
        ok = env[mn] == want_mn and env[mx] == want_mx
        r.instance(fi.where, f'min={a} max={b} value={c}',
                   f'-> min={env[mn]} max={env[mx]}'
                   + ('' if ok else ' WRONG'))
        if not ok:
            r.finding(fi.where, f'extremes for min={a} max={b} value={c}',
                      f'with minimum {a}, maximum {b} and a new value {c} '
                      f'the loop leaves minimum {env[mn]} and maximum '
                      f'{env[mx]}: min- / max- are not the extremes of the '
                      'values', node=upd[0], ctx=fi)
            break
    return r


def _int_guarded(node, names):
    """is node inside the true branch of an isinstance(..., int) test on
    one of the names (or inside an IfExp body guarded that way)?"""
    child = node
    for anc in ancestors(node):
        if isinstance(anc, (ast.FunctionDef, ast.AsyncFunctionDef)):
            break
        test = None
        if isinstance(anc, ast.If) and any(
                child is x or any(child is y for y in ast.walk(x))
                for x in anc.body):
            test = anc.test
        if isinstance(anc, ast.IfExp) and (
                child is anc.body or any(child is y
                                         for y in ast.walk(anc.body))):
            test = anc.test
        if test is not None:
            t = norm(test)
            if 'isinstance(' in t and ('int' in t) and \
                    'float' not in t:
                # the test must be about what is floored: the numerator
                # itself, or every operand of it (an integer test of one
                # of two summands says nothing about the sum)
                num = node.left if isinstance(node, ast.BinOp) else None
                if num is None:
                    return True
                tested = {norm(c.args[0]) for c in ast.walk(test)
                          if isinstance(c, ast.Call) and
                          norm(c.func) == 'isinstance' and c.args}
                operands = {norm(x) for x in ast.walk(num)
                            if isinstance(x, (ast.Name, ast.Subscript))
                            and not isinstance(
                                getattr(x, '_dt_parent', None),
                                ast.Subscript)}
                if norm(num) in tested or (operands and
                                           operands <= tested):
                    return True
        child = anc
    return False


def rule_median(model):
    r = RuleResult('C16.R4', 'the median is the middle element of the '
                   'sorted values for an odd count and, for an even count, '
                   'the mean of the two middle values -- a floored mean is '
                   'used for integers only (for other numbers it can lie '
                   'below both values)')
    fi = _fi(model)
    roles = _names(model, fi)
    vals = roles['values']
    stores = _stores(model, fi).get('median', [])
    if not stores:
        raise AnalysisError('statistics: median not found')
    # the values are sorted before the median is taken
    sorts = [n for n in own_nodes(fi.node) if isinstance(n, ast.Call)
             and isinstance(n.func, ast.Attribute) and n.func.attr == 'sort'
             and norm(n.func.value) == vals] + [
        n for n in own_nodes(fi.node) if isinstance(n, ast.Assign)
        and norm(n.targets[0]) == vals and isinstance(n.value, ast.Call)
        and norm(n.value.func) == 'sorted']
    r.instance(fi.where, f'{vals}.sort()', 'present' if sorts
               else 'MISSING')
    if not sorts:
        r.finding(fi.where, 'sort', 'the values are not sorted before the '
                  'median is taken', node=fi.node, ctx=fi)
    # ... on every path: a sort statement dominates each median store that
    # indexes the values (it precedes, in the same statement list, the
    # statement that contains the store)
    from ..model import parent as _parent

    def is_sort_stmt(st):
        return any(x is st.value if isinstance(st, ast.Expr) else
                   x is st for x in sorts) if isinstance(
                       st, (ast.Expr, ast.Assign)) else False

    def dominated(node):
        cur = node
        while cur is not None and cur is not fi.node:
            par = _parent(cur)
            for fld in ('body', 'orelse', 'finalbody'):
                lst = getattr(par, fld, None)
                if isinstance(lst, list) and cur in lst:
                    for st in lst[:lst.index(cur)]:
                        if is_sort_stmt(st):
                            return True
            cur = par
        return False
    for nd, v in stores:
        reads = any(isinstance(x, ast.Subscript) and norm(x.value) == vals
                    for x in ast.walk(v)) or (
            isinstance(v, ast.Name) and any(
                isinstance(d, ast.AST) and any(
                    isinstance(x, ast.Subscript) and norm(x.value) == vals
                    for x in ast.walk(d))
                for d in model.local_defs(fi, v.id)))
        if not reads or not sorts:
            continue
        ok = dominated(nd)
        r.instance(fi.where, nd, 'sorted on every path' if ok
                   else 'SORT CAN BE SKIPPED')
        if not ok:
            r.finding(fi.where, f'median store not dominated by '
                      f'{vals}.sort()', 'there is a path to the median on '
                      'which the values were not sorted by their natural '
                      'order (the sort is conditional): the "middle" element '
                      'is then whatever the sequence order put there',
                      node=nd, ctx=fi)
    n_even = 0
    work = []

    def expand(e, depth=0):
        """e with locals that have a single definition (an inlined
        helper's parameters: lower = values[half - 1]) replaced by it."""
        if depth > 3:
            return e

        class _X(ast.NodeTransformer):
            def visit_Name(self, node):
                if isinstance(node.ctx, ast.Load) and node.id != vals:
                    ds = model.local_defs(fi, node.id)
                    if len(ds) == 1 and isinstance(ds[0], ast.AST):
                        return expand(_copy(ds[0]), depth + 1)
                return node
        return _X().visit(_copy(e))
    for nd, v in stores:
        if isinstance(v, ast.Name):
            # a local holds the median: every definition is judged with
            # single-definition locals (an inlined helper's parameters:
            # lower = values[half - 1]) written out; a definition derived
            # from the local itself (m = m // 2) is the combination of the
            # one definition that reads the values
            defs = [d for d in model.local_defs(fi, v.id)
                    if isinstance(d, ast.AST)]

            def reads(e_):
                return any(isinstance(x, ast.Subscript) and
                           norm(x.value) == vals for x in ast.walk(e_))
            selfref = [d for d in defs if any(
                isinstance(x, ast.Name) and x.id == v.id
                for x in ast.walk(d))]
            base = [(d, expand(d)) for d in defs if d not in selfref]
            base = [(d, e_) for d, e_ in base if reads(e_)]
            if selfref and len(base) == 1:
                for d in selfref:
                    arms = [d.body, d.orelse] if isinstance(d, ast.IfExp) \
                        else [d]
                    for arm in arms:
                        work.append((nd, _subst(arm, v.id, base[0][1]),
                                     arm))
                continue
            if base and not selfref:
                for d, e_ in base:
                    arms = [(e_.body, d), (e_.orelse, d)] if isinstance(
                        e_, ast.IfExp) else [(e_, d)]
                    for arm, o_ in arms:
                        work.append((nd, arm, o_))
                continue
            r.instance(fi.where, nd, 'single value')
            continue
        work.append((nd, v, v))
    for nd, v, origin in work:
        subs = [x for x in ast.walk(v) if isinstance(x, ast.Subscript)
                and norm(x.value) == vals]
        if (isinstance(v, ast.Call) and isinstance(v.func, ast.Attribute)
                and v.func.attr == 'format') or isinstance(
                    v, ast.JoinedStr) or (
                isinstance(v, ast.BinOp) and isinstance(v.op, ast.Mod)
                and isinstance(v.left, ast.Constant)
                and isinstance(v.left.value, str)):
            r.instance(fi.where, nd, 'text naming the two values')
            continue
        # index forms over count: evaluate for small counts
        cnt = roles['count']
        idx_ok = True
        which = None
        for c in (2, 3, 4, 5, 6, 7):
            env = {cnt: c, 'half': c // 2}
            # a second name for the count:  n = len(values)
            for st in own_nodes(fi.node):
                if isinstance(st, ast.Assign) and len(st.targets) == 1 \
                        and isinstance(st.targets[0], ast.Name) and \
                        norm(st.value) == f'len({vals})':
                    env[st.targets[0].id] = c
            cnt_names = set(env)
            # locals bound from the count (half = count // 2)
            for st in own_nodes(fi.node):
                if isinstance(st, ast.Assign) and len(st.targets) == 1 \
                        and isinstance(st.targets[0], ast.Name) and any(
                            isinstance(x, ast.Name) and x.id in cnt_names
                            for x in ast.walk(st.value)):
                    try:
                        env[st.targets[0].id] = constfold.fold(
                            st.value, {}, dict(env))
                    except constfold.NotConstant:
                        pass
            got = set()
            class _Len(ast.NodeTransformer):
                def visit_Call(self, node):
                    if norm(node) == f'len({vals})':
                        return ast.copy_location(ast.Constant(value=c), node)
                    return self.generic_visit(node)
            for sx in subs:
                try:
                    got.add(constfold.fold(
                        _Len().visit(_copy(sx.slice)), {}, dict(env)))
                except constfold.NotConstant:
                    idx_ok = False
            if len(subs) == 1:
                which = 'odd'
                if c % 2 == 1 and got != {c // 2}:
                    idx_ok = False
            elif len(subs) >= 2:
                which = 'even'
                if c % 2 == 0 and got != {c // 2, c // 2 - 1}:
                    idx_ok = False
        r.instance(fi.where, nd, f'{which} count: indexes '
                   + ('are the middle' if idx_ok else 'ARE NOT THE MIDDLE'))
        if not idx_ok:
            r.finding(fi.where, nd, 'the median is not taken from the '
                      'middle of the sorted values', node=nd, ctx=fi)
        if which != 'even':
            continue
        n_even += 1
        # the combination of the two middle values is their mean
        mp = {}
        e2 = _Sub(vals, mp).visit(_copy(v))
        if len(mp) != 2:
            continue
        a, b = sorted(mp.values())
        try:
            val = ratfun.evaluate(e2, {})
        except ratfun.NotRational:
            val = None
        mean = (Rat.sym(a) + Rat.sym(b)) / Rat.const(2)
        ok = val is not None and val.same(mean)
        r.instance(fi.where, norm(v), 'mean of the two middle values' if ok
                   else 'NOT THEIR MEAN')
        if not ok:
            r.finding(fi.where, nd, 'for an even count the median is not '
                      'the mean of the two middle values', node=nd, ctx=fi)
            continue
        floors = [x for x in ast.walk(origin) if isinstance(x, ast.BinOp)
                  and isinstance(x.op, ast.FloorDiv)]
        for fl in floors:
            guarded = _int_guarded(fl, None) or _int_guarded(nd, None)
            # a witness: the floored mean of 1.5 and 2.0
            wit = None
            try:
                wit = constfold.fold(e2, {}, {a: 2.0, b: 1.5})
            except constfold.NotConstant:
                pass
            r.instance(fi.where, norm(fl), 'floor division: ' + (
                'integers only' if guarded else 'ANY NUMBER'))
            if not guarded:
                r.finding(fi.where, 'floored mean of the middle values',
                          'the two middle values are combined with floor '
                          'division whatever their type: for non-integer '
                          'numbers the result can lie below both (values '
                          f'1.5 and 2.0 give {wit!r}); the median of an '
                          'even number of values must lie between the two '
                          'middle values', node=nd, ctx=fi)
    if not n_even:
        raise AnalysisError('statistics: even-count median not found')
    return r


class _Sub(ast.NodeTransformer):
    """values[<i>] -> symbol per distinct index text"""

    def __init__(self, vals, mp):
        self.vals = vals
        self.mp = mp

    def visit_Subscript(self, node):
        if norm(node.value) == self.vals:
            k = norm(node.slice)
            if k not in self.mp:
                self.mp[k] = f'm{len(self.mp) + 1}'
            return ast.copy_location(ast.Name(id=self.mp[k],
                                              ctx=ast.Load()), node)
        return self.generic_visit(node)


def _copy(e):
    """Structural copy of an expression: the fields of the grammar only
    (a deepcopy would follow the parent links the model attaches to every
    node and copy the whole module each time)."""
    if isinstance(e, list):
        return [_copy(x) for x in e]
    if not isinstance(e, ast.AST):
        return e
    new = type(e)(**{f: _copy(getattr(e, f, None)) for f in e._fields})
    for a in ('lineno', 'col_offset', 'end_lineno', 'end_col_offset'):
        if hasattr(e, a):
            setattr(new, a, getattr(e, a))
    return new


def _subst(e, name, repl):
    class T(ast.NodeTransformer):
        def visit_Name(self, node):
            if node.id == name and isinstance(node.ctx, ast.Load):
                return _copy(repl)
            return node
    return T().visit(_copy(e))


def rule_missing(model):
    r = RuleResult('C16.R5', 'None and the missing-value marker are not '
                   'counted: on the non-numeric path a value is recorded '
                   'only under the test that it is neither')
    fi = _fi(model)
    loop = _item_loop(fi)
    roles = _names(model, fi)
    item = loop.target.id
    n = 0
    for c in ast.walk(loop):
        if isinstance(c, ast.Call) and isinstance(c.func, ast.Attribute) \
                and c.func.attr == 'append' and \
                norm(c.func.value) != roles['values'] and c.args and \
                norm(c.args[0]) == item:
            n += 1
            guarded = False
            for anc in ancestors(c):
                if anc is loop:
                    break
                if isinstance(anc, ast.If) and \
                        'is not None' in norm(anc.test) and \
                        item in norm(anc.test):
                    guarded = True
            r.instance(fi.where, c, 'under `is not None`' if guarded
                       else 'UNGUARDED')
            if not guarded:
                r.finding(fi.where, c, 'a None value is recorded as a '
                          'non-numeric value: it is counted and takes part '
                          'in min / max / median', node=c, ctx=fi)
    if not n:
        raise AnalysisError('statistics: non-numeric path not found')
    return r


FIRST_MATCH_CONTROL = '''
class sv:
    statistic_names = ('total', 'variance', 'variance-n')

    def __getitem__(self, key):
        suffix = key
        for stat in self.statistic_names:
            alias = stat.replace('-', '_') + '_'
            if suffix.startswith(alias):
                return self[stat + '-' + suffix[len(alias):]]
        raise KeyError(key)
'''


def _first_match_loops(model, ci):
    """(fi, loop, [alias per table entry]) for every loop over the class's
    statistic table that selects an entry by a startswith test on an alias
    computed from the loop variable."""
    out = []
    tab = ci.attrs.get('statistic_names')
    if tab is None:
        return out
    try:
        names = constfold.fold(tab, {})
    except constfold.NotConstant:
        return out
    for fi in ci.methods.values():
        for lp in own_nodes(fi.node):
            if not (isinstance(lp, ast.For) and isinstance(
                    lp.target, ast.Name) and 'statistic_names' in norm(
                        lp.iter)):
                continue
            var = lp.target.id
            tests = [c for c in ast.walk(lp) if isinstance(c, ast.Call)
                     and isinstance(c.func, ast.Attribute)
                     and c.func.attr == 'startswith' and len(c.args) == 1]
            for t in tests:
                a = t.args[0]
                if isinstance(a, ast.Name):
                    defs = [d for st in lp.body for d in ast.walk(st)
                            if isinstance(d, ast.Assign) and any(
                                isinstance(x, ast.Name) and x.id == a.id
                                for x in d.targets)]
                    if len(defs) != 1:
                        continue
                    a = defs[0].value
                if not any(isinstance(x, ast.Name) and x.id == var
                           for x in ast.walk(a)):
                    continue
                try:
                    aliases = [constfold.fold(a, {}, {var: nm})
                               for nm in names]
                except constfold.NotConstant:
                    continue
                out.append((fi, lp, list(zip(names, aliases))))
    return out


def rule_first_match(model):
    r = RuleResult('C16.R6', 'every statistic is reachable under every '
                   'spelling: where a statistic is selected by the first '
                   'table entry whose alias the requested name starts with, '
                   'no alias is a prefix of a later one (variance_ would '
                   'capture variance_n_...)')
    from ..model import Model
    cm = Model(sources={'src/DocumentTemplate/zz_firstmatch_control.py':
                        FIRST_MATCH_CONTROL}, root=None)
    cl = _first_match_loops(
        cm, cm.modules['zz_firstmatch_control'].classes['sv'])
    r.control('control: variance_ shadows variance_n_', bool(cl) and any(
        b.startswith(a) for i, (_, a) in enumerate(cl[0][2])
        for _, b in cl[0][2][i + 1:]))
    ci = model.modules['DT_InSV'].classes.get('sequence_variables')
    if ci is None or 'statistic_names' not in ci.attrs:
        raise AnalysisError('C16.R6: sequence_variables.statistic_names '
                            'not found')
    try:
        names = constfold.fold(ci.attrs['statistic_names'], {})
    except constfold.NotConstant:
        raise AnalysisError('C16.R6: statistic_names is not a constant '
                            'table')
    r.instance('DT_InSV:sequence_variables', 'statistic_names',
               f'{len(names)} names')
    for fi, lp, pairs in _first_match_loops(model, ci):
        r.instance(fi.where, f'for {norm(lp.target)} in {norm(lp.iter)}',
                   'first match by alias prefix')
        for i, (na, a) in enumerate(pairs):
            for nb, b in pairs[i + 1:]:
                if b.startswith(a):
                    r.finding(fi.where, f'{a!r} shadows {b!r}',
                              f'the alias {a!r} of {na!r} is tried before '
                              f'{b!r} and is a prefix of it: a request for '
                              f'{nb}-x under this spelling is answered '
                              f'with {na} of a field that does not exist '
                              '(an empty value)', node=lp, ctx=fi)
    return r


def rule_every_item(model):
    r = RuleResult('C16.R7', 'every item takes part in the statistics or is '
                   'skipped on its own: the item loop is never left early '
                   '(no break / return inside it), so one item without the '
                   'value does not hide the items after it')
    fi = _fi(model)
    loop = _item_loop(fi)
    exits = [x for x in ast.walk(loop)
             if isinstance(x, (ast.Break, ast.Return))]
    # a break that belongs to an inner loop is not an exit of this one
    real = []
    for x in exits:
        inner = False
        for anc in ancestors(x):
            if anc is loop:
                break
            if isinstance(anc, (ast.For, ast.While)) and \
                    isinstance(x, ast.Break):
                inner = True
        if not inner:
            real.append(x)
    r.instance(fi.where, f'for {norm(loop.target)} in {norm(loop.iter)}',
               'runs over all items' if not real else 'LEFT EARLY')
    for x in real:
        r.finding(fi.where, f'{norm(x)} inside the item loop', 'the item '
                  'loop of the statistics is left early: once one item '
                  'cannot provide the value, all later items are dropped '
                  'from count, total, extremes, mean, variance and median',
                  node=x, ctx=fi)
    return r


def _inl(rule):
    """The formula rules follow one function (statistics): they run on the
    view in which helpers that are new w.r.t. the reference tree (a
    collecting phase, a median helper) are inlined (normalise.N2)."""
    def run(model):
        return rule(model.inlined_view())
    run.__name__ = rule.__name__
    return run


def rule_count_always(model):
    from ..flow import BaseState, Domain, Interp
    from .c10 import _key_prefix

    class S(BaseState):
        def __init__(self, stored=False):
            self.stored = stored

        def key(self):
            return (self.stored,)

        def copy(self):
            n = S(self.stored)
            n.trace = self.trace
            return n

    class D(Domain):
        def __init__(self, fi):
            self.fi = fi
            self.sites = 0

        def raises(self, node, st):
            return ['ZeroDivisionError', 'TypeError'] if any(
                isinstance(x, (ast.BinOp, ast.Call, ast.Compare))
                for x in ast.walk(node)) else []

        def effects(self, stmt, st):
            if isinstance(stmt, ast.Assign):
                for t in stmt.targets:
                    if not isinstance(t, ast.Subscript):
                        continue
                    pre = _key_prefix(model, self.fi, t.slice)
                    blank = isinstance(stmt.value, ast.Constant) and \
                        stmt.value.value == ''
                    if pre == 'count-' and not blank:
                        self.sites += 1
                        if not st.stored:
                            st = st.copy()
                            st.stored = True
                    elif (pre == 'count-' and blank) or (
                            not pre and blank):
                        # the preset of every statistic to ''
                        if st.stored:
                            st = st.copy()
                            st.stored = False
            return st

    r = RuleResult('C16.R8', 'count-<name> is a number on every path: the '
                   'store of the count is passed on every way through the '
                   'summary computation after the statistics were preset '
                   "to '' (a column whose values are all missing has count "
                   "0, not '')")
    fi = model.func('DT_InSV', 'sequence_variables.statistics')
    n = 0
    for f in model.closure(fi):
        dom = D(f)
        it = Interp(dom, max_states=120000)
        outs = it.run(f.node, S())
        if it.overflow:
            raise AnalysisError(f'C16.R8: state budget in {f.where}')
        if not dom.sites:
            continue
        n += 1
        ends = [o for o in outs if o.kind in ('normal', 'return')]
        bad = [o for o in ends if not o.state.stored]
        r.instance(f.where, "data['count-%s' % name] = count",
                   f'{len(ends)} normal exit(s), {len(bad)} without the '
                   'count')
        if bad:
            r.finding(f.where, 'count-<name> not stored', 'a path through '
                      'the summary computation ends without having stored '
                      "count-<name>: it keeps the preset '' (for a column "
                      'without a single usable value the count must be 0)',
                      node=bad[0].node if bad[0].node is not None
                      else f.node, ctx=f, path=bad[0].state.trace)
    if n < 1:
        raise AnalysisError('C16.R8: the store of count-<name> was not '
                            'found in the summary computation')
    return r


RULES = [_inl(rule_formulas), _inl(rule_extremes), _inl(rule_median),
         _inl(rule_missing), rule_first_match, _inl(rule_every_item),
         _inl(rule_count_always)]
EXPLANATION = (
    'Formula agreement over the domain of rational functions (canonical '
    'quotients of polynomials in S1, S2, n; sqrt uninterpreted): one loop '
    'round changes the accumulators by x, x*x; the published statistics '
    'equal the textbook definitions.  Extremes decided over the finite set '
    'of orderings by partial evaluation; median index forms folded for '
    'small counts; floor division on the middle values flagged unless '
    'guarded by an integer test.')
ASSUMPTIONS = ['floating-point rounding is not modelled (formulas are '
               'compared as exact rational functions)',
               'what values compare / add (user types) is not modelled',
               'the text of the "between a and b" fallback is not judged']
TRUSTED = ['python ast', 'fractions']
