"""C17 -- rendering is repeatable and side-effect free; templates survive
persistence.

R1 no render-time write to template / compiled-tag / class / module state
R2 every source mutator re-cooks
R3 pickled state skips exactly the volatile prefixes
R4 file templates never store content
R5 caller data is never mutated in place (all render code)
R6 mutable default arguments are never mutated
"""
import ast

from ..alias import analyse
from ..core import AnalysisError
from ..core import RuleResult
from ..core import norm
from ..flow import BaseState
from ..flow import Domain
from ..flow import Interp
from ..model import own_nodes
from ..shared import render_functions
from ..shared import shared_writes

# reviewed render-time stores (C17: no cross-render flow; see C18 for races)
REVIEWED = {}


def rule_hidden_state(model):
    r = RuleResult('C17.R1', 'rendering stores nothing on the template, the '
                   'compiled tag objects, classes or module-level '
                   'containers')
    funcs = render_functions(model)
    for w in shared_writes(model):
        fi, n = w['fi'], w['node']
        key = (fi.where, w['target'])
        r.instance(fi.where, n, w['kind'])
        if key in REVIEWED:
            continue
        r.finding(fi.where, n, f'render-time write to {w["target"]} '
                  f'({w["kind"]}): state kept on an object shared by all '
                  'renders makes a rendering depend on earlier ones',
                  node=n, ctx=fi)
    r.instance('<render phase>', f'{len(funcs)} functions scanned')
    r.stats = {'render_functions': len(funcs)}
    if len(funcs) < 80:
        raise AnalysisError('C17.R1: render phase has fewer than 80 '
                            'functions (call graph lost)')
    return r


class DS(BaseState):
    __slots__ = ('dirty', 'trace', 'cur_exc')

    def __init__(self, dirty=False):
        self.dirty = dirty
        self.trace = ()
        self.cur_exc = None

    def key(self):
        return self.dirty

    def copy(self):
        n = DS(self.dirty)
        n.trace = self.trace
        return n


class RecookDomain(Domain):
    SRC = ('raw', 'edited_source')

    def effects(self, stmt, st):
        dirty = st.dirty
        for n in ast.walk(stmt):
            if isinstance(n, ast.Attribute) and \
                    isinstance(n.ctx, ast.Store) and n.attr in self.SRC and \
                    isinstance(n.value, ast.Name) and n.value.id == 'self':
                dirty = True
        for n in ast.walk(stmt):
            if isinstance(n, ast.Call) and isinstance(n.func, ast.Attribute)\
                    and n.func.attr in ('cook', 'munge') and \
                    isinstance(n.func.value, ast.Name) and \
                    n.func.value.id == 'self':
                dirty = False
            if isinstance(n, ast.Delete):
                for t in n.targets:
                    if isinstance(t, ast.Attribute) and \
                            t.attr == '_v_cooked':
                        dirty = False
        return DS(dirty) if dirty != st.dirty else st

    def on_return(self, node, st):
        ns = st
        if node.value is not None:
            ns = self.effects(ast.Expr(value=node.value), st)
        return [], ns


def rule_recook(model):
    r = RuleResult('C17.R2', 'every method that changes the template source '
                   're-cooks before it returns')
    n = 0
    for fi in model.all_funcs():
        if fi.cls is None or fi.name == '__init__':
            continue
        stores = [x for x in own_nodes(fi.node)
                  if isinstance(x, ast.Attribute)
                  and isinstance(x.ctx, ast.Store)
                  and x.attr in RecookDomain.SRC
                  and isinstance(x.value, ast.Name) and x.value.id == 'self']
        if not stores:
            continue
        n += 1
        outs = Interp(RecookDomain()).run(fi.node, DS())
        bad = [o for o in outs if o.kind in ('normal', 'return')
               and o.state.dirty]
        r.instance(fi.where, stores[0], 'STALE' if bad else 're-cooks')
        for o in bad:
            r.finding(fi.where, o.node if o.node is not None
                      else 'fall-through', 'the source is changed but the '
                      'compiled blocks are not rebuilt on this path: the '
                      'template keeps rendering the old source',
                      node=o.node, ctx=fi)
    if n < 3:
        raise AnalysisError(f'C17.R2: only {n} source mutators found')
    r.floor = 3
    return r


def rule_getstate(model):
    r = RuleResult('C17.R3', '__getstate__ omits exactly the volatile '
                   'attributes (prefix _v_ / _p_) a template can carry '
                   'and keeps every other one (partial evaluation of '
                   '__getstate__ over the attribute names the template '
                   'classes assign)')
    from .. import miniexec
    fi = model.func('DT_String', 'String.__getstate__')
    S = model.cls('DT_String', 'String')
    # every attribute name some method of a template class (String, its
    # subclasses and their mix-ins) stores on self
    classes = {S} | set(model.subclasses(S))
    for c in list(classes):
        for b_ in c.node.bases:
            t = model.resolve_name_expr(c.module, b_)
            if t and t[0] == 'class':
                classes.add(t[1])
    keys = set()
    for c in classes:
        for m in c.methods.values():
            for n in ast.walk(m.node):
                if isinstance(n, ast.Attribute) and isinstance(
                        n.ctx, ast.Store) and isinstance(
                        n.value, ast.Name) and n.value.id == 'self':
                    keys.add(n.attr)
    volatile = {k for k in keys if k[:3] in ('_v_', '_p_')}
    if len(keys) < 6 or len(volatile) < 2:
        raise AnalysisError(f'C17.R3: template attributes not found '
                            f'({sorted(keys)})')
    env = {'self.__dict__': {k: f'<{k}>' for k in sorted(keys)}}
    a_ = fi.node.args
    pos = a_.posonlyargs + a_.args
    for p_, d in zip(pos[len(pos) - len(a_.defaults):], a_.defaults):
        ok, v = model.fold(d, fi)
        if not ok:
            raise AnalysisError('__getstate__: default of '
                                f'{p_.arg} is not constant')
        env[p_.arg] = v
    try:
        state = miniexec.run(fi.node, env, fi.module.globals)
    except miniexec.Unsupported as exc:
        # not evaluable as a whole (a test on a value): what can still be
        # decided is that no non-volatile attribute is removed by name
        dropped = []
        for x in own_nodes(fi.node):
            k_ = None
            if isinstance(x, ast.Delete):
                for t in x.targets:
                    if isinstance(t, ast.Subscript) and isinstance(
                            t.slice, ast.Constant):
                        k_ = t.slice.value
            elif isinstance(x, ast.Call) and isinstance(
                    x.func, ast.Attribute) and x.func.attr == 'pop' and \
                    x.args and isinstance(x.args[0], ast.Constant):
                k_ = x.args[0].value
            if k_ in keys and k_ not in volatile:
                dropped.append((x, k_))
        if not dropped:
            raise AnalysisError(f'__getstate__ not understood: {exc}')
        for x, k_ in dropped:
            r.instance(fi.where, x, f'{k_} removed under a condition')
            r.finding(fi.where, x, f'the attribute {k_} can be removed from '
                      'the pickled state (under a condition on its value): '
                      'a template that went through pickling or deepcopy '
                      'no longer has it and falls back to whatever its '
                      'readers assume, unlike the template it was copied '
                      'from', node=x, ctx=fi)
        return r
    if not isinstance(state, dict):
        raise AnalysisError('__getstate__ does not return a dict')
    kept = set(state)
    r.instance(fi.where, f'kept {sorted(kept)}')
    r.instance(fi.where, f'omitted {sorted(keys - kept)}')
    for k in sorted(kept & volatile):
        r.finding(fi.where, f'{k} kept', f'the volatile attribute {k} '
                  '(assigned by a template class) ends up in the pickled / '
                  'deep-copied state: compiled or cached data is '
                  'persisted and used instead of being rebuilt',
                  node=fi.node, ctx=fi)
    for k in sorted(keys - volatile - kept):
        r.finding(fi.where, f'{k} omitted', f'the attribute {k} is dropped '
                  'from the pickled state', node=fi.node, ctx=fi)
    for k in sorted(kept - volatile):
        if state[k] != f'<{k}>':
            r.finding(fi.where, f'{k} changed', f'the value of {k} is '
                      'replaced in the pickled state', node=fi.node,
                      ctx=fi)
    # no subclass overrides it with something else
    S = model.cls('DT_String', 'String')
    for c in model.subclasses(S):
        if '__getstate__' in c.methods:
            r.finding(c.methods['__getstate__'].where, '__getstate__',
                      'a template subclass overrides __getstate__',
                      node=c.node)
    return r


def rule_file(model):
    r = RuleResult('C17.R4', 'a file-based template never stores the file '
                   'content (the pickle holds the file name)')
    fm = model.cls('DT_String', 'FileMixin')
    rr = fm.methods.get('read_raw')
    if rr is None:
        raise AnalysisError('FileMixin.read_raw not found')
    stores = [n for n in own_nodes(rr.node) if isinstance(n, ast.Attribute)
              and isinstance(n.ctx, ast.Store)]
    r.instance(rr.where, f'{len(stores)} attribute store(s)')
    for s in stores:
        r.finding(rr.where, s, 'read_raw stores state on the template: the '
                  'file content would be pickled / go stale', node=s,
                  ctx=rr)
    init = fm.methods.get('__init__')
    if init is not None:
        p = init.params()[1]
        raws = [n for n in own_nodes(init.node) if isinstance(n, ast.Assign)
                and any(isinstance(t, ast.Attribute) and t.attr == 'raw'
                        for t in n.targets)]
        for a in raws:
            r.instance(init.where, a)
            if norm(a.value) != p:
                r.finding(init.where, a, 'the file template does not keep '
                          'the file *name* as its raw source', node=a,
                          ctx=init)
    # the content is read from the file each time
    opens = [n for n in own_nodes(rr.node) if isinstance(n, ast.Call)
             and isinstance(n.func, ast.Name) and n.func.id == 'open']
    if not opens:
        r.finding(rr.where, 'open(self.raw)', 'read_raw does not read the '
                  'file', node=rr.node, ctx=rr)
    return r


def rule_caller_data(model):
    r = RuleResult('C17.R5', 'no render code mutates an object that may be '
                   'the caller\'s (namespace values, results of client '
                   'methods)')
    n_fn = 0
    for fi in render_functions(model):
        if fi.module.short in ('DT_In', 'DT_InSV'):
            continue          # judged by C13.R1 with its own seeds
        params = fi.params()
        ns = {p for p in params if p in ('md', '_md')}
        if not ns and fi.module.short != 'TreeTag' and \
                fi.where != 'DT_String:String.__call__':
            continue
        n_fn += 1
        client = set()
        for p in params:
            if p in ('self', 'item', 'node', 'ob') and \
                    fi.module.short == 'TreeTag' and fi.cls is None:
                client.add(p)
        if fi.where == 'DT_String:String.__call__':
            client |= set(fi.params()[1:3])
            n_fn += 0
        dom = analyse(model, fi, client, ns_names=tuple(ns) or ('md',),
                      client_results=('get', 'getattr', 'items'))
        for nid, (node, recv) in dom.mutations.items():
            r.finding(fi.where, node, f'`{recv}` may be an object owned by '
                      'the caller (a namespace value or the result of a '
                      'client method) and is modified in place', node=node,
                      ctx=fi)
        r.instance(fi.where, f'def {fi.name}',
                   f'{len(dom.mutations)} mutation(s) of caller data')
    if n_fn < 10:
        raise AnalysisError('C17.R5: fewer than 10 functions analysed')
    return r


def rule_defaults(model, rule_id='C17.R6', select=None, floor=10):
    r = RuleResult(rule_id, 'mutable default arguments (one object for the '
                   'life of the module) are never mutated and never handed '
                   'out (returned / stored)')
    n = 0
    for fi in model.all_funcs():
        if select is not None and not select(fi):
            continue
        if select is not None:
            r.instance(fi.where, 'def ' + fi.name, 'scanned')
        a = fi.node.args
        pos = a.posonlyargs + a.args
        for p, d in list(zip(pos[len(pos) - len(a.defaults):], a.defaults)) \
                + [(p, d) for p, d in zip(a.kwonlyargs, a.kw_defaults)
                   if d is not None]:
            if not isinstance(d, (ast.Dict, ast.List, ast.Set)):
                continue
            n += 1
            name = p.arg
            muts = []
            rebound = False
            for x in own_nodes(fi.node):
                if isinstance(x, ast.Assign) and any(
                        isinstance(t, ast.Name) and t.id == name
                        for t in x.targets):
                    rebound = True
                if isinstance(x, ast.Subscript) and \
                        isinstance(x.ctx, (ast.Store, ast.Del)) and \
                        isinstance(x.value, ast.Name) and \
                        x.value.id == name:
                    muts.append(x)
                if isinstance(x, ast.Call) and \
                        isinstance(x.func, ast.Attribute) and \
                        isinstance(x.func.value, ast.Name) and \
                        x.func.value.id == name and x.func.attr in (
                            'append', 'update', 'setdefault', 'pop',
                            'clear', 'extend', 'insert', 'remove',
                            'popitem'):
                    muts.append(x)
            escapes = _default_escapes(fi, name)
            r.instance(fi.where, f'{name}={norm(d)}',
                       f'{len(muts)} mutation(s), {len(escapes)} escape(s)')
            for m in muts:
                if not rebound:
                    r.finding(fi.where, m, f'the mutable default of '
                              f'`{name}` is modified: the change persists '
                              'across calls', node=m, ctx=fi)
            for e in escapes:
                if not rebound:
                    r.finding(fi.where, e, f'the mutable default of '
                              f'`{name}` (one object for the life of the '
                              'module) is handed out: it is returned or '
                              'stored, so whoever updates the result in '
                              'place changes what every later call gets',
                              node=e, ctx=fi)
    r.require_floor(floor)
    return r


def _contains_name(e, name):
    """Is local `name` itself (not a value computed from it) an element of
    expression e: e is the name, or a list / tuple / dict / set display
    (nested) one of whose elements is."""
    if isinstance(e, ast.Name):
        return e.id == name
    if isinstance(e, (ast.List, ast.Tuple, ast.Set)):
        return any(_contains_name(x, name) for x in e.elts)
    if isinstance(e, ast.Dict):
        return any(_contains_name(x, name) for x in e.values if x)
    if isinstance(e, ast.IfExp):
        return _contains_name(e.body, name) or _contains_name(e.orelse, name)
    if isinstance(e, ast.BoolOp):
        return any(_contains_name(x, name) for x in e.values)
    if isinstance(e, ast.Starred):
        return False
    return False


def _default_escapes(fi, name):
    out = []
    for x in own_nodes(fi.node):
        if isinstance(x, ast.Return) and x.value is not None and \
                _contains_name(x.value, name):
            out.append(x)
        elif isinstance(x, ast.Assign) and _contains_name(x.value, name) \
                and any(isinstance(t, (ast.Attribute, ast.Subscript))
                        for t in x.targets):
            out.append(x)
        elif isinstance(x, ast.Call) and isinstance(x.func, ast.Attribute) \
                and x.func.attr in ('append', 'insert', 'setdefault',
                                    'extend') and x.args and \
                _contains_name(x.args[-1], name):
            out.append(x)
    return out


def _truth3(e, env):
    """Three-valued truth of a test under env: name -> ('none'|'empty'|
    'given'); 'empty' = an object that is not None but false."""
    if isinstance(e, ast.Constant):
        return bool(e.value)
    if isinstance(e, ast.Name):
        v = env.get(e.id)
        if v == 'given':
            return True
        if v in ('none', 'empty'):
            return False
        d = env.get('@defs', {}).get(e.id)
        if d is not None:
            # new_defaults = mapping is not None or vars
            return _truth3(d, {k: w for k, w in env.items() if k != '@defs'})
        return None
    if isinstance(e, ast.UnaryOp) and isinstance(e.op, ast.Not):
        v = _truth3(e.operand, env)
        return None if v is None else not v
    if isinstance(e, ast.BoolOp):
        vs = [_truth3(v, env) for v in e.values]
        if isinstance(e.op, ast.And):
            if any(v is False for v in vs):
                return False
            return True if all(v is True for v in vs) else None
        if any(v is True for v in vs):
            return True
        return False if all(v is False for v in vs) else None
    if isinstance(e, ast.Compare) and len(e.ops) == 1 and \
            isinstance(e.left, ast.Name) and e.left.id in env and \
            isinstance(e.comparators[0], ast.Constant) and \
            e.comparators[0].value is None:
        isnone = env[e.left.id] == 'none'
        if isinstance(e.ops[0], (ast.Is, ast.Eq)):
            return isnone
        if isinstance(e.ops[0], (ast.IsNot, ast.NotEq)):
            return not isnone
    if isinstance(e, ast.Call) and norm(e.func) == 'len' and e.args and \
            isinstance(e.args[0], ast.Name) and e.args[0].id in env:
        return env[e.args[0].id] == 'given'
    return None


def rule_munge(model):
    r = RuleResult('C17.R7', 're-editing: munge() re-initialises the '
                   'defaults whenever a mapping is given -- also an empty '
                   'one -- or keyword defaults are given, so that the edited '
                   'template equals a new one built from the same source '
                   'and defaults')
    from ..model import ancestors
    fi = model.func('DT_String', 'String.munge')
    ps = fi.params()
    kw = fi.node.args.kwarg.arg if fi.node.args.kwarg else None
    mp = next((p for p in ps if p not in ('self',) and 'map' in p), None)
    if mp is None or kw is None:
        raise AnalysisError('munge: mapping / **vars parameters not found')
    calls = [c for c in own_nodes(fi.node) if isinstance(c, ast.Call)
             and 'DT_String:String.initvars' in model.callee_names(c, fi)]
    # conditions named first:  new_defaults = mapping is not None or vars
    cond_defs = {}
    for x in own_nodes(fi.node):
        if isinstance(x, ast.Assign) and len(x.targets) == 1 and isinstance(
                x.targets[0], ast.Name) and x.targets[0].id not in ps and \
                isinstance(x.value, (ast.BoolOp, ast.Compare, ast.UnaryOp,
                                     ast.Name)):
            nm = x.targets[0].id
            cond_defs[nm] = None if nm in cond_defs else x.value
    cond_defs = {k: v for k, v in cond_defs.items() if v is not None}
    if not calls:
        r.instance(fi.where, 'initvars(...)', 'MISSING')
        r.finding(fi.where, 'initvars(...)', 'munge no longer '
                  're-initialises the defaults', node=fi.node, ctx=fi)
        return r
    # the same routine as the constructor, with the arguments as given:
    # which of mapping / keyword default wins a name is decided there
    # (C02.R2) and must not be pre-empted by merging them here
    for c in calls:
        got = [norm(a) for a in c.args[:2]]
        ok_a = got == [mp, kw]
        r.instance(fi.where, c, 'arguments handed on as given' if ok_a
                   else 'ARGUMENTS REWRITTEN')
        if not ok_a:
            r.finding(fi.where, c, f'munge() hands initvars({", ".join(got)}) '
                      f'instead of ({mp}, {kw}): mapping and keyword '
                      'defaults are merged before the routine that decides '
                      'their precedence sees them, so an edited template '
                      'and a new one built with the same arguments resolve '
                      'a name given in both differently', node=c, ctx=fi)
    scenarios = [({mp: 'empty', kw: 'empty'}, 'an empty mapping'),
                 ({mp: 'given', kw: 'empty'}, 'a mapping'),
                 ({mp: 'none', kw: 'given'}, 'keyword defaults only')]
    for c in calls:
        guards = []
        child = c
        for a in ancestors(c):
            if a is fi.node:
                break
            if isinstance(a, ast.If):
                if any(child is x or any(child is y for y in ast.walk(x))
                       for x in a.body):
                    guards.append((a.test, True))
                else:
                    guards.append((a.test, False))
            child = a
        for env, what in scenarios:
            verdict = True
            for t, pos in guards:
                v = _truth3(t, dict(env, **{'@defs': cond_defs}))
                if v is None:
                    verdict = None
                    break
                if v != pos:
                    verdict = False
                    break
            r.instance(fi.where, f'munge called with {what}',
                       {True: 'defaults re-initialised',
                        False: 'DEFAULTS KEPT', None: 'undecided'}[verdict])
            if verdict is False:
                r.finding(fi.where, guards[0][0] if guards else c,
                          f'munge() called with {what} does not '
                          're-initialise the defaults: the old defaults '
                          'survive and the edited template differs from a '
                          'new one built from the same source and defaults',
                          node=c, ctx=fi)
            elif verdict is None:
                raise AnalysisError('munge: guard of initvars not '
                                    f'understood ({norm(guards[0][0])})')
    # ... and the new source is taken over whenever one is given, the empty
    # text included (an edit to '' must not leave the old text in place)
    src = next((p for p in ps if p not in ('self', mp)), None)
    stores = [x for x in own_nodes(fi.node) if isinstance(x, ast.Assign)
              and isinstance(x.value, ast.Name) and x.value.id == src
              and any(isinstance(t, ast.Attribute) and
                      norm(t.value) == 'self' for t in x.targets)]
    if src is None or not stores:
        raise AnalysisError('munge: the store of the new source was not '
                            'found')
    for x in stores:
        guards = []
        child = x
        for a in ancestors(x):
            if a is fi.node:
                break
            if isinstance(a, ast.If):
                guards.append((a.test, any(
                    child is b_ or any(child is y for y in ast.walk(b_))
                    for b_ in a.body)))
            child = a
        verdict = True
        for t, pos in guards:
            v = _truth3(t, {src: 'empty', '@defs': cond_defs})
            if v is None:
                verdict = None
                break
            if v != pos:
                verdict = False
                break
        r.instance(fi.where, "munge called with the source ''",
                   {True: 'source replaced', False: 'OLD SOURCE KEPT',
                    None: 'undecided'}[verdict])
        if verdict is False:
            r.finding(fi.where, guards[0][0], 'munge() / manage_edit() '
                      "called with the empty text '' keeps the old source "
                      '(the guard tests the truth value of the new source, '
                      'not whether one was given): the edited template '
                      'still renders, reads back and pickles the old text',
                      node=x, ctx=fi)
    return r


def rule_one_shot(model):
    r = RuleResult('C17.R8', 'no one-shot iterator (generator expression, '
                   'reversed/map/filter/zip/iter/enumerate/itertools '
                   'result, generator) is stored in an attribute or a '
                   'container entry: what is consulted again must be '
                   're-iterable')
    from .. import oneshot
    return oneshot.fill_rule(r, model, lambda fi, kind: True, 150,
                             'an attribute / container entry')


IMMUTABLE_CALLS = {'str', 'int', 'float', 'bool', 'tuple', 'frozenset',
                   'bytes', 'len', 'repr', 'join', 'format', 'decode',
                   'encode', 'lower', 'upper', 'strip', 'replace', 'compile'}


def _maybe_mutable(model, fi, e, _depth=0):
    if e is None or isinstance(e, (ast.Constant, ast.JoinedStr)):
        return False
    if isinstance(e, (ast.List, ast.Dict, ast.Set, ast.ListComp,
                      ast.DictComp, ast.SetComp)):
        return True
    if isinstance(e, ast.Tuple):
        return any(_maybe_mutable(model, fi, x, _depth) for x in e.elts)
    if isinstance(e, ast.BinOp):
        return _maybe_mutable(model, fi, e.left, _depth) or \
            _maybe_mutable(model, fi, e.right, _depth)
    if isinstance(e, ast.Call):
        f = e.func
        nm = f.id if isinstance(f, ast.Name) else (
            f.attr if isinstance(f, ast.Attribute) else '')
        return nm not in IMMUTABLE_CALLS
    if isinstance(e, ast.Name) and _depth < 3:
        defs = [d for d in model.local_defs(fi, e.id)]
        if not defs:
            return True
        return any(d == 'param' or not isinstance(d, ast.AST) or
                   _maybe_mutable(model, fi, d, _depth + 1) for d in defs)
    return True


def rule_memo_immutable(model):
    r = RuleResult('C17.R9', 'a function whose results are memoised '
                   '(lru_cache / cache / a memo decorator) hands out '
                   'immutable values only: a cached list or dict is one '
                   'object for every later call, and this code base '
                   'updates decoded states, option dicts and block lists '
                   'in place')
    n = 0
    for fi in model.all_funcs():
        n += 1
        for dec in fi.node.decorator_list:
            d = dec.func if isinstance(dec, ast.Call) else dec
            nm = norm(d).split('.')[-1].lower()
            if not ('cache' in nm or 'memo' in nm):
                continue
            # a memo keyed by == / hash conflates equal values of
            # different types (True, 1, 1.0; 0.0, -0.0, False)
            typed = isinstance(dec, ast.Call) and any(
                k.arg == 'typed' and isinstance(k.value, ast.Constant)
                and k.value.value is True for k in dec.keywords)
            if fi.params() and not typed:
                r.finding(fi.where, f'@{norm(dec)} def {fi.name}',
                          f'{fi.name}() is memoised by the value of its '
                          'argument: equal values of different types '
                          '(True / 1 / 1.0, 0.0 / -0.0 / False) share one '
                          'entry, so what is returned for a value depends '
                          'on which equal value was seen first in the '
                          'process', node=fi.node, ctx=fi)
            rets = [x for x in own_nodes(fi.node)
                    if isinstance(x, ast.Return) and x.value is not None]
            bad = [x for x in rets if _maybe_mutable(model, fi, x.value)]
            r.instance(fi.where, f'@{norm(dec)}', 'immutable results'
                       if not bad else 'MUTABLE RESULT CACHED')
            for x in bad[:1]:
                r.finding(fi.where, f'@{norm(dec)} def {fi.name}: '
                          f'{norm(x)}', f'{fi.name}() is memoised and can '
                          f'return a mutable object (`{norm(x.value)}`): '
                          'every caller with the same argument gets the '
                          'same object, so an in-place update by one '
                          'rendering is seen by all later ones (and by '
                          'freshly built templates)', node=x, ctx=fi)
    r.instance('<all modules>', f'{n} functions', 'decorators scanned')
    if n < 100:
        raise AnalysisError('C17.R9: fewer than 100 functions scanned')
    return r


def _engine_number(model, fi, e, _depth=0):
    """A number the engine computes itself (constant, len(), arithmetic of
    those, a local that only ever holds such)."""
    if isinstance(e, ast.Constant):
        return isinstance(e.value, (int, float)) and not isinstance(
            e.value, bool)
    if isinstance(e, ast.Call) and isinstance(e.func, ast.Name) and \
            e.func.id in ('len', 'int', 'float', 'ord'):
        return True
    if isinstance(e, ast.BinOp):
        return _engine_number(model, fi, e.left, _depth) and \
            _engine_number(model, fi, e.right, _depth)
    if isinstance(e, ast.UnaryOp):
        return _engine_number(model, fi, e.operand, _depth)
    if isinstance(e, ast.Name) and _depth < 3:
        defs = model.local_defs(fi, e.id)
        return bool(defs) and all(
            isinstance(d, ast.AST) and _engine_number(model, fi, d,
                                                      _depth + 1)
            or (isinstance(d, tuple) and d[0] == 'aug')
            for d in defs)
    return False


def rule_inplace_accumulators(model):
    r = RuleResult('C17.R10', 'an accumulator that starts as a number is '
                   'updated in place (`acc += x`) only with numbers the '
                   'engine computes itself: with a value taken from client '
                   'data `0 + x` may be the client\'s own object '
                   '(`__radd__` returning self) and the next `+=` updates '
                   'that object in place')
    from ..shared import render_functions
    n = 0
    for fi in render_functions(model):
        for x in own_nodes(fi.node):
            if not (isinstance(x, ast.AugAssign) and isinstance(
                    x.target, ast.Name)):
                continue
            inits = [d for d in model.local_defs(fi, x.target.id)
                     if isinstance(d, ast.Constant)]
            if not (inits and all(isinstance(d.value, (int, float))
                                  for d in inits)):
                continue
            n += 1
            ok = _engine_number(model, fi, x.value)
            r.instance(fi.where, x, 'engine number' if ok
                       else 'CLIENT VALUE ADDED IN PLACE')
            if not ok:
                r.finding(fi.where, x, f'`{norm(x)}`: the accumulator '
                          f'starts as a number and `{norm(x.value)}` comes '
                          'from the data being rendered; after the first '
                          'round the accumulator may be an object of the '
                          'caller, which the in-place operator then '
                          'modifies (the spelled-out `acc = acc + x` makes '
                          'a new object)', node=x, ctx=fi)
    r.instance('<render code>', 'augmented assignments', f'{n} examined')
    return r


def _only_if_absent(model, fi, asg, attr):
    """Is the store `self.<attr> = ...` executed only when the attribute is
    not there yet (a memo filled on first use)?"""
    from ..model import ancestors
    prev = asg
    for a in ancestors(asg):
        if isinstance(a, ast.ExceptHandler) and a.type is not None and \
                'AttributeError' in norm(a.type):
            tr = getattr(a, '_dt_parent', None)
            if isinstance(tr, ast.Try) and any(
                    isinstance(x, ast.Attribute) and x.attr == attr
                    for s_ in tr.body for x in ast.walk(s_)):
                return True
        if isinstance(a, ast.If):
            t = norm(a.test)
            in_body = any(prev is x for x in a.body)
            neg = (f"not hasattr(self, '{attr}')" in t or
                   f"getattr(self, '{attr}', None) is None" in t or
                   f'self.{attr} is None' in t or
                   f'not self.{attr}' in t)
            pos = (t.startswith(f"hasattr(self, '{attr}')") or
                   f'self.{attr} is not None' in t)
            if (neg and in_body) or (pos and not in_body):
                return True
        if isinstance(a, (ast.FunctionDef, ast.AsyncFunctionDef)):
            break
        prev = a
    return False


def rule_memo_reset(model):
    r = RuleResult('C17.R11', 'whatever a template object remembers about '
                   'its own source on first use (an attribute filled only '
                   'when it is absent) is forgotten or recomputed when the '
                   'source is compiled again: cook() / munge() assign or '
                   'delete it -- otherwise an edited template keeps a fact '
                   'about the text it had before')
    S = model.cls('DT_String', 'String')
    tmpl = [c for c in model.all_classes() if S in model.mro(c)]
    resets = set()
    for c in tmpl:
        for mname in ('cook', 'munge', '__setstate__'):
            m = c.methods.get(mname)
            if m is None:
                continue
            for g in model.closure(m):
                for x in own_nodes(g.node):
                    tg = []
                    if isinstance(x, ast.Assign):
                        tg = x.targets
                    elif isinstance(x, ast.Delete):
                        tg = x.targets
                    elif isinstance(x, ast.Call) and norm(x.func) in (
                            'delattr', 'setattr') and len(x.args) >= 2 and \
                            isinstance(x.args[1], ast.Constant):
                        resets.add(x.args[1].value)
                    for t in tg:
                        for y in ast.walk(t):
                            if isinstance(y, ast.Attribute) and isinstance(
                                    y.value, ast.Name) and \
                                    y.value.id == 'self' and not (
                                    isinstance(x, ast.Assign) and
                                    _only_if_absent(model, g, x, y.attr)):
                                resets.add(y.attr)
    n = 0
    for c in tmpl:
        for fi in c.methods.values():
            if fi.name in ('__init__',):
                continue
            for x in own_nodes(fi.node):
                if not isinstance(x, ast.Assign):
                    continue
                for t in x.targets:
                    if isinstance(t, ast.Attribute) and isinstance(
                            t.value, ast.Name) and t.value.id == 'self' and \
                            _only_if_absent(model, fi, x, t.attr):
                        n += 1
                        ok = t.attr in resets
                        r.instance(fi.where, x, 'reset by cook/munge' if ok
                                   else 'NEVER RESET')
                        if not ok:
                            r.finding(fi.where, x, f'{t.attr} is filled on '
                                      'first use and never reset: after '
                                      'munge() / manage_edit() the template '
                                      'is compiled with what was remembered '
                                      'about the OLD source, a template '
                                      'built from the new source is not',
                                      node=x, ctx=fi)
    r.control('control: cook() assigns the compiled blocks',
              '_v_blocks' in resets)
    # the pinned tree has no such memo: a synthetic one must be recognised
    from ..model import set_parents
    ctl = ast.parse(
        'def tagre(self):\n'
        '    try:\n'
        '        e = self._v_e\n'
        '    except AttributeError:\n'
        '        e = self._v_e = 1\n'
        '    if not hasattr(self, "_v_f"):\n'
        '        self._v_f = 2\n'
        '    self._v_g = 3\n')
    set_parents(ctl)
    got = {t.attr: _only_if_absent(model, None, x, t.attr)
           for x in ast.walk(ctl) if isinstance(x, ast.Assign)
           for t in x.targets if isinstance(t, ast.Attribute)}
    r.control('control: memo idioms recognised on a synthetic method',
              got == {'_v_e': True, '_v_f': True, '_v_g': False})
    if got != {'_v_e': True, '_v_f': True, '_v_g': False}:
        raise AnalysisError(f'C17.R11: memo idiom control failed ({got})')
    if '_v_blocks' not in resets:
        raise AnalysisError('C17.R11: cook() no longer assigns _v_blocks '
                            '(anchor lost)')
    return r


_MUTATORS = {'append', 'extend', 'insert', 'update', 'setdefault', 'pop',
             'popitem', 'clear', 'remove', 'add', 'discard', 'sort',
             'reverse', '__setitem__', '__delitem__', 'appendleft'}


def _module_state_writes(mod):
    """(function, node, name) for every store into / mutation of a
    module-level name from inside a function of the module (including
    closures built by module-level decorator helpers)."""
    glob = set()
    for st in mod.tree.body:
        tg = []
        if isinstance(st, ast.Assign):
            tg = st.targets
        elif isinstance(st, ast.AnnAssign):
            tg = [st.target]
        for t in tg:
            for x in ast.walk(t):
                if isinstance(x, ast.Name):
                    glob.add(x.id)
    out = []
    for fi in mod.funcs.values():
        locs = set(fi.params())
        declared = set()
        f = fi
        while f is not None:
            for n in own_nodes(f.node):
                if isinstance(n, ast.Name) and isinstance(n.ctx, ast.Store):
                    locs.add(n.id)
                if isinstance(n, ast.Global) and f is fi:
                    declared |= set(n.names)
            locs |= set(f.params())
            f = f.parent
        locs -= declared
        for n in own_nodes(fi.node):
            names = []
            if isinstance(n, (ast.Assign, ast.Delete, ast.AugAssign)):
                tg = n.targets if not isinstance(n, ast.AugAssign) \
                    else [n.target]
                for t in tg:
                    if isinstance(t, ast.Subscript) and isinstance(
                            t.value, ast.Name):
                        names.append(t.value.id)
                    if isinstance(t, ast.Name) and t.id in declared:
                        names.append(t.id)
            if isinstance(n, ast.Call) and isinstance(
                    n.func, ast.Attribute) and n.func.attr in _MUTATORS \
                    and isinstance(n.func.value, ast.Name):
                names.append(n.func.value.id)
            for nm in names:
                if nm in glob and nm not in locs:
                    out.append((fi, n, nm))
    return out


def rule_no_module_memo(model):
    r = RuleResult('C17.R12', 'the package keeps no state at module level '
                   'that compiling or rendering writes: no function stores '
                   'into or mutates a module-level container (a parse / '
                   'result memo shared by all templates makes what one '
                   'template compiles or renders depend on which other '
                   'template or value came first)')
    n = 0
    for mod in model.modules.values():
        for fi, node, nm in _module_state_writes(mod):
            n += 1
            r.instance(fi.where, node, 'MODULE STATE WRITTEN')
            r.finding(fi.where, node, f'the module-level `{nm}` is written '
                      f'by {fi.name}(): it outlives the template and is '
                      'shared by every template, thread and rendering -- '
                      'what is remembered for one (keyed by source text / '
                      'value only) is handed to another whose encoding, '
                      'format, guard or taint differs', node=node, ctx=fi)
    # zero instances on the pinned tree: a synthetic positive must match
    from ..model import Model
    ctl_src = ('_memo = {}\n_n = 0\n'
               'def parse(a):\n'
               '    global _n\n'
               '    _n = _n + 1\n'
               '    local = {}\n'
               '    local[a] = 1\n'
               '    _memo[a] = local\n'
               '    return _memo.setdefault(a, 2)\n')
    cm = Model(sources={'src/DocumentTemplate/zz_memo_control.py': ctl_src},
               root=None)
    mi = cm.modules['zz_memo_control']
    got = sorted(nm for _, _, nm in _module_state_writes(mi))
    r.control('control: a synthetic module memo is recognised (3 writes)',
              got == ['_memo', '_memo', '_n'])
    if got != ['_memo', '_memo', '_n']:
        raise AnalysisError(f'C17.R12: control failed ({got})')
    return r


RULES = [rule_memo_reset, rule_no_module_memo, rule_inplace_accumulators,
         rule_memo_immutable, rule_hidden_state, rule_recook, rule_getstate,
         (lambda f: (lambda model: f(model.inlined_view())))(rule_file),
         rule_caller_data, rule_defaults, rule_munge, rule_one_shot]
EXPLANATION = (
    'Enumeration of attribute / item stores and container mutations in '
    'render-reachable code whose receiver is a shared object; '
    'path-sensitive re-cook obligation on source mutators; width and set '
    'agreement in __getstate__; store query on read_raw; may-alias analysis '
    'of caller data in all render code; mutable-default query.')
ASSUMPTIONS = ['does not decide equality of outputs across histories',
               'render phase = resolved reachability from the template call, '
               'the render entries and the per-render helper classes']
TRUSTED = ['python ast']
