"""C14 -- try / raise / return control flow.

R1 dtml-return transparency: no handler on the render path can swallow
   DTReturn.
R2 only the template call catches DTReturn, around exactly the top-level
   render.
R3 else body rendered in the Python `else:` of the guarding try
R4 finally body rendered in a Python `finally:`, exactly one site
R5 handler body rendered under try/finally with no except
R6 dtml-raise has no normal exit
R7 first-match handler search over the handler list in order; base-class
   recursion
"""
import ast

from ..callgraph import CallGraph
from ..core import AnalysisError
from ..core import RuleResult
from ..core import norm
from ..flow import NORMAL
from ..flow import RETURN
from ..flow import Domain
from ..flow import Interp
from ..flow import handler_names
from ..model import ancestors
from ..model import own_nodes
from ..render import is_block_dispatch
from ..render import render_entries

RET_EXC = 'DTReturn'
CATCH_ALL = ('Exception', 'BaseException')


def _cg(model):
    cg = getattr(model, '_dt_cg', None)
    if cg is None:
        cg = model._dt_cg = CallGraph(model)
        model._dt_compile = cg.compile_phase()
    return cg


def handler_stops(h):
    """Does the handler catch DTReturn and not re-raise it?"""
    names = handler_names(h)
    catches = not names or any(n in CATCH_ALL or n == RET_EXC
                               for n in names)
    if not catches:
        return False
    # a handler that unconditionally re-raises lets it through
    if h.body and isinstance(h.body[0], ast.Raise) and \
            (h.body[0].exc is None or
             (isinstance(h.body[0].exc, ast.Name) and
              h.body[0].exc.id == h.name)):
        return False
    return True


def try_protection(node, fi):
    """For a node: is it inside the body of a try that stops DTReturn
    before it leaves the function?  Also returns the list of enclosing try
    statements whose *body* contains the node (innermost first)."""
    tries = []
    prev = node
    for anc in ancestors(node):
        if isinstance(anc, (ast.FunctionDef, ast.AsyncFunctionDef)):
            break
        if isinstance(anc, ast.Try) and any(prev is b for b in anc.body):
            tries.append(anc)
        prev = anc
    return tries


def passes_try(tr):
    """Can a DTReturn raised in the body of `tr` leave it?"""
    for h in tr.handlers:
        names = handler_names(h)
        if names and RET_EXC in names and not handler_stops(h):
            return True              # except DTReturn: raise  (first match)
        if handler_stops(h):
            return False
    return True


def rule_return(model):
    r1 = RuleResult('C14.R1', 'no exception handler on the render path can '
                    'swallow dtml-return (DTReturn)')
    r2 = RuleResult('C14.R2', 'only the template call catches DTReturn, '
                    'around exactly the top-level render')
    cg = _cg(model)
    entries = render_entries(model, cg)
    # raisers
    raisers = set()
    for fi in model.all_funcs():
        for n in own_nodes(fi.node):
            if isinstance(n, ast.Raise) and n.exc is not None:
                e = n.exc.func if isinstance(n.exc, ast.Call) else n.exc
                if isinstance(e, ast.Name) and e.id == RET_EXC:
                    raisers.add(fi.where)
    if not raisers:
        raise AnalysisError('no function raises DTReturn (anchor vanished)')
    for w in sorted(raisers):
        r2.instance(w, 'raise DTReturn', 'raiser')
        if not w.endswith('ReturnTag.render'):
            r2.finding(w, 'raise DTReturn', 'DTReturn raised outside the '
                       'return tag')

    def callees(call, fi):
        out = set()
        if is_block_dispatch(call, fi):
            return set(entries)
        for t in model.resolve_callee(call.func, fi):
            if t[0] == 'func':
                out.add(t[1].where)
            elif t[0] == 'method':
                # receiver.eval / unique method name
                cands = [g for g in model.all_funcs()
                         if g.cls is not None and g.name == t[1]
                         and g.parent is None]
                if len(cands) == 1 and not t[1].startswith('__'):
                    out.add(cands[0].where)
        # local aliases: render = render_blocks
        return out

    RET = set(raisers)
    changed = True
    sites = {}
    while changed:
        changed = False
        for fi in model.all_funcs():
            if fi.where in RET:
                continue
            for n in own_nodes(fi.node):
                if not isinstance(n, ast.Call):
                    continue
                if not (callees(n, fi) & RET):
                    continue
                if all(passes_try(t) for t in try_protection(n, fi)):
                    RET.add(fi.where)
                    changed = True
                    break
    r1.stats = {'may_propagate_DTReturn': sorted(RET)}
    # obligations: every try whose body calls a RET member
    for fi in model.all_funcs():
        for n in own_nodes(fi.node):
            if not isinstance(n, ast.Try) or not n.handlers:
                continue
            calls_ret = False
            for b in n.body:
                for c in ast.walk(b):
                    if isinstance(c, ast.Call) and callees(c, fi) & RET:
                        # nearest try whose body contains c must be n or
                        # all inner ones let it pass
                        inner = try_protection(c, fi)
                        idx = inner.index(n) if n in inner else None
                        if idx is not None and all(
                                passes_try(t) for t in inner[:idx]):
                            calls_ret = True
            if not calls_ret:
                continue
            stops = not passes_try(n)
            is_call = fi.where == 'DT_String:String.__call__'
            names = [','.join(handler_names(h)) or '<bare>'
                     for h in n.handlers]
            r1.instance(fi.where, 'try ... except ' + ' / '.join(names),
                        'stops' if stops else 'transparent')
            if stops and not is_call:
                h = next(h for h in n.handlers if handler_stops(h))
                r1.finding(fi.where,
                           f'except {norm(h.type) if h.type else ""}: '
                           + norm(h.body[0]),
                           'this handler guards a rendering that can raise '
                           'DTReturn and catches it: dtml-return inside this '
                           'block does not end the template call', node=h,
                           ctx=fi)
            if is_call:
                ok = len(n.body) == 1 and any(
                    isinstance(c, ast.Call) and
                    'render_blocks' in ' '.join(model.callee_names(c, fi))
                    for c in ast.walk(n.body[0]))
                r2.instance(fi.where, 'try: ' + norm(n.body[0]),
                            'catch point')
                if not ok:
                    r2.finding(fi.where, 'try: ' + norm(n.body[0]),
                               'the DTReturn catch point guards more than '
                               'the top-level render_blocks call', node=n,
                               ctx=fi)
    # who names DTReturn in a handler
    for fi in model.all_funcs():
        for n in own_nodes(fi.node):
            if isinstance(n, ast.ExceptHandler) and \
                    RET_EXC in handler_names(n):
                stops = handler_stops(n)
                r2.instance(fi.where, f'except {norm(n.type)}',
                            'catches' if stops else 're-raises')
                if stops and fi.where != 'DT_String:String.__call__':
                    r2.finding(fi.where, f'except {norm(n.type)}',
                               'DTReturn caught outside the template call',
                               node=n, ctx=fi)
    if 'DT_String:String.__call__' in RET:
        r2.finding('DT_String:String.__call__', 'render_blocks(...)',
                   'the template call lets DTReturn escape')
    if len(RET) < 8:
        raise AnalysisError('C14.R1: fewer than 8 functions can propagate '
                            'DTReturn: dispatch model lost')
    r1.require_floor(2)
    r2.require_floor(3)
    return [r1, r2]


def _try_attrs(model):
    """Names of the Try instance attributes holding the body / else /
    finally block lists, derived from the constructor."""
    init = model.func('DT_Try', 'Try.__init__')
    out = {}
    for n in own_nodes(init.node):
        if isinstance(n, ast.Assign) and len(n.targets) == 1 and \
                isinstance(n.targets[0], ast.Attribute) and \
                isinstance(n.targets[0].value, ast.Name) and \
                n.targets[0].value.id == 'self' and \
                isinstance(n.value, ast.Attribute) and \
                n.value.attr == 'blocks':
            attr = n.targets[0].attr
            tests = []
            for anc in ancestors(n):
                if isinstance(anc, ast.If):
                    tests.append(norm(anc.test))
                if isinstance(anc, ast.FunctionDef):
                    break
            if not tests:
                out['body'] = attr
            elif "'finally'" in tests[0]:
                out['finally'] = attr
            elif "'else'" in tests[0]:
                out['else'] = attr
    if set(out) != {'body', 'else', 'finally'}:
        raise AnalysisError(f'Try.__init__: block attributes not found '
                            f'({sorted(out)})')
    return out


def _renders(node, attr):
    """Calls inside node that render self.<attr>."""
    out = []
    for c in ast.walk(node):
        if isinstance(c, ast.Call) and c.args and \
                isinstance(c.args[0], ast.Attribute) and \
                c.args[0].attr == attr:
            out.append(c)
    return out


def _after_completed_try(call, body_attr):
    """Is `call` in a statement that follows (in the same block) a try
    which renders the body and whose every handler ends in raise/return on
    all paths?  Then it runs exactly when the body completed normally,
    outside the guarded region -- equivalent to the else clause."""
    st = call
    while not isinstance(getattr(st, '_dt_parent', None),
                         (ast.FunctionDef, ast.If, ast.Try, ast.For,
                          ast.While, ast.With)):
        st = st._dt_parent
    holder = st._dt_parent
    # only through plain `if` nesting
    while isinstance(holder, ast.If):
        st = holder
        holder = holder._dt_parent
    lst = None
    for fld in ('body', 'orelse', 'finalbody'):
        x = getattr(holder, fld, None)
        if isinstance(x, list) and st in x:
            lst = x
    if lst is None:
        return False
    for prev in lst[:lst.index(st)]:
        if isinstance(prev, ast.Try) and prev.handlers and \
                not prev.orelse and _renders(
                    ast.Module(body=prev.body, type_ignores=[]), body_attr):
            for h in prev.handlers:
                outs = Interp(_Plain()).block(h.body, _St())
                if any(o.kind == NORMAL for o in outs):
                    return False
            return True
    return False


def rule_placement(model):
    r = RuleResult('C14.R3-R5', 'else body in the try\'s else clause; '
                   'finally body in a finally clause (one site); handler '
                   'body under try/finally without except')
    attrs = _try_attrs(model)
    tcls = model.cls('DT_Try', 'Try')
    # R3
    for fi in tcls.methods.values():
        for c in _renders(fi.node, attrs['else']):
            ok = False
            prev = c
            for anc in ancestors(c):
                if isinstance(anc, ast.Try) and any(
                        prev is s for s in anc.orelse) and \
                        _renders(ast.Module(body=anc.body,
                                            type_ignores=[]),
                                 attrs['body']):
                    ok = True
                if isinstance(anc, ast.Try) and any(
                        prev is s for s in anc.body) and anc.handlers:
                    ok = False
                    break
                if isinstance(anc, ast.FunctionDef):
                    break
                prev = anc
            if not ok:
                ok = _after_completed_try(c, attrs['body'])
            r.instance(fi.where, c, 'else placement ' + ('ok' if ok
                                                         else 'WRONG'))
            if not ok:
                r.finding(fi.where, c, 'the else body is not rendered in '
                          'the else clause of the try that guards the body '
                          '(its exceptions would be handled by the except '
                          'blocks, or it runs when the body raised)',
                          node=c, ctx=fi)
    # R4
    fsites = []
    for fi in tcls.methods.values():
        for c in _renders(fi.node, attrs['finally']):
            fsites.append((fi, c))
            in_finally = False
            prev = c
            for anc in ancestors(c):
                if isinstance(anc, ast.Try) and any(
                        prev is s for s in anc.finalbody) and \
                        _renders(ast.Module(body=anc.body,
                                            type_ignores=[]),
                                 attrs['body']):
                    in_finally = True
                if isinstance(anc, ast.FunctionDef):
                    break
                prev = anc
            r.instance(fi.where, c, 'finally placement')
            if not in_finally:
                r.finding(fi.where, c, 'the finally body is not rendered '
                          'in a Python finally clause of the try guarding '
                          'the body: it is skipped when the body raises or '
                          'returns', node=c, ctx=fi)
    if len(fsites) != 1:
        r.finding('DT_Try:Try', f'{len(fsites)} render sites of the finally '
                  'block', 'the finally body must be rendered at exactly '
                  'one site')
    # R5: handler body rendered under try/finally, no except
    rte = None
    for fi in tcls.methods.values():
        for n in own_nodes(fi.node):
            if isinstance(n, ast.Call) and isinstance(n.func, ast.Attribute)\
                    and n.func.attr == 'find_handler':
                rte = fi
    if rte is None:
        raise AnalysisError('Try: find_handler call not found')
    # the handler found may be rendered in place or handed to a helper
    # method: follow the value
    todo = []
    for n in own_nodes(rte.node):
        if isinstance(n, ast.Assign) and isinstance(n.value, ast.Call) and \
                isinstance(n.value.func, ast.Attribute) and \
                n.value.func.attr == 'find_handler' and \
                isinstance(n.targets[0], ast.Name):
            todo.append((rte, n.targets[0].id))
    found = 0
    seen = set()
    while todo:
        fn, hv = todo.pop()
        if (fn.where, hv) in seen:
            continue
        seen.add((fn.where, hv))
        for n in own_nodes(fn.node):
            if not isinstance(n, ast.Call):
                continue
            names = ' '.join(model.callee_names(n, fn))
            has = [i for i, a in enumerate(n.args)
                   if isinstance(a, ast.Name) and a.id == hv]
            if not has:
                continue
            if 'render_blocks' in names and has[0] == 0:
                found += 1
                tries = try_protection(n, fn)
                inner = tries[0] if tries else None
                ok = inner is not None and not inner.handlers and \
                    inner.finalbody
                r.instance(fn.where, n, 'handler body render')
                if not ok:
                    r.finding(fn.where, n, 'the handler body is rendered '
                              'under a try with except clauses (or without '
                              'finally): exceptions raised in a handler '
                              'must propagate', node=n, ctx=fn)
            else:
                for t in model.resolve_callee(n.func, fn):
                    if t[0] == 'func' and t[1].cls is tcls:
                        hp = t[1].params()[1:]
                        for i in has:
                            if i < len(hp):
                                todo.append((t[1], hp[i]))
                        # the helper call itself must not be guarded by an
                        # except clause either (besides the body's own try)
    if not found:
        raise AnalysisError('Try: handler body render site not found')
    r.require_floor(3)
    return r


class _Plain(Domain):
    pass


class _St:
    trace = ()
    cur_exc = None

    def key(self):
        return 0

    def copy(self):
        return self

    def at(self, node):
        return self


class _HS:
    trace = ()

    def key(self):
        return 0

    def copy(self):
        return _HS()

    def at(self, node):
        return self


class _HandlerDomain(Domain):
    """One handler entry (name, block) under a truth assignment of the
    three ways a handler can match."""

    def __init__(self, exact, bare, base):
        self.v = {'exact': exact, 'bare': bare, 'base': base}
        self.env = {}

    def truth(self, e):
        if isinstance(e, ast.UnaryOp) and isinstance(e.op, ast.Not):
            v = self.truth(e.operand)
            return None if v is None else not v
        if isinstance(e, ast.Name) and e.id in self.env:
            return self.env[e.id]
        if isinstance(e, ast.Constant):
            return bool(e.value)
        t = ast.unparse(e)
        if isinstance(e, ast.Compare) and len(e.ops) == 1 and \
                isinstance(e.ops[0], (ast.Eq, ast.NotEq)):
            pos = isinstance(e.ops[0], ast.Eq)
            if '__name__' in t:
                return self.v['exact'] == pos
            if "''" in t or '""' in t:
                return self.v['bare'] == pos
        if isinstance(e, ast.Compare) and len(e.ops) == 1 and \
                isinstance(e.ops[0], (ast.In, ast.NotIn)) and \
                isinstance(e.comparators[0], (ast.Tuple, ast.List,
                                              ast.Set)):
            # x in (a, b)  ==  x == a or x == b
            vals = [self.truth(ast.Compare(left=e.left, ops=[ast.Eq()],
                                           comparators=[c]))
                    for c in e.comparators[0].elts]
            if any(v is True for v in vals):
                res = True
            elif all(v is False for v in vals):
                res = False
            else:
                return None
            return res if isinstance(e.ops[0], ast.In) else not res
        if isinstance(e, ast.Call) and 'match_base' in t:
            return self.v['base']
        return None

    def branch(self, test, st):
        v = self.truth(test)
        if v is None:
            return [(True, st), (False, st)]
        return [(v, st)]

    def raises(self, node, st):
        return []

    def effects(self, stmt, st):
        if isinstance(stmt, ast.Assign) and len(stmt.targets) == 1 and \
                isinstance(stmt.targets[0], ast.Name):
            v = self.truth(stmt.value)
            if v is None:
                self.env.pop(stmt.targets[0].id, None)
            else:
                self.env[stmt.targets[0].id] = v
        return st


def rule_raise_exit(model):
    r = RuleResult('C14.R6-R7', 'dtml-raise has no normal exit; handlers are '
                   'searched first-match in written order with base-class '
                   'recursion')
    fi = model.func('DT_Raise', 'Raise.render')
    outs = Interp(_Plain()).run(fi.node, _St())
    kinds = sorted({o.kind for o in outs})
    r.instance(fi.where, 'exits: ' + ','.join(kinds))
    for o in outs:
        if o.kind in (NORMAL, RETURN):
            r.finding(fi.where, o.node if o.node is not None
                      else 'fall-through', 'dtml-raise can finish without '
                      'raising', node=o.node, ctx=fi)
    fh = model.func('DT_Try', 'Try.find_handler')
    loops = [n for n in own_nodes(fh.node) if isinstance(n, ast.For)]
    ok = False
    for lp in loops:
        if isinstance(lp.iter, ast.Attribute) and \
                isinstance(lp.iter.value, ast.Name) and \
                lp.iter.value.id == 'self':
            tnames = {x.id for x in ast.walk(lp.target)
                      if isinstance(x, ast.Name)}
            rets = [x for x in ast.walk(lp) if isinstance(x, ast.Return)
                    and isinstance(x.value, ast.Name)
                    and x.value.id in tnames]
            brk = [x for x in ast.walk(lp) if isinstance(x, (ast.Break,
                                                              ast.Continue))]
            if rets and not brk:
                ok = True
            r.instance(fh.where, f'for {norm(lp.target)} in '
                       f'{norm(lp.iter)}', 'first-match' if ok else '?')
    hloops = [lp for lp in loops if isinstance(lp.iter, ast.Attribute)
              or any(isinstance(x, ast.Attribute) and
                     isinstance(x.value, ast.Name) and x.value.id == 'self'
                     for x in ast.walk(lp.iter))]
    if len(hloops) != 1:
        ok = False
    else:
        # one decision per handler, decided semantically: for every truth
        # assignment of (exact class name, bare except, base class) the
        # loop body returns the handler's block iff one of them holds and
        # otherwise goes on with the next handler
        import itertools
        lp = hloops[0]
        tnames = sorted(x.id for x in ast.walk(lp.target)
                        if isinstance(x, ast.Name))
        for exact, bare, base in itertools.product([False, True], repeat=3):
            dom = _HandlerDomain(exact, bare, base)
            outs = Interp(dom).block(lp.body, _HS())
            kinds = set()
            for o in outs:
                if o.kind == 'return':
                    kinds.add('return ' + (norm(o.node.value)
                                           if o.node is not None and
                                           o.node.value is not None
                                           else 'None'))
                elif o.kind in ('normal', 'continue'):
                    kinds.add('next')
                else:
                    kinds.add(o.kind)
            want_ret = exact or bare or base
            good = (len(kinds) == 1 and (
                (want_ret and next(iter(kinds)).startswith('return ') and
                 next(iter(kinds))[7:] in tnames) or
                (not want_ret and kinds == {'next'})))
            if not good:
                ok = False
                r.instance(fh.where, f'exact={exact} bare={bare} '
                           f'base={base}', 'WRONG: ' + '/'.join(sorted(kinds)))
    if not ok:
        r.finding(fh.where, 'handler search loop', 'handlers are not '
                  'searched first-match in the order written (direct loop '
                  'over the handler list returning the first match)',
                  node=fh.node, ctx=fh)
    mb = model.func('DT_Try', 'Try.match_base')
    rec = any(isinstance(n, ast.Call) and isinstance(n.func, ast.Attribute)
              and n.func.attr == 'match_base' for n in own_nodes(mb.node))
    bases = any(isinstance(n, ast.For) and isinstance(n.iter, ast.Attribute)
                and n.iter.attr == '__bases__' for n in own_nodes(mb.node))
    r.instance(mb.where, 'recursion over __bases__',
               'ok' if rec and bases else 'MISSING')
    if not (rec and bases):
        r.finding(mb.where, 'base-class search', 'match_base does not '
                  'recurse over __bases__: handlers naming an indirect base '
                  'class no longer match', node=mb.node, ctx=mb)
    # the name test of find_handler: equality with the class name, the
    # empty name, or match_base
    fh_nodes = list(model.closure_nodes(fh))
    have = {
        '__name__': any(isinstance(x, ast.Attribute) and
                        x.attr in ('__name__', '__qualname__')
                        for x in fh_nodes),
        "''": any((isinstance(x, ast.Compare) and any(
            isinstance(y, ast.Constant) and y.value == ''
            for z in [x.left] + x.comparators
            for y in ([z] + (list(z.elts) if isinstance(
                z, (ast.Tuple, ast.List, ast.Set)) else [])))) or (
            isinstance(x, ast.UnaryOp) and isinstance(x.op, ast.Not) and
            isinstance(x.operand, ast.Name)) for x in fh_nodes),
        'match_base': any(isinstance(x, ast.Call) and
                          norm(x.func).split('.')[-1] == 'match_base'
                          for x in fh_nodes),
    }
    # class names are compared for equality (or membership in a literal
    # collection): `X.__name__ in names` with a text on the right is a
    # substring test -- 'Error' in 'KeyError'
    for x in fh_nodes + [y for g in (mb,) for y in own_nodes(g.node)]:
        if isinstance(x, ast.Compare) and len(x.ops) == 1 and isinstance(
                x.ops[0], (ast.In, ast.NotIn)) and any(
                isinstance(y, ast.Attribute) and y.attr in (
                    '__name__', '__qualname__')
                for y in ast.walk(x.left)):
            rt = x.comparators[0]
            lit = isinstance(rt, (ast.Tuple, ast.List, ast.Set))
            r.instance(fh.where, x, 'membership in a literal collection'
                       if lit else 'MEMBERSHIP IN WHAT MAY BE A TEXT')
            if not lit:
                r.finding(fh.where, x, f'`{norm(x)}`: the class name is '
                          'looked for IN the handler name(s); where a '
                          'single name (a text) arrives this is a substring '
                          "test, so a base class called 'Error' matches "
                          "the handler for 'KeyError'", node=x, ctx=fh)
    for need in ('__name__', "''", 'match_base'):
        if not have[need]:
            r.finding(fh.where, f'handler test lacks {need}', 'handler '
                      'matching lost one of: exact class name, bare except, '
                      'base class', node=fh.node, ctx=fh)
    return r


def _inl(rule):
    """Run a rule on the view in which helpers that are new w.r.t. the
    reference tree are inlined at their call sites (normalise.N2)."""
    def run(model):
        return rule(model.inlined_view())
    run.__name__ = rule.__name__
    return run


NAME_ATTRS = ('__name__', '__qualname__')


def rule_error_type_name(model):
    r = RuleResult('C14.R9', 'error_type inside a handler is the same '
                   'notion of "name of the exception class" the handler '
                   'clauses are matched with (class and base classes): the '
                   'handler search and the binding read the same attribute')
    ci = model.cls('DT_Try', 'Try')
    used = {}
    for fi in ci.methods.values():
        for x in own_nodes(fi.node):
            if isinstance(x, ast.Compare) and any(
                    isinstance(o, (ast.Eq, ast.NotEq, ast.In))
                    for o in x.ops):
                for y in [x.left] + list(x.comparators):
                    if isinstance(y, ast.Attribute) and y.attr in NAME_ATTRS:
                        used.setdefault(y.attr, []).append((fi, x))
                        r.instance(fi.where, x, f'matches by {y.attr}')
    if not used:
        raise AnalysisError('C14.R9: handler matching by class name not '
                            'found in DT_Try.Try')
    if len(used) > 1:
        fi, x = used[sorted(used)[-1]][0]
        r.finding(fi.where, x, 'the handler search compares clause names '
                  f'with different attributes ({sorted(used)}): a class '
                  'and its base classes are not matched alike', node=x,
                  ctx=fi)
    nbind = 0
    for fi in ci.methods.values():
        if getattr(fi, 'cm_method', False):
            continue      # a context-manager helper: judged where it is used
        for x in own_nodes(fi.node):
            if not isinstance(x, ast.Call):
                continue
            for kw in x.keywords:
                if kw.arg != 'error_type':
                    continue
                nbind += 1
                v = kw.value
                attrs = set()
                exprs = [v]
                if isinstance(v, ast.Name):
                    exprs = [d for d in model.local_defs(fi, v.id)
                             if isinstance(d, ast.AST)]
                for e in exprs:
                    if isinstance(e, ast.Attribute) and e.attr in NAME_ATTRS:
                        attrs.add(e.attr)
                    else:
                        attrs.add('?' + norm(e))
                r.instance(fi.where, kw.value,
                           f'error_type = {sorted(attrs)}')
                if any(a.startswith('?') for a in attrs) or not attrs:
                    raise AnalysisError(
                        'C14.R9: error_type is not a class-name attribute '
                        f'({sorted(attrs)})')
                if attrs != set(used):
                    r.finding(fi.where, f'error_type={norm(kw.value)} via '
                              f'{sorted(attrs)}', 'error_type is bound to '
                              f'the class\'s {sorted(attrs)[0]} while the '
                              'except clauses are matched against '
                              f'{sorted(used)[0]}: for a class defined '
                              'inside a class or function the handler '
                              '`<dtml-except Name>` is selected but '
                              'error_type is not `Name`', node=x, ctx=fi)
    if nbind < 1:
        raise AnalysisError('C14.R9: binding of error_type not found')
    return r


def rule_return_value_untouched(model):
    r = RuleResult('C14.R10', 'the value handed to dtml-return is what the '
                   'template call returns, whatever its type: between the '
                   'handler that takes it out of DTReturn and the return '
                   'statement the variable is not re-assigned (only handed '
                   'to the after-render hook)')
    fi = model.func('DT_String', 'String.__call__')
    n = 0
    for h in [x for x in own_nodes(fi.node)
              if isinstance(x, ast.ExceptHandler) and x.type is not None
              and 'DTReturn' in norm(x.type) and x.name]:
        var = None
        for y in ast.walk(h):
            if isinstance(y, ast.Assign) and isinstance(
                    y.value, ast.Attribute) and isinstance(
                    y.value.value, ast.Name) and \
                    y.value.value.id == h.name and isinstance(
                        y.targets[0], ast.Name):
                var = y.targets[0].id
        if var is None:
            continue
        n += 1
        tr = getattr(h, '_dt_parent', None)
        inside = {id(z) for z in ast.walk(tr)} if tr is not None else set()
        later = [y for y in own_nodes(fi.node)
                 if isinstance(y, (ast.Assign, ast.AugAssign, ast.AnnAssign))
                 and id(y) not in inside and
                 getattr(y, 'lineno', 0) > getattr(h, 'lineno', 0) and any(
                     isinstance(t, ast.Name) and t.id == var
                     for t in (y.targets if isinstance(y, ast.Assign)
                               else [y.target]))]
        r.instance(fi.where, f'except DTReturn as {h.name}: {var} = ...',
                   'returned untouched' if not later else 'RE-ASSIGNED')
        for y in later:
            r.finding(fi.where, y, f'`{var}` also carries the value given '
                      'to dtml-return; it is re-assigned before the call '
                      'returns it, so a returned value (bytes, here) does '
                      'not come back as it was given', node=y, ctx=fi)
    if n < 1:
        raise AnalysisError('C14.R10: the DTReturn handler of the template '
                            'call was not found')
    # ... and the tag itself raises DTReturn with the value as computed:
    # the looked-up / evaluated value is not an operand of and / or (the
    # `c and a or b` idiom replaces every false value -- 0, '', [], None --
    # by the other arm)
    rt = model.func('DT_Return', 'ReturnTag.render')
    m = 0
    for x in own_nodes(rt.node):
        if not (isinstance(x, ast.Raise) and isinstance(x.exc, ast.Call)
                and 'DTReturn' in norm(x.exc.func) and x.exc.args):
            continue
        m += 1
        a0 = x.exc.args[0]
        vals = [a0]
        if isinstance(a0, ast.Name):
            vals = [d for d in model.local_defs(rt, a0.id)
                    if isinstance(d, ast.AST)] or [a0]
        for v in vals:
            filt = [b for b in ast.walk(v) if isinstance(b, ast.BoolOp) and
                    any(isinstance(c, (ast.Call, ast.Subscript))
                        for o in b.values[:-1] for c in ast.walk(o))]
            r.instance(rt.where, v, 'as computed' if not filt
                       else 'FILTERED BY TRUTH VALUE')
            if filt:
                r.finding(rt.where, v, 'the value of dtml-return passes '
                          'through `and` / `or`: a computed value that is '
                          'false (0, an empty string or list, None) is '
                          'replaced by the other operand -- here the '
                          'expression text is then looked up as a name and '
                          'raises KeyError', node=v, ctx=rt)
    if m < 1:
        raise AnalysisError('C14.R10: raise DTReturn(...) not found in '
                            'ReturnTag.render')
    return r


def rule_handler_table(model):
    r = RuleResult('C14.R8', 'the handler table and the blocks a try / '
                   'raise / return tag keeps are re-iterable: a one-shot '
                   'iterator would be consumed by the first exception '
                   'handled, later ones would meet the remaining clauses '
                   'only')
    from .. import oneshot
    return oneshot.fill_rule(
        r, model, lambda fi, kind: fi.module.short in (
            'DT_Try', 'DT_Raise', 'DT_Return') and fi.cls is not None, 8,
        'the compiled try / raise tag')


def rule_probe_handlers(model):
    r = RuleResult('C14.R12', 'an exception raised while the body of '
                   'dtml-in is rendered reaches the enclosing dtml-try as '
                   'it is: no try statement of the two renderers that has '
                   'an except clause (the emptiness / next-batch / '
                   'previous-batch probes, the skip_unauthorized fetch) '
                   'renders a section in its try body -- an IndexError or '
                   'KeyError from inside the section would be taken for '
                   'the answer of the probe')
    n = 0
    for q in ('InClass.renderwb', 'InClass.renderwob'):
        fi = model.func('DT_In', q)
        ren = {'render_blocks', 'render'}
        for x in own_nodes(fi.node):
            if isinstance(x, ast.Assign) and len(x.targets) == 1 and \
                    isinstance(x.targets[0], ast.Name) and \
                    norm(x.value) in ren:
                ren.add(x.targets[0].id)
        for t in [x for x in own_nodes(fi.node) if isinstance(x, ast.Try)
                  and x.handlers]:
            n += 1
            inside = [c for s_ in t.body for c in ast.walk(s_)
                      if isinstance(c, ast.Call) and isinstance(
                          c.func, ast.Name) and c.func.id in ren]
            swallowing = [h for h in t.handlers if not (
                h.body and isinstance(h.body[-1], ast.Raise) and
                h.body[-1].exc is None and len(h.body) == 1)]
            bad = inside and swallowing
            r.instance(fi.where, f'try ... except {norm(t.handlers[0].type)}'
                       if t.handlers[0].type is not None else 'try/except',
                       'SECTION RENDERED UNDER THE HANDLER' if bad
                       else 'probe only')
            if bad:
                r.finding(fi.where, inside[0], 'a section is rendered '
                          'inside the try body of '
                          f'`except {norm(swallowing[0].type)}`: an '
                          'exception of that type raised by the section is '
                          'handled as the outcome of the probe (else body '
                          "or '' instead of the error), so dtml-try "
                          'around the loop never sees it', node=inside[0],
                          ctx=fi)
    if n < 4:
        raise AnalysisError(f'C14.R12: only {n} try/except statements '
                            'found in the dtml-in renderers')
    r.floor = 4
    return r


def rule_handler_order(model):
    r = RuleResult('C14.R11', 'the handler table lists the except clauses '
                   'in source order (the first clause that matches wins, a '
                   'bare except included): every entry is appended while '
                   'the clauses are walked, in the iteration of its own '
                   'clause -- none is held back and added after the walk, '
                   'none is inserted in front')
    fi = model.func('DT_Try', 'Try.__init__')
    n = 0
    for f in model.closure(fi):
        for c in own_nodes(f.node):
            if not (isinstance(c, ast.Call) and isinstance(
                    c.func, ast.Attribute) and c.func.attr in (
                    'append', 'insert', 'extend') and
                    'handlers' in norm(c.func.value)):
                continue
            n += 1
            loops = [a for a in ancestors(c) if isinstance(a, ast.For)]
            walk = [lp for lp in loops if 'blocks' in norm(lp.iter) or any(
                isinstance(t, ast.Name) and 'section' in t.id
                for t in ast.walk(lp.target))]
            ok = c.func.attr in ('append', 'extend') and bool(walk)
            if ok:
                # the entry is this iteration's clause
                tv = {t.id for t in ast.walk(walk[-1].target)
                      if isinstance(t, ast.Name)}
                used = {x.id for x in ast.walk(c.args[0])
                        if isinstance(x, ast.Name)} if c.args else set()
                ok = bool(tv & used)
            r.instance(f.where, c, 'in source order' if ok
                       else 'OUT OF ORDER')
            if not ok:
                r.finding(f.where, c, 'a handler is added to the table '
                          'outside the walk over the clauses (or not at the '
                          'end): the table is no longer in source order, so '
                          'when two clauses match an exception -- a bare '
                          'except written before a named one -- the wrong '
                          'one handles it', node=c, ctx=f)
    # the exception names of an except tag are separated by any white
    # space: the list comes from split() without an argument
    for f in model.closure(fi):
        for c in own_nodes(f.node):
            if isinstance(c, ast.Call) and isinstance(
                    c.func, ast.Attribute) and c.func.attr == 'split' and (
                    c.args or c.keywords):
                r.instance(f.where, c, 'SPLIT AT ONE CHARACTER')
                r.finding(f.where, c, f'`{norm(c)}`: the exception names '
                          'are split at one particular character: names '
                          'separated by a tab, a newline or two blanks are '
                          "not recognised (and '' -- the catch-all -- "
                          'appears between two blanks)', node=c, ctx=f)
    if n < 1:
        raise AnalysisError(f'C14.R11: only {n} handler-table appends found '
                            'in Try.__init__')
    return r


RULES = [_inl(rule_return), _inl(rule_placement), _inl(rule_raise_exit),
         rule_handler_table, _inl(rule_error_type_name),
         _inl(rule_return_value_untouched), _inl(rule_handler_order),
         _inl(rule_probe_handlers)]
EXPLANATION = (
    'Who-may-catch analysis: least set of functions that can let DTReturn '
    'out (call graph incl. the block dispatch of render_blocks_), every try '
    'guarding a member is checked for a catching handler; placement queries '
    'for else/finally/handler rendering; exit kinds of Raise.render.')
ASSUMPTIONS = [
    'values called through the namespace do not raise DTReturn themselves '
    '(a called template catches its own)',
    'does not decide class-hierarchy matching on concrete hierarchies',
]
TRUSTED = ['python ast']
