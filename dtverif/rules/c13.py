"""C13 -- sorting: stable, correctly ordered, never mutates the input.

R1 sort / reverse never mutate an object that may alias the caller's data
R2 sorts are keyed on the decorated key only (stability)
R3 the type predicate is applied to types
R4 the single- and multi-key extractors agree (getter, call step, failure
   handling, None handling)
R5 direction table asc/desc
"""
import ast
import copy

from ..alias import analyse
from ..alias import returns_alias_of_param
from ..core import AnalysisError
from ..core import RuleResult
from ..core import norm
from ..flow import BaseState
from ..flow import Domain
from ..flow import ANY as ANY_K
from ..flow import Interp
from ..model import ancestors
from ..model import own_nodes


def rule_mutation(model):
    r = RuleResult('C13.R1', 'no mutating operation is applied to an object '
                   'that may alias the caller\'s sequence or its elements')
    m = model.module('DT_In')
    passthrough = set()
    ens = model.func('DT_Util', 'sequence_ensure_subscription')
    if returns_alias_of_param(model, ens, ens.params()[0]):
        passthrough.add(ens.where)
    n_mut = 0
    for fi in list(m.funcs.values()) + list(
            model.module('DT_InSV').funcs.values()):
        seeds = set()
        if fi.name in ('sort_sequence', 'reverse_sequence'):
            seeds.add(fi.params()[1])
        for p in fi.params():
            if p in ('sequence', 'items'):
                seeds.add(p)
        # helper methods returning their argument
        pt = set(passthrough)
        for g in m.funcs.values():
            if g.name in ('sort_sequence', 'reverse_sequence') and \
                    returns_alias_of_param(model, g, g.params()[1]):
                pt.add(g.where)
        dom = analyse(model, fi, seeds, passthrough=pt)
        muts = [n for n in own_nodes(fi.node)
                if (isinstance(n, ast.Call) and
                    isinstance(n.func, ast.Attribute) and
                    n.func.attr in ('sort', 'reverse', 'append', 'insert',
                                    'pop', 'remove', 'extend', 'clear',
                                    'update'))
                or (isinstance(n, (ast.Assign, ast.AugAssign)) and any(
                    isinstance(t, ast.Subscript) for t in (
                        n.targets if isinstance(n, ast.Assign)
                        else [n.target])))
                or isinstance(n, ast.Delete)]
        for n in muts:
            n_mut += 1
            hit = dom.mutations.get(id(n))
            r.instance(fi.where, n, 'ALIASES CALLER DATA' if hit
                       else 'engine-owned receiver')
            if hit:
                r.finding(fi.where, n, f'`{hit[1]}` may be the caller\'s own '
                          'object (or one of its elements): the caller\'s '
                          'sequence is modified in place', node=n, ctx=fi)
    # helpers that are supposed to copy
    for name in ('sort_sequence', 'reverse_sequence'):
        g = model.func('DT_In', 'InClass.' + name)
        al = returns_alias_of_param(model, g, g.params()[1])
        r.instance(g.where, 'return value', 'ALIAS' if al else 'fresh list')
    r.stats = {'mutating_operations': n_mut}
    r.require_floor(12)
    return r


def rule_stability(model):
    r = RuleResult('C13.R2', 'every sort of the decorated list is keyed on '
                   'the decorated key (stable among equal keys)')
    fi = model.func('DT_In', 'InClass.sort_sequence')
    sorts = [n for n in own_nodes(fi.node) if isinstance(n, ast.Call)
             and isinstance(n.func, ast.Attribute)
             and n.func.attr == 'sort'] + \
        [n for n in own_nodes(fi.node) if isinstance(n, ast.Call)
         and isinstance(n.func, ast.Name) and n.func.id == 'sorted']
    if not sorts:
        raise AnalysisError('sort_sequence: no sort call found')
    for n in sorts:
        key = next((k.value for k in n.keywords if k.arg == 'key'), None)
        ok = False
        why = 'no key= (tuples compare their second element on ties)'
        keys = [key]
        if isinstance(key, ast.Name):
            defs = [d for d in model.local_defs(fi, key.id)
                    if not isinstance(d, (str, tuple))]
            if defs:
                keys = defs
        ok_all = True
        for key in keys:
            okk = False
            if key is not None:
                sk = norm(key)
                if sk in ('itemgetter(0)', 'operator.itemgetter(0)',
                          'lambda x: x[0]', 'lambda t: t[0]') or \
                        'cmp_to_key' in sk:
                    okk = True
                else:
                    why = f'key {sk} does not select the decorated key'
            ok_all = ok_all and okk
        if len(keys) > 1 or isinstance(
                next((k.value for k in n.keywords if k.arg == 'key'), None),
                ast.Name):
            key = None
            ok = ok_all
        if key is not None:
            s = norm(key)
            if s == 'itemgetter(0)' or s == 'operator.itemgetter(0)' or \
                    s == 'lambda x: x[0]' or s == 'lambda t: t[0]':
                ok = True
            elif 'cmp_to_key' in s:
                ok = True
            else:
                why = f'key {s} does not select the decorated key'
        rev = next((k.value for k in n.keywords if k.arg == 'reverse'),
                   None)
        r.instance(fi.where, n, 'keyed' if ok else 'UNKEYED')
        if not ok:
            r.finding(fi.where, n, f'sort is not stable by key: {why}',
                      node=n, ctx=fi)
        if rev is not None:
            r.finding(fi.where, n, 'sort(reverse=...) inverts the order of '
                      'the whole key, not per key spec', node=n, ctx=fi)
    for n in own_nodes(fi.node):
        if (isinstance(n, ast.Call) and isinstance(n.func, ast.Attribute)
                and n.func.attr == 'reverse') or (
                isinstance(n, ast.Call) and isinstance(n.func, ast.Name)
                and n.func.id == 'reversed') or (
                isinstance(n, ast.Subscript) and
                norm(n.slice) == '::-1'):
            r.instance(fi.where, n, 'REVERSAL')
            r.finding(fi.where, n, 'the decorated list is reversed after '
                      'sorting: equal keys come out in reverse original '
                      'order (descending order must come from the '
                      'comparison, not from reversing a stable sort)',
                      node=n, ctx=fi)
    # the comparator compares decorated keys only
    sb = model.func('DT_In', 'SortBy.__call__')
    ps = [p for p in sb.params() if p != 'self'][:2]
    loopvars = set()
    for n in own_nodes(sb.node):
        if isinstance(n, (ast.For, ast.comprehension)):
            for x in ast.walk(n.target):
                if isinstance(x, ast.Name):
                    loopvars.add(x.id)
    subs = [n for n in own_nodes(sb.node)
            if isinstance(n, ast.Subscript) and
            isinstance(n.value, ast.Name) and n.value.id in ps]
    r.instance(sb.where, ', '.join(sorted({norm(n) for n in subs})),
               'comparator reads')
    # the decorated pair is (key, client): position 0 is the key (or the
    # key list, then indexed by the position of the sort field)
    bad = [n for n in subs if not (
        (isinstance(n.slice, ast.Constant) and n.slice.value == 0) or
        (isinstance(n.slice, ast.Name) and n.slice.id in loopvars))]
    if bad or not subs:
        r.finding(sb.where, ', '.join(sorted({norm(n) for n in subs})),
                  'the comparator looks beyond the decorated key',
                  node=sb.node, ctx=sb)
    return r


def rule_predicate(model):
    r = RuleResult('C13.R3', 'the basic-type predicate (membership in a '
                   'dict of types) is applied to type(value)')
    m = model.module('DT_In')
    preds = {}
    from .. import tables
    TYPES = {'str', 'int', 'float', 'bytes', 'tuple', 'list', 'dict',
             'bool', 'type(None)', 'type(())', 'type([])', "type('')",
             'type(0)', 'type(0.0)', 'type({})', 'NoneType'}
    for name, vals in m.globals.items():
        for v in vals:
            if isinstance(v, ast.Attribute) and v.attr == '__contains__':
                t = tables.eval_expr(model, m, v.value)
                if t is None:
                    continue
                keys = [e[1] if e[0] == 'pair' else norm(e[1])
                        for e in t[1]]
                if keys and all(k in TYPES for k in keys):
                    preds[name] = v
    if not preds:
        raise AnalysisError('DT_In: type-predicate table not found')
    for fi in m.funcs.values():
        for n in own_nodes(fi.node):
            if isinstance(n, ast.Call) and isinstance(n.func, ast.Name) and \
                    n.func.id in preds and n.args:
                a = n.args[0]
                ok = isinstance(a, ast.Call) and \
                    isinstance(a.func, ast.Name) and a.func.id == 'type'
                if not ok and isinstance(a, ast.Name):
                    defs = model.local_defs(fi, a.id)
                    ok = bool(defs) and all(
                        isinstance(d, ast.Call) and
                        isinstance(d.func, ast.Name) and
                        d.func.id == 'type' for d in defs)
                r.instance(fi.where, n, 'type' if ok else 'VALUE')
                if not ok:
                    r.finding(fi.where, n, 'the predicate tests membership '
                              'of the *value* in a dict of types: always '
                              'false, and unhashable values (lists, dicts) '
                              'raise TypeError', node=n, ctx=fi)
    r.require_floor(1)
    return r


def _extractors(model):
    """(multi fragment stmts, single fragment stmts, names) located as the
    If whose body holds a For with a getattr(v, X, None) and whose orelse
    holds another."""
    fi = model.func('DT_In', 'InClass.sort_sequence')
    for n in own_nodes(fi.node):
        if isinstance(n, ast.If) and n.orelse:
            fors = [x for x in n.body if isinstance(x, ast.For)]
            if not fors:
                continue
            f = fors[0]

            def has_getter(stmts):
                return any(isinstance(c, ast.Call) and
                           isinstance(c.func, ast.Name) and
                           c.func.id == 'getattr'
                           for s in stmts for c in ast.walk(s))
            if has_getter(f.body) and has_getter(n.orelse):
                return fi, f, n.orelse
    raise AnalysisError('sort_sequence: key extractor twins not found')


class _Rename(ast.NodeTransformer):
    def __init__(self, mp):
        self.mp = mp

    def visit_Name(self, node):
        return ast.copy_location(
            ast.Name(id=self.mp.get(node.id, node.id), ctx=node.ctx), node)


def _is_getter(model, fi, call, direct=True, _depth=0):
    """Is the call a read of an item attribute / key by a run-time name:
    getattr(x, name, None), x.get(name) -- or (direct=False: only) a call
    of a local helper every definition of which returns such a read of its
    parameters."""
    f = call.func
    if direct and isinstance(f, ast.Name) and f.id == 'getattr' and \
            len(call.args) == 3 and \
            not isinstance(call.args[1], ast.Constant):
        return True
    if direct or _depth or not isinstance(f, ast.Name):
        return False
    defs = []
    g = fi
    while g is not None and not defs:
        defs = [d for d in model.local_defs(g, f.id)]
        g = g.parent
    if not defs:
        r = model.resolve_global(fi.module, f.id)
        if r and r[0] == 'func' and r[1].module is fi.module:
            defs = [('def', r[1].node)]
    if not defs or not all(isinstance(d, tuple) and d[0] == 'def'
                           for d in defs):
        return False
    ngetattr = 0
    for d in defs:
        rets = [n for n in ast.walk(d[1]) if isinstance(n, ast.Return)]
        if len(rets) != 1 or not isinstance(rets[0].value, ast.Call) or \
                len(d[1].body) > 2:
            return False
        c = rets[0].value
        if isinstance(c.func, ast.Name) and c.func.id == 'getattr' and \
                len(c.args) == 3:
            ngetattr += 1
        elif isinstance(c.func, ast.Attribute) and c.func.attr == 'get':
            pass
        else:
            return False
    return ngetattr > 0


def key_fragments(model):
    """Statement lists of DT_In that extract a sort key: they hold a
    getter statement (getattr(obj, name, None) / obj.get(name)) assigning a
    key variable.  -> list of (fi, stmts from the getter on, keyvar)"""
    out = []
    m = model.module('DT_In')
    for fi in m.funcs.values():
        for n in [fi.node] + list(own_nodes(fi.node)):
            if n is not fi.node and isinstance(
                    n, (ast.FunctionDef, ast.AsyncFunctionDef, ast.Lambda,
                        ast.ClassDef)):
                continue        # nested definitions are functions of their own
            for fld in ('body', 'orelse'):
                lst = getattr(n, fld, None)
                if not isinstance(lst, list):
                    continue
                for i, st in enumerate(lst):
                    kv = None
                    cands = [st] if isinstance(st, ast.Assign) else (
                        st.body + st.orelse if isinstance(st, ast.If)
                        else [])
                    for c in cands:
                        if isinstance(c, ast.Assign) and \
                                isinstance(c.value, ast.Call) and \
                                isinstance(c.targets[0], ast.Name) and \
                                _is_getter(model, fi, c.value,
                                           direct=isinstance(st, ast.If)):
                            kv = c.targets[0].id
                    if kv:
                        out.append((fi, lst[i:], kv))
    return out


# ------------------------------------------------ extractor semantics
class _KS(BaseState):
    def __init__(self, k=None, out=None):
        self.k = k          # abstract value of the key variable
        self.out = out      # abstract value accumulated / returned

    def key(self):
        return (self.k, self.out)

    def copy(self):
        n = _KS(self.k, self.out)
        n.trace = self.trace
        return n


SMALL = 'SMALLEST'


class _KeyDomain(Domain):
    """The key variable holds one of: NONE, FALSY (0, '', False ...),
    TRUTHY (basic value), CALLABLE (non-basic callable), RESULT (what the
    callable returned: a value), SMALLEST."""

    def __init__(self, kv, start, is_getter=None):
        self.kv = kv
        self.start = start
        self.is_getter = is_getter or (lambda call: False)

    def _val(self, e, st):
        """abstract value(s) of an expression over the key variable"""
        if isinstance(e, ast.Name):
            if e.id == self.kv:
                return [st.k]
            if e.id == '_Smallest':
                return [SMALL]
            return ['OTHER']
        if isinstance(e, ast.Constant):
            return ['NONE'] if e.value is None else ['OTHER']
        if isinstance(e, ast.BoolOp) and isinstance(e.op, ast.Or):
            out = []
            cur = [None]
            first = self._val(e.values[0], st)
            for v in first:
                t = self._truth_of(v)
                if t in (True, None):
                    out.append(v)
                if t in (False, None):
                    out += self._val(ast.BoolOp(op=ast.Or(),
                                                values=e.values[1:]), st) \
                        if len(e.values) > 2 else self._val(e.values[1], st)
            return out
        if isinstance(e, ast.IfExp):
            out = []
            for b, s2 in self.branch(e.test, st):
                out += self._val(e.body if b else e.orelse, s2)
            return out
        if isinstance(e, ast.Call) and isinstance(e.func, ast.Name) and \
                e.func.id == self.kv:
            return ['RESULT', 'NONE']
        if isinstance(e, ast.Call) and isinstance(e.func, ast.Name) and \
                e.func.id == 'getattr' or (
                    isinstance(e, ast.Call) and
                    isinstance(e.func, ast.Attribute) and
                    e.func.attr == 'get') or isinstance(e, ast.Subscript) \
                or (isinstance(e, ast.Call) and self.is_getter(e)):
            return [self.start]
        return ['OTHER']

    @staticmethod
    def _truth_of(v):
        return {'NONE': False, 'FALSY': False, 'TRUTHY': True,
                'CALLABLE': True, SMALL: True}.get(v)

    def truth(self, e, st):
        if isinstance(e, ast.UnaryOp) and isinstance(e.op, ast.Not):
            v = self.truth(e.operand, st)
            return None if v is None else not v
        if isinstance(e, ast.Name) and e.id == self.kv:
            return self._truth_of(st.k)
        if isinstance(e, ast.Call):
            f = norm(e.func)
            arg = norm(e.args[0]) if e.args else ''
            if f == 'callable' and arg == self.kv:
                return st.k == 'CALLABLE'
            if f.endswith('basic_type') or f == 'isinstance':
                if self.kv in arg or (e.args and any(
                        isinstance(x, ast.Name) and x.id == self.kv
                        for x in ast.walk(e.args[0]))):
                    return st.k in ('NONE', 'FALSY', 'TRUTHY', 'RESULT')
            if f == 'hasattr' and arg == self.kv:
                return st.k == 'CALLABLE'
            return None
        if isinstance(e, ast.Compare) and len(e.ops) == 1 and \
                isinstance(e.left, ast.Name) and e.left.id == self.kv:
            c = e.comparators[0]
            if isinstance(c, ast.Constant) and c.value is None:
                if isinstance(e.ops[0], (ast.Is, ast.Eq)):
                    return st.k == 'NONE'
                if isinstance(e.ops[0], (ast.IsNot, ast.NotEq)):
                    return st.k != 'NONE'
            if isinstance(c, ast.Name) and c.id == '_Smallest':
                if isinstance(e.ops[0], (ast.Is, ast.Eq)):
                    return st.k == SMALL
                return st.k != SMALL
        return None

    def branch(self, test, st):
        v = self.truth(test, st)
        if v is None:
            return [(True, st), (False, st)]
        return [(v, st)]

    def raises(self, node, st):
        from ..flow import ANY
        for c in ast.walk(node):
            if isinstance(c, ast.Call) and isinstance(c.func, ast.Name) and \
                    c.func.id == self.kv and st.k == 'CALLABLE':
                return [ANY]
        return []

    def effects(self, stmt, st):
        if isinstance(stmt, ast.Assign) and len(stmt.targets) == 1 and \
                isinstance(stmt.targets[0], ast.Name) and \
                stmt.targets[0].id == self.kv:
            vals = self._val(stmt.value, st)
            # fork handled by caller through simple(): return first, the
            # interpreter asks simple() below
            st = st.copy()
            st.k = vals[0]
            st._alts = vals[1:]
            return st
        if isinstance(stmt, ast.Expr) and isinstance(stmt.value, ast.Call) \
                and isinstance(stmt.value.func, ast.Attribute) and \
                stmt.value.func.attr == 'append' and stmt.value.args:
            vals = self._val(stmt.value.args[0], st)
            if any(v != 'OTHER' for v in vals):
                st = st.copy()
                st.out = vals[0]
                st._alts_out = vals[1:]
        return st

    def simple(self, stmt, st):
        from ..flow import NORMAL, RAISE, Outcome
        outs = [Outcome(RAISE, st, e, stmt) for e in self.raises(stmt, st)]
        ns = self.effects(stmt, st)
        outs.append(Outcome(NORMAL, ns))
        for v in getattr(ns, '_alts', ()):
            a = ns.copy()
            a.k = v
            outs.append(Outcome(NORMAL, a))
        for v in getattr(ns, '_alts_out', ()):
            a = ns.copy()
            a.out = v
            outs.append(Outcome(NORMAL, a))
        return outs

    def on_return(self, node, st):
        if node.value is not None:
            vals = self._val(node.value, st)
            st = st.copy()
            st.out = vals[0]
        return [], st


WANT = {'NONE': {SMALL}, 'FALSY': {'FALSY'}, 'TRUTHY': {'TRUTHY'},
        'CALLABLE': {'RESULT', SMALL}}
WHAT = {'NONE': 'a key of None / a missing attribute',
        'FALSY': 'a false but not None key (0, 0.0, "", False)',
        'TRUTHY': 'an ordinary key value',
        'CALLABLE': 'a callable attribute'}


def rule_extractor_semantics(model, r):
    """Interpret every key extractor for each kind of key value."""
    frs = key_fragments(model)
    if not frs:
        raise AnalysisError('C13.R4: no sort-key extractor found')
    for fi, stmts, kv in frs:
        for start, want in WANT.items():
            dom = _KeyDomain(kv, start, lambda c, fi=fi: _is_getter(
                model, fi, c, direct=False))
            outs = Interp(dom).block(stmts, _KS(start))
            got = set()
            for o in outs:
                if o.kind == 'raise':
                    got.add('EXCEPTION')
                elif o.kind in ('normal', 'return', 'continue'):
                    got.add(o.state.out if o.state.out is not None
                            else o.state.k)
            r.instance(fi.where, f'extractor of `{kv}`: {start}',
                       ' / '.join(sorted(got)))
            bad = got - want
            if start == 'CALLABLE' and 'RESULT' not in got:
                bad = bad | {'never called'}
            for b in sorted(bad):
                msg = {
                    'NONE': 'stays None: it is compared with the other '
                            'keys (TypeError) instead of sorting first',
                    'SMALLEST': 'is replaced by the smallest key: it sorts '
                                'before negative numbers and ties with '
                                'missing keys',
                    'CALLABLE': 'is used uncalled as the sort key',
                    'never called': 'is never called to obtain the key',
                    'EXCEPTION': 'lets an exception of the callable '
                                 'escape the sort',
                }.get(b, f'becomes {b}')
                r.finding(fi.where, f'extractor of `{kv}`: {start} -> {b}',
                          f'{WHAT[start]} {msg}', node=stmts[0], ctx=fi)
    return len(frs)


def rule_order(model, r):
    frs = key_fragments(model)
    if not frs:
        raise AnalysisError('C13.R4: no sort-key extractor found')
    for fi, stmts, kv in frs:
        call_i = none_i = None
        for i, st in enumerate(stmts):
            for c in ast.walk(st):
                if isinstance(c, ast.Assign) and \
                        isinstance(c.value, ast.Call) and \
                        isinstance(c.value.func, ast.Name) and \
                        c.value.func.id == kv and call_i is None:
                    call_i = i
            if isinstance(st, ast.If) and norm(st.test) == f'{kv} is None' \
                    and none_i is None:
                none_i = i
        r.instance(fi.where, f'extractor of `{kv}`',
                   f'call step @{call_i}, None handling @{none_i}')
        if call_i is None:
            r.finding(fi.where, f'extractor of `{kv}`: call step', 'a '
                      'callable attribute is not called to obtain the sort '
                      'key', node=stmts[0], ctx=fi)
        if none_i is None:
            r.finding(fi.where, f'extractor of `{kv}`: None handling',
                      'a key of None is not mapped to the smallest key',
                      node=stmts[0], ctx=fi)
        elif call_i is not None and none_i < call_i:
            r.finding(fi.where, f'extractor of `{kv}`: None handled before '
                      'the call step', 'None is mapped to the smallest key '
                      'before a callable key is called: a callable that '
                      'returns None yields a raw None key (not first; '
                      'TypeError against other keys)', node=stmts[none_i],
                      ctx=fi)
        else:
            body = ast.unparse(stmts[none_i])
            if '_Smallest' not in body:
                r.finding(fi.where, f'extractor of `{kv}`: None handling',
                          'None is not replaced by the smallest key',
                          node=stmts[none_i], ctx=fi)
    return len(frs)


def rule_twins(model):
    r = RuleResult('C13.R4', 'the single-key and multi-key extractors agree '
                   'on getter, call-if-not-basic step, failure handling and '
                   'None handling (None handled after the call step)')
    nfr = rule_extractor_semantics(model, r)
    try:
        fi, loop, single = _extractors(model)
    except AnalysisError:
        # not of the twin shape (one shared extractor, or the getter is a
        # helper): agreement is decided by the semantic interpretation
        # above -- every extractor maps every kind of key to the same
        # abstract result
        return r
    multi = list(loop.body)
    # drop the trailing accumulation (k.append(akey))
    if multi and isinstance(multi[-1], ast.Expr) and \
            isinstance(multi[-1].value, ast.Call) and \
            isinstance(multi[-1].value.func, ast.Attribute) and \
            multi[-1].value.func.attr == 'append':
        acc = multi[-1].value.args[0]
        keyvar_m = acc.id if isinstance(acc, ast.Name) else None
        multi = multi[:-1]
    else:
        raise AnalysisError('multi-key extractor: accumulation not found')
    fieldvar_m = loop.target.id if isinstance(loop.target, ast.Name) \
        else None
    # single: key variable = first assigned name; field = the name passed to
    # the getter
    keyvar_s = fieldvar_s = None
    for s in single:
        for c in ast.walk(s):
            if isinstance(c, ast.Call) and isinstance(c.func, ast.Name) and \
                    c.func.id == 'getattr' and len(c.args) >= 2 and \
                    isinstance(c.args[1], ast.Name):
                fieldvar_s = c.args[1].id
        if keyvar_s is None and isinstance(s, ast.If):
            for c in ast.walk(s):
                if isinstance(c, ast.Assign) and \
                        isinstance(c.targets[0], ast.Name):
                    keyvar_s = c.targets[0].id
                    break
    if None in (keyvar_m, fieldvar_m, keyvar_s, fieldvar_s):
        # not of the twin shape: agreement is decided by the semantic
        # interpretation above (both extractors map every kind of key to
        # the same abstract result)
        return r

    def canon(stmts, kv, fv):
        out = []
        for s in stmts:
            s2 = _Rename({kv: 'K', fv: 'F'}).visit(copy.deepcopy(s))
            out.append(s2)
        return out
    a = canon(multi, keyvar_m, fieldvar_m)
    b = canon(single, keyvar_s, fieldvar_s)
    steps = ['getter', 'call-if-not-basic / failure handling',
             'None handling']
    r.instance(fi.where, 'multi: ' + ' ; '.join(norm(s) for s in a))
    r.instance(fi.where, 'single: ' + ' ; '.join(norm(s) for s in b))
    if len(a) != len(b):
        r.finding(fi.where, 'key extractors', 'the two key extractors have '
                  f'a different number of steps ({len(a)} vs {len(b)})',
                  node=loop, ctx=fi)
    else:
        for i, (x, y) in enumerate(zip(a, b)):
            dx, dy = ast.dump(x), ast.dump(y)
            # R3 differences (type(K) vs K as predicate argument) are
            # judged by R3, not here
            dx2 = dx.replace(
                "Call(func=Name(id='type', ctx=Load()), args=[Name(id='K', "
                "ctx=Load())], keywords=[])", "Name(id='K', ctx=Load())")
            dy2 = dy.replace(
                "Call(func=Name(id='type', ctx=Load()), args=[Name(id='K', "
                "ctx=Load())], keywords=[])", "Name(id='K', ctx=Load())")
            if dx2 != dy2:
                step = steps[i] if i < len(steps) else f'step {i}'
                r.finding(fi.where, f'{step}: {norm(x)} <> {norm(y)}',
                          f'the extractors disagree on the {step}: the same '
                          'key value sorts differently under sort=k and '
                          'sort=k,k2', node=single[i] if i < len(single)
                          else loop, ctx=fi)
    return r


class _DS(BaseState):
    def __init__(self, val=None):
        self.val = val

    def key(self):
        return self.val

    def copy(self):
        n = _DS(self.val)
        n.trace = self.trace
        return n


class _DirDomain(Domain):
    """The direction word is `word` ('asc', 'desc' or something else)."""

    def __init__(self, word):
        self.word = word

    def truth(self, e):
        if isinstance(e, ast.UnaryOp) and isinstance(e.op, ast.Not):
            v = self.truth(e.operand)
            return None if v is None else not v
        if isinstance(e, ast.Compare) and len(e.ops) == 1:
            for a, b in ((e.left, e.comparators[0]),
                         (e.comparators[0], e.left)):
                if isinstance(b, ast.Constant) and b.value in ('asc', 'desc') \
                        and not isinstance(a, ast.Constant):
                    if isinstance(e.ops[0], ast.Eq):
                        return self.word == b.value
                    if isinstance(e.ops[0], ast.NotEq):
                        return self.word != b.value
            c = e.comparators[0]
            if isinstance(e.ops[0], (ast.In, ast.NotIn)) and \
                    isinstance(c, (ast.Tuple, ast.List, ast.Set)) and \
                    all(isinstance(x, ast.Constant) for x in c.elts) and \
                    {x.value for x in c.elts} <= {'asc', 'desc'}:
                inn = self.word in {x.value for x in c.elts}
                return inn if isinstance(e.ops[0], ast.In) else not inn
        return None

    def branch(self, test, st):
        v = self.truth(test)
        if v is None:
            return [(True, st), (False, st)]
        return [(v, st)]

    def raises(self, node, st):
        return []

    @staticmethod
    def _const(v):
        if isinstance(v, ast.UnaryOp) and isinstance(v.operand,
                                                      ast.Constant) and \
                isinstance(v.operand.value, int):
            return v.operand.value * (-1 if isinstance(v.op, ast.USub)
                                      else 1)
        if isinstance(v, ast.Constant) and isinstance(v.value, int) and \
                not isinstance(v.value, bool):
            return v.value
        return None

    def effects(self, stmt, st):
        if isinstance(stmt, ast.Assign):
            c = self._const(stmt.value)
            if c is not None:
                st = st.copy()
                st.val = c
        return st

    def on_return(self, node, st):
        if node.value is not None:
            c = self._const(node.value)
            if c is not None:
                st = st.copy()
                st.val = c
        return [], st


def _direction_region(model):
    """(function, statements) deciding the multiplier from the direction
    word: the statement list from the first test against 'asc'/'desc' to
    the end of its block."""
    for fi in model.module('DT_In').funcs.values():
        for n in [fi.node] + list(own_nodes(fi.node)):
            if n is not fi.node and isinstance(
                    n, (ast.FunctionDef, ast.AsyncFunctionDef)):
                continue
            for fld in ('body', 'orelse'):
                lst = getattr(n, fld, None)
                if not isinstance(lst, list):
                    continue
                for i, st in enumerate(lst):
                    if isinstance(st, ast.If) and any(
                            isinstance(c, ast.Constant) and
                            c.value in ('asc', 'desc')
                            for c in ast.walk(st.test)):
                        return fi, lst[i:]
    return None, None


def _direction_by_scenarios(model, r):
    fi, region = _direction_region(model)
    if fi is None:
        return False
    for word, want in (('asc', 1), ('desc', -1), ('sideways', None)):
        outs = Interp(_DirDomain(word)).block(region, _DS())
        got = set()
        for o in outs:
            if o.kind == 'raise':
                got.add('raise')
            else:
                got.add(o.state.val)
        r.instance(fi.where, f'direction {word!r}',
                   ' / '.join(sorted(map(str, got))))
        if want is None:
            if got != {'raise'}:
                r.finding(fi.where, 'direction else branch', 'an unknown '
                          'direction is accepted silently',
                          node=region[0], ctx=fi)
        else:
            vals = {g for g in got if isinstance(g, int)}
            if not vals or any((v > 0) != (want > 0) or v == 0
                               for v in vals) or None in got \
                    or 'raise' in got:
                r.finding(fi.where, f'direction {word!r} -> '
                          f'{sorted(map(str, got))}',
                          "'asc' must map to a positive and 'desc' to a "
                          'negative multiplier', node=region[0], ctx=fi)
    return True


def rule_direction(model):
    r = RuleResult('C13.R5', "direction table: 'asc' -> +1, 'desc' -> -1, "
                   'anything else is rejected; the comparator multiplies')
    fi = model.func('DT_In', 'make_sortfunctions')
    if not _direction_by_scenarios(model, r):
        # a dict literal {'asc': k1, 'desc': k2} in the function or at
        # module level, looked up with a subscript / .get() and rejected
        # when missing
        table = {}
        has_else_raise = False
        cands = []
        for vals in fi.module.globals.values():
            cands += [v for v in vals if isinstance(v, ast.Dict)]
        for n in own_nodes(fi.node):
            if isinstance(n, ast.Dict):
                cands.append(n)
        cands = [n for n in cands if all(
            isinstance(k, ast.Constant) for k in n.keys) and
            {k.value for k in n.keys} == {'asc', 'desc'}]
        for dnode in cands:
            for k, v in zip(dnode.keys, dnode.values):
                c = _DirDomain._const(v)
                if c is not None:
                    table[k.value] = c
        if table:
            for n in own_nodes(fi.node):
                if isinstance(n, ast.If) and (
                        'is None' in norm(n.test) or
                        'not in' in norm(n.test)) and any(
                        isinstance(x, ast.Raise) for x in n.body):
                    has_else_raise = True
            for n in own_nodes(fi.node):
                if isinstance(n, ast.Try) and any(
                        isinstance(x, ast.Raise) for h in n.handlers
                        for x in ast.walk(h)):
                    has_else_raise = has_else_raise or any(
                        'KeyError' in norm(h.type or ast.Name(id=''))
                        for h in n.handlers)
        r.instance(fi.where, f'table {table}', 'else raises'
                   if has_else_raise else 'else falls through')
        if not (isinstance(table.get('asc'), int) and table.get('asc') > 0
                and isinstance(table.get('desc'), int)
                and table.get('desc') < 0):
            r.finding(fi.where, f'direction table {table}', "'asc' must "
                      "map to a positive and 'desc' to a negative "
                      'multiplier', node=fi.node, ctx=fi)
        if not has_else_raise:
            r.finding(fi.where, 'direction else branch', 'an unknown '
                      'direction is accepted silently', node=fi.node, ctx=fi)
    sb = model.func('DT_In', 'SortBy.__call__')
    mult = any(isinstance(n, ast.Return) and isinstance(n.value, ast.BinOp)
               and isinstance(n.value.op, ast.Mult)
               for n in own_nodes(sb.node))
    r.instance(sb.where, 'return n * multiplier', 'ok' if mult else '?')
    if not mult:
        r.finding(sb.where, 'return', 'the comparator does not apply the '
                  'direction multiplier', node=sb.node, ctx=sb)
    # cmp helper
    c = model.func('DT_In', 'cmp')
    if not _three_way(c):
        r.finding(c.where, c.node.body[-1], 'cmp() is not the three-way '
                  'comparison', node=c.node, ctx=c)
    r.instance(c.where, c.node.body[-1])
    return r


class _NKS(BaseState):
    def __init__(self, may=frozenset(), looked=frozenset()):
        self.may = may            # locals that may hold None
        self.looked = looked      # locals that hold(held) a looked-up value

    def key(self):
        return (self.may, self.looked)

    def copy(self):
        n = _NKS(self.may, self.looked)
        n.trace = self.trace
        return n


class _NoneKeyDomain(Domain):
    """Which extracted sort keys may still be None where they reach the
    decorated list?  Helpers are summarised by "may return None"."""

    def __init__(self, model, fi, may_none):
        self.model, self.fi = model, fi
        self.may_none = may_none          # where -> bool (helper summary)
        self.sinks = {}
        self.ret_none = False
        self.saw_source = False

    def _helper(self, call):
        for t in self.model.resolve_callee(call.func, self.fi):
            if t[0] == 'func' and t[1].where in self.may_none:
                return t[1].where
        # nested function of the enclosing function
        if isinstance(call.func, ast.Name):
            for w in self.may_none:
                if w.endswith('.' + call.func.id) or \
                        w.endswith(':' + call.func.id):
                    return w
        return None

    def source(self, e, st):
        # lookup that answers None for a missing field, the result of
        # calling the looked-up value, or a helper that may return None
        if isinstance(e, ast.Call):
            f = e.func
            h = self._helper(e)
            if h is not None:
                return self.may_none[h]
            if isinstance(f, ast.Attribute) and f.attr == 'get' and \
                    len(e.args) == 1:
                self.saw_source = True
                return True
            if isinstance(f, ast.Name) and f.id == 'getattr' and \
                    len(e.args) == 3 and isinstance(
                        e.args[2], ast.Constant) and e.args[2].value is None:
                self.saw_source = True
                return True
            if isinstance(f, ast.Name) and not e.args and not e.keywords \
                    and (f.id in st.may or f.id in st.looked):
                return True        # akey(): the looked-up value called
        if isinstance(e, ast.Name):
            return e.id in st.may
        if isinstance(e, ast.IfExp):
            return self.source(e.body, st) or self.source(e.orelse, st)
        if isinstance(e, (ast.ListComp, ast.GeneratorExp)):
            return self.source(e.elt, st)
        if isinstance(e, (ast.List, ast.Tuple)):
            return any(self.source(x, st) for x in e.elts)
        return False

    def raises(self, node, st):
        return [ANY_K] if any(isinstance(x, ast.Call)
                              for x in ast.walk(node)) else []

    def branch(self, test, st):
        if isinstance(test, ast.Compare) and len(test.ops) == 1 and \
                isinstance(test.left, ast.Name) and isinstance(
                    test.comparators[0], ast.Constant) and \
                test.comparators[0].value is None and isinstance(
                    test.ops[0], (ast.Is, ast.IsNot, ast.Eq, ast.NotEq)):
            v = test.left.id
            pos = isinstance(test.ops[0], (ast.Is, ast.Eq))
            isnone, notnone = st.copy(), st.copy()
            notnone.may = st.may - {v}
            return [(pos, isnone), (not pos, notnone)]
        return [(True, st), (False, st)]

    def _sink(self, node, e, st):
        k = e.elts[0] if isinstance(e, ast.Tuple) and e.elts else e
        bad = self.source(k, st)
        rec = self.sinks.setdefault(id(node), [node, False])
        rec[1] = rec[1] or bad

    def effects(self, stmt, st):
        for c in ast.walk(stmt):
            if isinstance(c, ast.Call) and isinstance(
                    c.func, ast.Attribute) and c.func.attr == 'append' and \
                    len(c.args) == 1 and isinstance(
                        c.args[0], (ast.Name, ast.Tuple, ast.Call)):
                self._sink(c, c.args[0], st)
        if isinstance(stmt, ast.Assign) and len(stmt.targets) == 1 and \
                isinstance(stmt.targets[0], ast.Name):
            t = stmt.targets[0].id
            n = st.copy()
            src = self.source(stmt.value, st)
            n.may = (st.may | {t}) if src else (st.may - {t})
            n.looked = (st.looked | {t}) if src else st.looked
            return n
        return st

    def enter_handler(self, h, st, exc):
        return st

    def on_return(self, node, st):
        if node.value is not None and self.source(node.value, st):
            self.ret_none = True
        return [], st


def rule_none_keys(model):
    r = RuleResult('C13.R9', 'no extracted sort key reaches the decorated '
                   'list while it may still be None: a missing field AND '
                   'the None a callable field returns are both replaced by '
                   'the smallest-key marker first (None does not compare '
                   'with real keys); helpers are summarised by whether '
                   'they may return None')
    ss = model.func('DT_In', 'InClass.sort_sequence')
    clo = list(model.closure(ss))
    for h in ss.module.funcs.values():
        p_ = h.parent
        while p_ is not None:
            if p_ in clo and h not in clo:
                clo.append(h)
            p_ = p_.parent
    may_none = {f.where: False for f in clo if f is not ss}
    doms = {}
    saw = False
    for _ in range(3):
        changed = False
        for f in clo:
            dom = _NoneKeyDomain(model, f, may_none)
            it = Interp(dom, max_states=80000)
            it.run(f.node, _NKS())
            if it.overflow:
                raise AnalysisError(f'C13.R9: state budget in {f.where}')
            doms[f.where] = (f, dom)
            saw = saw or dom.saw_source
            if f is not ss and dom.ret_none and not may_none[f.where]:
                may_none[f.where] = True
                changed = True
        if not changed:
            break
    n = 0
    for f, dom in doms.values():
        for node, bad in dom.sinks.values():
            n += 1
            r.instance(f.where, node, 'MAY BE None' if bad else 'never None')
            if bad:
                r.finding(f.where, node, 'a sort key that may be None '
                          'reaches the decorated list (the field is '
                          'missing, or a callable field returned None '
                          'after the None test): sorting then compares '
                          'None with real keys and raises TypeError '
                          'instead of putting the element first',
                          node=node, ctx=f)
    for w, v in sorted(may_none.items()):
        if w in doms and doms[w][1].saw_source or v:
            r.instance(w, 'helper summary', 'may return None' if v
                       else 'never returns None')
    if not saw or n < 1:
        raise AnalysisError('C13.R9: the key lookup / the decorated list '
                            f'were not found (lookup seen: {saw}, '
                            f'hand-over sites: {n})')
    r.floor = 1
    return r


def _three_way(fi):
    """Does the two-parameter function return a negative / zero /
    positive number for first < / == / > second?  Decided by evaluating
    its body in the three scenarios (comparisons of the two parameters are
    known, everything else is unknown)."""
    ps = fi.params()
    if len(ps) != 2:
        return False
    a, b = ps

    class Unknown(Exception):
        pass

    env = {}

    def ev(e, sc):
        if isinstance(e, ast.Constant) and isinstance(e.value, (int, bool)):
            return e.value
        if isinstance(e, ast.Name) and e.id in env:
            return env[e.id]
        if isinstance(e, ast.Compare) and len(e.ops) == 1 and isinstance(
                e.left, ast.Name) and isinstance(
                e.comparators[0], ast.Name):
            l, r_ = e.left.id, e.comparators[0].id
            if {l, r_} != {a, b}:
                raise Unknown
            rel = sc if l == a else {'lt': 'gt', 'gt': 'lt', 'eq': 'eq'}[sc]
            return {ast.Lt: rel == 'lt', ast.Gt: rel == 'gt',
                    ast.LtE: rel != 'gt', ast.GtE: rel != 'lt',
                    ast.Eq: rel == 'eq', ast.NotEq: rel != 'eq'}.get(
                        type(e.ops[0]), None) if type(e.ops[0]) in (
                        ast.Lt, ast.Gt, ast.LtE, ast.GtE, ast.Eq,
                        ast.NotEq) else (_ for _ in ()).throw(Unknown())
        if isinstance(e, ast.BinOp) and isinstance(
                e.op, (ast.Sub, ast.Add, ast.Mult)):
            x, y = ev(e.left, sc), ev(e.right, sc)
            return {ast.Sub: x - y, ast.Add: x + y,
                    ast.Mult: x * y}[type(e.op)]
        if isinstance(e, ast.UnaryOp) and isinstance(e.op, ast.USub):
            return -ev(e.operand, sc)
        if isinstance(e, ast.UnaryOp) and isinstance(e.op, ast.Not):
            return not ev(e.operand, sc)
        if isinstance(e, ast.IfExp):
            return ev(e.body if ev(e.test, sc) else e.orelse, sc)
        if isinstance(e, ast.Call) and isinstance(e.func, ast.Name) and \
                e.func.id in ('int', 'bool') and len(e.args) == 1:
            return int(ev(e.args[0], sc))
        raise Unknown

    def run(stmts, sc):
        for st in stmts:
            if isinstance(st, ast.Expr) and isinstance(
                    st.value, ast.Constant):
                continue
            if isinstance(st, ast.Return):
                if st.value is None:
                    raise Unknown
                return ev(st.value, sc)
            if isinstance(st, ast.Assign) and len(st.targets) == 1 and \
                    isinstance(st.targets[0], ast.Name) and \
                    st.targets[0].id not in (a, b):
                env[st.targets[0].id] = ev(st.value, sc)
                continue
            if isinstance(st, ast.If):
                v = run(st.body if ev(st.test, sc) else st.orelse, sc)
                if v is not None:
                    return v
                continue
            raise Unknown
        return None
    try:
        res = []
        for sc in ('lt', 'eq', 'gt'):
            env.clear()
            res.append(run(fi.node.body, sc))
        lt, eq, gt = res
    except Unknown:
        return False
    return None not in (lt, eq, gt) and lt < 0 and eq == 0 and gt > 0


def _inl(rule):
    """Run a rule on the view in which helpers that are new w.r.t. the
    reference tree are inlined at their call sites (normalise.N2)."""
    def run(model):
        return rule(model.inlined_view())
    run.__name__ = rule.__name__
    return run


INLINED_VIEW = False


class _PairS(BaseState):
    def __init__(self, env=None):
        self.env = dict(env or {})

    def key(self):
        return tuple(sorted(self.env.items()))

    def copy(self):
        n = _PairS(self.env)
        n.trace = self.trace
        return n


class _PairDomain(Domain):
    """One round of the decorating loop for an element that is / is not a
    (key, value) pair.  Values: ITEM (the element), ITEM[0], ITEM[1],
    NONE, ? (anything else)."""

    def __init__(self, item, pair):
        self.item = item
        self.pair = pair
        self.decorated = []      # (node, key value)

    def ev(self, e, st):
        if isinstance(e, ast.Name):
            if e.id == self.item:
                return {'ITEM'}
            return set(st.env.get(e.id, ('?',)))
        if isinstance(e, ast.Constant) and e.value is None:
            return {'NONE'}
        if isinstance(e, ast.Subscript) and isinstance(
                e.slice, ast.Constant) and e.slice.value in (0, 1):
            base = self.ev(e.value, st)
            if base == {'ITEM'}:
                return {f'ITEM[{e.slice.value}]'}
            return {'?'}
        if isinstance(e, ast.IfExp):
            t = self.truth(e.test, st)
            if t is True:
                return self.ev(e.body, st)
            if t is False:
                return self.ev(e.orelse, st)
            return self.ev(e.body, st) | self.ev(e.orelse, st)
        return {'?'}

    def truth(self, e, st=None):
        if isinstance(e, ast.UnaryOp) and isinstance(e.op, ast.Not):
            v = self.truth(e.operand, st)
            return None if v is None else not v
        if isinstance(e, ast.Name) and st is not None:
            v = st.env.get(e.id)
            if v == ('TRUE',):
                return True
            if v == ('FALSE',):
                return False
            return None
        if isinstance(e, ast.BoolOp):
            vals = [self.truth(v, st) for v in e.values]
            if isinstance(e.op, ast.And):
                if any(v is False for v in vals):
                    return False
                return True if all(v is True for v in vals) else None
            if any(v is True for v in vals):
                return True
            return False if all(v is False for v in vals) else None
        t = norm(e)
        if t in (f'isinstance({self.item}, tuple)',
                 f'type({self.item}) is tuple',
                 f'type({self.item}) is TupleType',
                 f'len({self.item}) == 2'):
            return self.pair
        return None

    def branch(self, test, st):
        v = self.truth(test, st)
        if v is None:
            return [(True, st), (False, st)]
        return [(v, st)]

    def raises(self, node, st):
        return []

    def effects(self, stmt, st):
        if isinstance(stmt, ast.Assign) and len(stmt.targets) == 1 and \
                isinstance(stmt.targets[0], ast.Name):
            t = self.truth(stmt.value, st)
            if t is not None:
                st = st.copy()
                st.env[stmt.targets[0].id] = ('TRUE',) if t \
                    else ('FALSE',)
                return st
        for c in ast.walk(stmt):
            if isinstance(c, ast.Call) and isinstance(
                    c.func, ast.Attribute) and c.func.attr == 'append' and \
                    c.args and isinstance(c.args[0], ast.Tuple) and \
                    len(c.args[0].elts) == 2 and \
                    norm(c.args[0].elts[1]) == self.item:
                for v in self.ev(c.args[0].elts[0], st):
                    self.decorated.append((c, v))
        if isinstance(stmt, ast.Assign):
            vals = self.ev(stmt.value, st)
            st = st.copy()
            for t in stmt.targets:
                if isinstance(t, ast.Name):
                    st.env[t.id] = tuple(sorted(vals))
                else:
                    for x in ast.walk(t):
                        if isinstance(x, ast.Name) and isinstance(
                                x.ctx, ast.Store):
                            st.env[x.id] = ('?',)
        return st

    def for_target(self, node, st):
        ns = st.copy()
        for x in ast.walk(node.target):
            if isinstance(x, ast.Name):
                ns.env[x.id] = ('?',)
        return ns


def rule_pair_key(model):
    r = RuleResult('C13.R6', 'an element that is a (key, value) pair is '
                   'decorated with its key only (never with the whole '
                   'pair): pairs with equal keys keep their order and '
                   'their values are never compared')
    fi = model.func('DT_In', 'InClass.sort_sequence')
    loops = []
    for n in own_nodes(fi.node):
        if isinstance(n, ast.For) and isinstance(n.target, ast.Name):
            item = n.target.id
            if any(isinstance(c, ast.Call) and isinstance(
                    c.func, ast.Attribute) and c.func.attr == 'append'
                    and c.args and isinstance(c.args[0], ast.Tuple) and
                    len(c.args[0].elts) == 2 and
                    norm(c.args[0].elts[1]) == item for c in ast.walk(n)):
                loops.append(n)
    if len(loops) != 1:
        raise AnalysisError('sort_sequence: decorating loop not found')
    lp = loops[0]
    item = lp.target.id
    for pair in (True, False):
        dom = _PairDomain(item, pair)
        Interp(dom).block(lp.body, _PairS())
        got = sorted({v for _, v in dom.decorated})
        r.instance(fi.where, f'element is a pair: {pair}',
                   'decorated with ' + ', '.join(got))
        bad = 'ITEM' if pair else 'ITEM[0]'
        want = 'ITEM[0]' if pair else 'ITEM'
        node = dom.decorated[0][0] if dom.decorated else lp
        if bad in got or want not in got:
            r.finding(fi.where, f'pair={pair}: key in {got}', (
                'a (key, value) pair can be decorated with the whole pair: '
                'pairs with equal keys are then ordered by their values '
                '(stability lost) and unorderable values raise TypeError'
                if pair else 'an element that is not a pair is decorated '
                'with its first item'), node=node, ctx=fi)
    return r


def rule_comparator_ties(model):
    r = RuleResult('C13.R8', 'the case-insensitive comparison functions '
                   'that sort=key/nocase (and /locale_nocase) select compare '
                   'the case-folded strings and nothing else: strings that '
                   'differ in case only compare EQUAL, so the stable sort '
                   'keeps their original order (a tie-break inside the '
                   'comparator reorders them)')
    mk = model.func('DT_In', 'make_sortfunctions')
    n = 0
    seen = set()
    cands = []
    for f in model.closure(mk):
        for x in own_nodes(f.node):
            if isinstance(x, (ast.Assign, ast.Return)) and isinstance(
                    x.value, ast.Name) and 'nocase' in x.value.id:
                cands.append(x)
    for x in cands:
        res = model.resolve_global(mk.module, x.value.id)
        # nested definition inside a module-level `if`
        fn = None
        if res and res[0] == 'func':
            fn = res[1]
        else:
            for g in model.all_funcs():
                if g.name == x.value.id and g.module.short in (
                        'DT_In', 'sequence', 'DocumentTemplate.sequence'):
                    fn = g
        if res and res[0] == 'ext':
            r.instance(mk.where, x, f'{res[1]} (library, trusted)')
            n += 1
            continue
        if fn is None or id(fn) in seen:
            if fn is None:
                r.instance(mk.where, x, 'not resolved')
            continue
        seen.add(id(fn))
        n += 1
        rets = [y for y in own_nodes(fn.node) if isinstance(y, ast.Return)]

        def folded_compare(call, g, strs):
            # cmpfunc(a.lower(), b.lower()) over exactly the two strings
            return isinstance(call, ast.Call) and len(call.args) == 2 and \
                all(isinstance(a, ast.Call) and isinstance(
                    a.func, ast.Attribute) and a.func.attr in (
                    'lower', 'casefold', 'upper') and
                    norm(a.func.value) in strs for a in call.args) and \
                len({norm(a.func.value) for a in call.args}) == 2
        ps_ = fn.params()[:2]
        ok = len(rets) == 1 and folded_compare(rets[0].value, fn, ps_)
        if not ok and len(rets) == 1 and isinstance(
                rets[0].value, ast.Call):
            # ... or a shared helper that does exactly that with the two
            # strings it is handed
            c_ = rets[0].value
            for t in model.resolve_callee(c_.func, fn):
                if t[0] != 'func':
                    continue
                h = t[1]
                hp = h.params()
                hr = [y for y in own_nodes(h.node)
                      if isinstance(y, ast.Return)]
                pos = [i for i, a_ in enumerate(c_.args)
                       if norm(a_) in ps_]
                if len(hr) == 1 and len(pos) == 2 and all(
                        i < len(hp) for i in pos) and folded_compare(
                        hr[0].value, h, [hp[i] for i in pos]):
                    ok = True
        r.instance(fn.where, rets[0] if rets else fn.node.name,
                   'compares the folded strings only' if ok
                   else 'MORE THAN THE FOLDED STRINGS')
        if not ok:
            r.finding(fn.where, rets[0] if rets else fn.node.name,
                      f'{fn.name}() does not simply compare the case-folded '
                      'strings: keys that differ in case only no longer '
                      'compare equal, so sort=key/nocase reorders elements '
                      'the stable sort must keep in their original order '
                      '(and reverse is no longer the exact reverse)',
                      node=rets[0] if rets else fn.node, ctx=fn)
    # a name that says "nocase" selects a function that folds case: in the
    # if/elif chain of make_sortfunctions or in a module-level table
    m_ = mk.module
    pairs = []
    for f in model.closure(mk):
        for x in own_nodes(f.node):
            if isinstance(x, ast.If):
                names_ = [c.value for c in ast.walk(x.test)
                          if isinstance(c, ast.Constant) and
                          isinstance(c.value, str)]
                sel = [y.value for y in x.body
                       if isinstance(y, (ast.Assign, ast.Return)) and
                       isinstance(y.value, ast.Name)]
                for nm in names_:
                    for v in sel:
                        pairs.append((f.where, x, nm, v.id))
    for x in ast.walk(m_.tree):
        if isinstance(x, ast.Dict):
            for k, v in zip(x.keys, x.values):
                if isinstance(k, ast.Constant) and isinstance(
                        k.value, str) and isinstance(v, ast.Name):
                    pairs.append((m_.short + ':<module>', x, k.value, v.id))
        if isinstance(x, ast.Call) and isinstance(x.func, ast.Name) and \
                x.func.id == 'dict':
            for kw_ in x.keywords:
                if kw_.arg and isinstance(kw_.value, ast.Name):
                    pairs.append((m_.short + ':<module>', x, kw_.arg,
                                  kw_.value.id))
    for where, node, nm, fn_ in pairs:
        if 'nocase' not in nm and 'nocase' not in fn_:
            continue
        if not any(k in nm for k in ('nocase', 'locale', 'strcoll', 'cmp')):
            continue
        n += 1
        ok = ('nocase' in nm) == ('nocase' in fn_)
        r.instance(where, f'{nm!r} -> {fn_}', 'agrees' if ok
                   else 'NAME AND FUNCTION DISAGREE')
        if not ok:
            r.finding(where, f'{nm!r} -> {fn_}', f'the sort function name '
                      f'{nm!r} selects {fn_}(): a "nocase" name must select '
                      'a case-folding comparison (and only such a name '
                      'may), otherwise keys that differ in case only are '
                      'ordered by case', node=node)
    if n < 1:
        raise AnalysisError('C13.R8: the nocase comparison function was not '
                            'found in make_sortfunctions')
    return r


def _parse_time_derived(fi, key):
    """Attributes of self that __init__ derives from args[key]."""
    def mentions(e, names):
        for x in ast.walk(e):
            if isinstance(x, ast.Subscript) and isinstance(
                    x.slice, ast.Constant) and x.slice.value == key:
                return True
            if isinstance(x, ast.Call) and isinstance(
                    x.func, ast.Attribute) and x.func.attr in ('get', 'pop') \
                    and x.args and isinstance(x.args[0], ast.Constant) \
                    and x.args[0].value == key:
                return True
            if isinstance(x, ast.Name) and x.id in names:
                return True
            if isinstance(x, ast.Attribute) and isinstance(
                    x.value, ast.Name) and x.value.id == 'self' and \
                    'self.' + x.attr in names:
                return True
        return False
    names = set()
    changed = True
    while changed:
        changed = False
        for n in own_nodes(fi.node):
            if isinstance(n, (ast.Assign, ast.AnnAssign, ast.AugAssign)) \
                    and getattr(n, 'value', None) is not None and \
                    mentions(n.value, names):
                tg = n.targets if isinstance(n, ast.Assign) else [n.target]
                for t in tg:
                    for x in ast.walk(t):
                        nm = None
                        if isinstance(x, ast.Name):
                            nm = x.id
                        elif isinstance(x, ast.Attribute) and isinstance(
                                x.value, ast.Name) and x.value.id == 'self':
                            nm = 'self.' + x.attr
                        if nm and nm not in names:
                            names.add(nm)
                            changed = True
    return {n[5:] for n in names if n.startswith('self.')}


def rule_effective_spec(model):
    r = RuleResult('C13.R7', 'the sort routine interprets the spec it is '
                   'given (the literal sort= or the value of sort_expr): '
                   'what the constructor derived from the literal sort= at '
                   'parse time is read only as the fall-back for a missing '
                   'argument')
    ci = model.cls('DT_In', 'InClass')
    init = ci.methods.get('__init__')
    fi = ci.methods.get('sort_sequence')
    if init is None or fi is None:
        raise AnalysisError('InClass.__init__ / sort_sequence not found')
    derived = _parse_time_derived(init, 'sort')
    if 'sort' not in derived:
        raise AnalysisError('C13.R7: InClass.__init__ does not store '
                            "args['sort'] (anchor vanished)")
    r.stats['derived from the literal sort= at parse time'] = sorted(derived)
    params = fi.params()
    n = 0
    for x in own_nodes(fi.node):
        if not (isinstance(x, ast.Attribute) and isinstance(x.ctx, ast.Load)
                and isinstance(x.value, ast.Name) and x.value.id == 'self'
                and x.attr in derived):
            continue
        n += 1
        # accepted: `<param> = self.X` / `self.X if <param> is None ...`
        # under a test that the spec parameter is missing
        ok = False
        par = x._dt_parent if hasattr(x, '_dt_parent') else None
        from ..model import parent as _parent
        par = _parent(x)
        spec = None
        if isinstance(par, ast.Assign) and par.value is x and \
                len(par.targets) == 1 and isinstance(
                    par.targets[0], ast.Name) and \
                par.targets[0].id in params:
            spec = par.targets[0].id
            for anc in ancestors(par):
                if isinstance(anc, ast.If) and par in anc.body and \
                        norm(anc.test) in (f'{spec} is None',
                                           f'not {spec}'):
                    ok = True
        elif isinstance(par, ast.IfExp):
            t = norm(par.test)
            for p_ in params:
                if (par.body is x and t in (f'{p_} is None', f'not {p_}')) \
                        or (par.orelse is x and t in (f'{p_} is not None',
                                                      p_)):
                    ok = True
        elif isinstance(par, ast.BoolOp) and isinstance(par.op, ast.Or) \
                and par.values[-1] is x and isinstance(
                    par.values[0], ast.Name) and par.values[0].id in params:
            ok = True
        r.instance(fi.where, x, 'fall-back for a missing spec' if ok
                   else 'PARSE-TIME VIEW OF THE SPEC')
        if not ok:
            r.finding(fi.where, x, f'self.{x.attr} was derived from the '
                      'literal sort= attribute when the tag was compiled; '
                      'sort_sequence also sorts by the spec sort_expr '
                      'computes at render time, for which this value is '
                      'stale (a "key/nocase/desc" from sort_expr would not '
                      'be split into key, function and direction)',
                      node=x, ctx=fi)
    if n < 1:
        raise AnalysisError('C13.R7: sort_sequence does not read the '
                            'stored spec at all')
    return r


RULES_PLAIN = [rule_mutation, rule_stability, rule_predicate, rule_twins,
               rule_direction, rule_pair_key, rule_effective_spec,
               rule_comparator_ties, rule_none_keys]
RULES = [_inl(r_) if r_ in (rule_effective_spec, rule_comparator_ties)
         else r_ for r_ in RULES_PLAIN]
EXPLANATION = (
    'Flow-sensitive may-alias analysis of caller data against every '
    'mutating operation in DT_In/DT_InSV; keyed-sort query; predicate '
    'argument typing; alpha-renamed AST twin comparison of the two key '
    'extractors; direction table folding.')
ASSUMPTIONS = ['does not decide the order produced for concrete key values']
TRUSTED = ['python ast']
