"""C11 -- batch links (narrow structural clauses).

R1 every call announcing the next batch passes  end + 1 - overlap  as start,
   every call announcing the previous batch passes  start - 1 + overlap  as
   end (linear-normalised), with the same size/orphan/sequence
R2 the published index/size keys obey one formula at all sites
R3 the five parameters are read through int_param; next-/previous-sequence
   are set only on the last / first displayed index
"""
import ast

from ..core import AnalysisError
from ..core import RuleResult
from ..core import norm
from ..flow import NORMAL
from ..flow import BaseState
from ..flow import RAISE
from ..flow import Domain
from ..flow import Interp
from ..flow import Outcome
from ..linear import lin_eq
from ..linear import lin_str
from ..linear import parse_expr
from ..linear import single_assignments
from ..model import ancestors
from ..model import own_nodes
INF_ = float('inf')
from ..zone import Zone
from ..zone import compare_forms
from ..zone import lin
from ..zone import sub

FUNCS = [('DT_In', 'InClass.renderwb'),
         ('DT_InSV', 'sequence_variables.next_batches'),
         ('DT_InSV', 'sequence_variables.previous_batches')]


def _opt_calls(model, fi):
    return [n for n in own_nodes(fi.node) if isinstance(n, ast.Call)
            and 'DT_InSV:opt' in model.callee_names(n, fi)
            and len(n.args) == 5]


def _window_names(model, fi):
    """Names that denote the current step size, orphan and sequence in fi:
    the third value unpacked from the window opt() call (renderwb) or what
    is read back from the published sequence-step-* keys (batch lists)."""
    out = {'size': set(), 'orphan': {'orphan'}, 'sequence': {'sequence'}}
    for n in own_nodes(fi.node):
        if isinstance(n, ast.Assign) and isinstance(n.targets[0], ast.Tuple)\
                and isinstance(n.value, ast.Call) and \
                'DT_InSV:opt' in model.callee_names(n.value, fi) and \
                len(n.targets[0].elts) == 3:
            a = n.value.args
            window = not (isinstance(a[0], ast.Constant) and
                          a[0].value == 0) and not (
                isinstance(a[1], ast.Constant) and a[1].value == 0)
            if window and isinstance(n.targets[0].elts[2], ast.Name):
                out['size'].add(n.targets[0].elts[2].id)
                out['orphan'].add(norm(a[3]))
                out['sequence'].add(norm(a[4]))
        if isinstance(n, ast.Assign) and isinstance(n.targets[0], ast.Name) \
                and isinstance(n.value, ast.Subscript) and \
                isinstance(n.value.slice, ast.Constant):
            k = n.value.slice.value
            if k == 'sequence-step-size':
                out['size'].add(n.targets[0].id)
            elif k == 'sequence-step-orphan':
                out['orphan'].add(n.targets[0].id)
        if isinstance(n, ast.Assign) and isinstance(n.targets[0], ast.Name) \
                and norm(n.value) == 'self.items':
            out['sequence'].add(n.targets[0].id)
    # plain copies (sz = size; also the elements of a tuple-to-tuple
    # assignment) of these names denote the same values
    for _ in range(3):
        for n in own_nodes(fi.node):
            if not isinstance(n, ast.Assign) or len(n.targets) != 1:
                continue
            t, v = n.targets[0], n.value
            pairs = []
            if isinstance(t, ast.Name) and isinstance(v, ast.Name):
                pairs.append((t.id, v.id))
            elif isinstance(t, ast.Tuple) and isinstance(v, ast.Tuple) and \
                    len(t.elts) == len(v.elts):
                pairs += [(a.id, b.id) for a, b in zip(t.elts, v.elts)
                          if isinstance(a, ast.Name) and
                          isinstance(b, ast.Name)]
            for dst, src in pairs:
                for k in out:
                    if src in out[k]:
                        out[k].add(dst)
    return out


def rule_windows(model):
    r = RuleResult('C11.R1', 'next batch starts at end+1-overlap, previous '
                   'batch ends at start-1+overlap, at every site')
    want_next = parse_expr('end + 1 - overlap')
    want_prev = parse_expr('start - 1 + overlap')
    n_next = n_prev = n_win = 0
    for mshort, qual in FUNCS:
        fi = model.func(mshort, qual)
        subst = single_assignments(model, fi)
        # only geometry aliases (first = start - 1, last = end - 1)
        subst = {k: v for k, v in subst.items() if k in ('first', 'last')}
        for c in _opt_calls(model, fi):
            a0, a1 = c.args[0], c.args[1]
            z0 = isinstance(a0, ast.Constant) and a0.value == 0
            z1 = isinstance(a1, ast.Constant) and a1.value == 0
            if z1 and not z0:
                n_next += 1
                ok = lin_eq(a0, want_next, subst)
                r.instance(fi.where, c, 'next: start=' + lin_str(a0, subst))
                if not ok:
                    r.finding(fi.where, c, 'the next batch is announced to '
                              f'start at {lin_str(a0, subst)} instead of '
                              'end+1-overlap: following the next link skips '
                              'or repeats elements', node=c, ctx=fi)
            elif z0 and not z1:
                n_prev += 1
                ok = lin_eq(a1, want_prev, subst)
                r.instance(fi.where, c, 'previous: end=' +
                           lin_str(a1, subst))
                if not ok:
                    r.finding(fi.where, c, 'the previous batch is announced '
                              f'to end at {lin_str(a1, subst)} instead of '
                              'start-1+overlap', node=c, ctx=fi)
            else:
                n_win += 1
                r.instance(fi.where, c, 'window')
            # size / orphan / sequence are handed on unchanged
            names = [norm(a) for a in c.args[2:]]
            if not (z0 or z1):
                continue
            okn = _window_names(model, fi)
            if names[0] not in okn['size'] or names[1] not in okn['orphan'] \
                    or names[2] not in okn['sequence']:
                r.finding(fi.where, c, 'a neighbouring batch is computed '
                          f'with ({", ".join(names)}) instead of the '
                          'current step size, orphan and sequence', node=c,
                          ctx=fi)
    r.stats = {'next_sites': n_next, 'previous_sites': n_prev,
               'window_sites': n_win}
    if n_next < 3 or n_prev < 3 or n_win < 1:
        raise AnalysisError(f'C11.R1: opt() call sites next={n_next} '
                            f'previous={n_prev} window={n_win} (floor '
                            '3/3/1)')
    r.floor = 7
    return r


def rule_keys(model):
    r = RuleResult('C11.R2', 'published batch keys: *-start-index = '
                   'start-1, *-end-index = end-1, *-size = end+1-start')
    n = 0
    for mshort, qual in FUNCS:
        fi = model.func(mshort, qual)
        # the (start, end) pair unpacked from the nearest preceding opt()
        for st in own_nodes(fi.node):
            if not (isinstance(st, ast.Assign) and
                    isinstance(st.targets[0], ast.Subscript)):
                continue
            sl_ = st.targets[0].slice
            if not isinstance(sl_, ast.Constant):
                # 'previous' + '-sequence-size' (a helper inlined with a
                # constant argument), f'{...}-sequence-size'
                ok_, val_ = model.fold(sl_, fi)
                if not ok_ and isinstance(sl_, ast.JoinedStr) and all(
                        isinstance(v, ast.Constant) or (
                            isinstance(v, ast.FormattedValue) and
                            isinstance(v.value, ast.Constant) and
                            v.format_spec is None and v.conversion == -1)
                        for v in sl_.values):
                    ok_, val_ = True, ''.join(
                        str(v.value if isinstance(v, ast.Constant)
                            else v.value.value) for v in sl_.values)
                if ok_ and isinstance(val_, str):
                    sl_ = ast.copy_location(ast.Constant(value=val_), sl_)
                    st.targets[0].slice = sl_
            if not (isinstance(sl_, ast.Constant) and
                    isinstance(sl_.value, str)):
                continue
            key = sl_.value
            kind = None
            for suf in ('-start-index', '-end-index', '-size'):
                if key.endswith(suf) and key.split(suf)[0] in (
                        'previous-sequence', 'next-sequence', 'batch',
                        'sequence-step'):
                    kind = suf
            if kind is None or key == 'sequence-step-size':
                continue
            # the names of the pair in scope
            pair = _pair_for(model, fi, st)
            if pair is None:
                raise AnalysisError(f'C11.R2: no (start, end) pair for '
                                    f'{norm(st)} in {fi.where}')
            s, e = pair
            want = {'-start-index': f'{s} - 1', '-end-index': f'{e} - 1',
                    '-size': f'{e} + 1 - {s}'}[kind]
            n += 1
            ok = lin_eq(st.value, parse_expr(want))
            if not ok:
                # through copies made by an inlined helper
                # (pstart__helper3 = pstart)
                from ..linear import single_assignments
                sub_ = {k: v for k, v in single_assignments(
                    model, fi).items() if k not in (s, e)}
                ok = lin_eq(st.value, parse_expr(want), sub_)
            r.instance(fi.where, st, 'ok' if ok else 'MISMATCH')
            if not ok:
                r.finding(fi.where, st, f'{key} is computed as '
                          f'{lin_str(st.value)}, the other sites use '
                          f'{want}', node=st, ctx=fi)
    if n < 12:
        raise AnalysisError(f'C11.R2: only {n} batch key stores found')
    r.floor = 12
    return r


def _pair_for(model, fi, st):
    """(start var, end var) of the nearest enclosing/preceding unpack of an
    opt() result; sequence-step-* keys use the function's own start/end."""
    key = st.targets[0].slice.value
    if key.startswith('sequence-step'):
        return ('start', 'end')
    # nearest preceding unpack in the order of the statements (line
    # numbers are not used: statements of an inlined helper keep theirs)
    best = None
    for n in own_nodes(fi.node):
        if n is st:
            break
        if not (isinstance(n, ast.Assign) and isinstance(
                n.targets[0], ast.Tuple)):
            continue
        v_ = n.value
        if isinstance(v_, ast.Name):
            # batch = opt(...); pstart, pend, psize = batch
            ds_ = [d for d in model.local_defs(fi, v_.id)
                   if isinstance(d, ast.AST)]
            if ds_ and all(isinstance(d, ast.Call) and 'DT_InSV:opt' in
                           model.callee_names(d, fi) for d in ds_):
                best = n
        elif isinstance(v_, ast.Call) and \
                'DT_InSV:opt' in model.callee_names(v_, fi):
            best = n
    if best is None:
        return None
    elts = best.targets[0].elts
    return (elts[0].id, elts[1].id)


def rule_params(model):
    r = RuleResult('C11.R3', 'start/end/size/overlap/orphan are read '
                   'through int_param; next-/previous-sequence are set only '
                   'on the last / first displayed element')
    fi = model.func('DT_In', 'InClass.renderwb')
    got = {}
    for n in own_nodes(fi.node):
        if isinstance(n, ast.Assign) and isinstance(n.value, ast.Call) and \
                any(x.endswith(':int_param')
                    for x in model.callee_names(n.value, fi)) and \
                len(n.value.args) >= 3 and \
                isinstance(n.value.args[2], ast.Constant):
            got[n.value.args[2].value] = n.targets[0].id \
                if isinstance(n.targets[0], ast.Name) else None
    for p in ('start', 'end', 'size', 'overlap', 'orphan'):
        r.instance(fi.where, f"int_param(..., '{p}')",
                   'ok' if p in got else 'MISSING')
        if p not in got:
            r.finding(fi.where, f"int_param(..., '{p}')", f'the batch '
                      f'parameter {p} is not read through int_param '
                      '(literal or variable name)', node=fi.node, ctx=fi)
    # each parameter reaches the window computation in its own position:
    # opt(start, end, size, orphan, sequence) -- whatever the locals are
    # called
    var_of = {k: v for k, v in got.items() if v}
    key_of = {v: k for k, v in var_of.items()}
    wins = [c for c in own_nodes(fi.node) if isinstance(c, ast.Call)
            and any(x.endswith(':opt') for x in model.callee_names(c, fi))
            and len(c.args) >= 5 and all(
                isinstance(a, ast.Name) for a in c.args[:4])
            and all(a.id in key_of for a in c.args[:4])]
    for c in wins:
        want = ('start', 'end', 'size', 'orphan')
        have = tuple(key_of[a.id] for a in c.args[:4])
        r.instance(fi.where, c, 'parameters in their positions'
                   if have == want else f'POSITIONS {have}')
        if have != want:
            r.finding(fi.where, c, 'the window computation receives the '
                      f'batch parameters {have} where it expects {want}',
                      node=c, ctx=fi)
    if not wins and all(p_ in got for p_ in ('start', 'end', 'size',
                                              'orphan')):
        raise AnalysisError('C11.R3: the window computation of the '
                            'displayed batch (opt called with the four '
                            'parameters) was not found')
    # int_param decides literal vs variable by trying int()
    ips = [model.find_func(ms, 'int_param') for ms in ('DT_In', 'DT_Util')]
    ips = [x for x in ips if x is not None]
    if not ips:
        raise AnalysisError('C11.R3: int_param not found')
    for ip in ips:
        # the default stands in for a missing attribute only: it is taken
        # where the parameter dictionary is consulted, not after the value
        # of a variable has been looked up (the defaults are written as
        # strings and rely on the int() conversion that follows)
        ps_ = ip.params()
        if len(ps_) >= 4:
            dflt, pdict = ps_[3], ps_[0]
            for x in own_nodes(ip.node):
                if isinstance(x, ast.Assign) and isinstance(
                        x.value, ast.Name) and x.value.id == dflt:
                    okd = False
                    node_ = x
                    for anc in ancestors(x):
                        if isinstance(anc, ast.Try) and any(
                                isinstance(y, ast.Subscript) and
                                norm(y.value) == pdict
                                for b in anc.body for y in ast.walk(b)):
                            okd = True
                        if isinstance(anc, ast.If) and any(
                                isinstance(y, ast.Name) and y.id == pdict
                                for y in ast.walk(anc.test)):
                            okd = True
                        if isinstance(anc, ast.FunctionDef):
                            break
                        node_ = anc
                    r.instance(ip.where, x, 'default for a missing '
                               'attribute' if okd else 'DEFAULT AFTER LOOKUP')
                    if not okd:
                        r.finding(ip.where, x, 'the default is substituted '
                                  'after the value was taken from a '
                                  'variable: it is returned without the '
                                  'integer conversion (the callers write '
                                  "defaults such as '0' as strings), so the "
                                  'window arithmetic gets a string',
                                  node=x, ctx=ip)
        ok = False
        for t in own_nodes(ip.node):
            if isinstance(t, ast.Try):
                conv = any(isinstance(c, ast.Call) and norm(c.func) == 'int'
                           for s_ in t.body for c in ast.walk(s_))
                look = any(isinstance(x, ast.Subscript) and
                           norm(x.value) == ip.params()[1]
                           for h in t.handlers for x in ast.walk(h))
                if conv and look:
                    ok = True
        r.instance(ip.where, 'try int(v) except: md[v]',
                   'ok' if ok else 'CHANGED')
        if not ok:
            r.finding(ip.where, 'literal / variable decision', 'a batch '
                      'parameter is no longer treated as a literal exactly '
                      'when int() accepts it (e.g. negative numbers are '
                      'looked up as variable names)', node=ip.node, ctx=ip)
    # flags inside the item loop
    for n in own_nodes(fi.node):
        if isinstance(n, ast.Assign) and \
                isinstance(n.targets[0], ast.Subscript) and \
                isinstance(n.targets[0].slice, ast.Constant) and \
                n.targets[0].slice.value in ('next-sequence',
                                             'previous-sequence') and \
                isinstance(n.value, ast.Constant) and n.value.value == 1:
            in_loop = any(isinstance(a, ast.For) for a in ancestors(n))
            if not in_loop:
                continue
            which = n.targets[0].slice.value
            want = 'index == last' if which.startswith('next') \
                else 'index == first'
            guards = [norm(a.test) for a in ancestors(n)
                      if isinstance(a, ast.If)]
            ok = want in guards
            if not ok:
                # decided semantically: on an element that is NOT the
                # first / last one some enclosing guard must be false
                lv, bound = want.split(' == ')

                def tv(e):
                    if isinstance(e, ast.UnaryOp) and \
                            isinstance(e.op, ast.Not):
                        v = tv(e.operand)
                        return None if v is None else not v
                    if isinstance(e, ast.BoolOp):
                        vs = [tv(x) for x in e.values]
                        if isinstance(e.op, ast.Or):
                            if any(v is True for v in vs):
                                return True
                            return False if all(v is False for v in vs) \
                                else None
                        if any(v is False for v in vs):
                            return False
                        return True if all(v is True for v in vs) else None
                    t = norm(e)
                    if t in (f'{lv} == {bound}', f'{bound} == {lv}'):
                        return False
                    if t in (f'{lv} != {bound}', f'{bound} != {lv}'):
                        return True
                    if t == f'{lv} is None':
                        return False        # the loop variable of range()
                    if t == f'{lv} is not None':
                        return True
                    return None
                child = n
                for a in ancestors(n):
                    if isinstance(a, ast.For):
                        break
                    if isinstance(a, ast.If):
                        inbody = any(child is x or any(
                            child is y for y in ast.walk(x)) for x in a.body)
                        v = tv(a.test)
                        if v is not None and v != inbody:
                            ok = True
                    child = a
            r.instance(fi.where, n, 'under ' + want if ok else 'UNGUARDED')
            if not ok:
                r.finding(fi.where, n, f'{which} is set true outside `if '
                          f'{want}`', node=n, ctx=fi)
    # last / first geometry
    subst = single_assignments(model, fi)
    for name, want in (('last', 'end - 1'), ('first', 'start - 1')):
        v = subst.get(name)
        ok = v is not None and lin_eq(v, parse_expr(want))
        r.instance(fi.where, f'{name} = {norm(v)}', 'ok' if ok else 'WRONG')
        if not ok:
            r.finding(fi.where, f'{name} = {norm(v)}', f'{name} is not '
                      f'{want}', node=fi.node, ctx=fi)
    # the displayed range
    loops = [n for n in own_nodes(fi.node) if isinstance(n, ast.For)
             and isinstance(n.iter, ast.Call) and
             norm(n.iter.func) == 'range' and len(n.iter.args) == 2]
    ok = any(norm(lp.iter.args[0]) == 'first' and
             norm(lp.iter.args[1]) == 'end' for lp in loops)
    r.instance(fi.where, 'for index in range(first, end)',
               'ok' if ok else 'WRONG')
    if not ok:
        r.finding(fi.where, 'item loop range', 'the displayed elements are '
                  'not range(first, end)', node=fi.node, ctx=fi)
    return r


def rule_opt_forms(model):
    r = RuleResult('C11.R4', 'inside the window computation: a window '
                   'derived from start ends at start+size-1, one derived '
                   'from end starts at end+1-size, the remaining-elements '
                   'probe looks at end+orphan-1, the default size is '
                   'end+1-start')
    fi = model.func('DT_InSV', 'opt')
    ps = fi.params()
    if ps[:4] != ['start', 'end', 'size', 'orphan']:
        raise AnalysisError('opt: signature changed')
    seq = ps[4]
    n = 0
    # opt and the same-module helpers it hands the sequence to
    nodes = list(own_nodes(fi.node))
    for c in own_nodes(fi.node):
        if isinstance(c, ast.Call) and any(norm(a) == seq for a in c.args):
            for t in model.resolve_callee(c.func, fi):
                if t[0] == 'func' and t[1].module is fi.module and \
                        t[1] is not fi:
                    hp = t[1].params()
                    idx = [i for i, a in enumerate(c.args)
                           if norm(a) == seq]
                    if idx and idx[0] < len(hp) and hp[idx[0]] == seq:
                        nodes += list(own_nodes(t[1].node))
    for st in nodes:
        if isinstance(st, ast.Assign) and isinstance(st.targets[0],
                                                     ast.Name):
            t = st.targets[0].id
            names = {x.id for x in ast.walk(st.value)
                     if isinstance(x, ast.Name)}
            want = None
            if t == 'end' and names == {'start', 'size'}:
                want = 'start + size - 1'
            elif t == 'start' and names == {'end', 'size'}:
                want = 'end + 1 - size'
            elif t == 'size' and names == {'start', 'end'}:
                want = 'end + 1 - start'
            if want:
                n += 1
                ok = lin_eq(st.value, parse_expr(want))
                r.instance(fi.where, st, 'ok' if ok else 'WRONG')
                if not ok:
                    r.finding(fi.where, st, f'{t} is computed as '
                              f'{lin_str(st.value)}; the documented window '
                              f'needs {want}', node=st, ctx=fi)
        if isinstance(st, ast.Subscript) and norm(st.value) == seq and \
                isinstance(st.ctx, ast.Load):
            names = {x.id for x in ast.walk(st.slice)
                     if isinstance(x, ast.Name)}
            want = None
            if 'orphan' in names:
                want = 'end + orphan - 1'
            elif names == {'start'}:
                want = 'start - 1'
            elif names == {'end'}:
                want = 'end - 1'
            if want:
                n += 1
                ok = lin_eq(st.slice, parse_expr(want))
                r.instance(fi.where, st, 'probe ok' if ok else 'WRONG')
                if not ok:
                    r.finding(fi.where, st, 'the probe looks at index '
                              f'{lin_str(st.slice)} instead of {want}: the '
                              'window end / orphan rule is off by that '
                              'difference', node=st, ctx=fi)
    # an explicit end smaller than start is raised to start
    def _raised(x):
        # if E < S: E = S   /   E = max(E, S)
        if isinstance(x, ast.If) and isinstance(x.test, ast.Compare) and \
                len(x.test.ops) == 1 and isinstance(
                    x.test.left, ast.Name) and isinstance(
                    x.test.comparators[0], ast.Name) and x.body and \
                isinstance(x.body[0], ast.Assign):
            l, r_ = x.test.left.id, x.test.comparators[0].id
            op = x.test.ops[0]
            small, big = (l, r_) if isinstance(op, (ast.Lt, ast.LtE)) else (
                (r_, l) if isinstance(op, (ast.Gt, ast.GtE)) else (None,
                                                                   None))
            return small is not None and \
                norm(x.body[0]) == f'{small} = {big}' and small != big
        if isinstance(x, ast.Assign) and len(x.targets) == 1 and \
                isinstance(x.targets[0], ast.Name) and isinstance(
                    x.value, ast.Call) and norm(x.value.func) == 'max' and \
                len(x.value.args) == 2 and x.targets[0].id in [
                    norm(a_) for a_ in x.value.args] and all(
                    isinstance(a_, ast.Name) for a_ in x.value.args):
            return True
        return False
    fix = [x for x in nodes if _raised(x)]
    r.instance(fi.where, 'if end < start: end = start',
               'ok' if fix else 'MISSING')
    if not fix:
        r.finding(fi.where, 'end >= start', 'an end before start is not '
                  'corrected (start <= end must hold)', node=fi.node,
                  ctx=fi)
    # clamps use the real length
    clamps = [x for x in nodes if isinstance(x, ast.Assign)
              and norm(x.value) == f'len({seq})']
    for c in clamps:
        r.instance(fi.where, c, 'clamp')
        if norm(c.targets[0]) not in ('start', 'end'):
            r.finding(fi.where, c, 'unexpected clamp target', node=c,
                      ctx=fi)
    if n < 5:
        raise AnalysisError(f'C11.R4: only {n} formula sites in opt')
    r.floor = 5
    return r


# ------------------------------------------------------------------ R5
class _WindowDomain(Domain):
    """Zone analysis of the window computation.  Variables: the integer
    parameters and locals of the function and L = len(sequence)."""

    def __init__(self, fi, seqname, names):
        self.fi = fi
        self.seq = seqname
        self.rename = {f'len({seqname})': 'L'}
        self.names = names
        self.returns = []

    def _alive(self, outs):
        return [o for o in outs if not o.state.bottom]

    def branch(self, test, st):
        forms = compare_forms(test, self.rename)
        if forms is None:
            return [(True, st), (False, st)]
        res = []
        for b, fs in ((True, forms[0]), (False, forms[1])):
            s2 = st
            if fs is not None:
                for f in fs:
                    s2 = s2.assume_le0(f)
            s2 = s2.copy()
            s2.decisions = getattr(st, 'decisions', ()) + (
                (norm(test), b),)
            if not s2.bottom:
                res.append((b, s2))
        return res

    def raises(self, node, st):
        return []

    def _probe(self, stmt):
        if isinstance(stmt, ast.Expr) and \
                isinstance(stmt.value, ast.Subscript) and \
                isinstance(stmt.value.value, ast.Name) and \
                stmt.value.value.id == self.seq and \
                not isinstance(stmt.value.slice, ast.Slice):
            return stmt.value.slice
        return None

    def simple(self, stmt, st):
        idx = self._probe(stmt)
        if idx is not None:
            f = lin(idx, self.rename)
            if f is None:
                return [Outcome(NORMAL, st), Outcome(RAISE, st,
                                                     'IndexError', stmt)]
            ok = dict(f)
            ok['L'] = ok.get('L', 0) - 1
            ok[''] = ok.get('', 0) + 1          # idx - L + 1 <= 0
            good = st.assume_le0(ok)
            bad = st
            if st.lb(f) >= 0:
                no = {k: -c for k, c in f.items()}
                no['L'] = no.get('L', 0) + 1    # L - idx <= 0
                bad = st.assume_le0(no)
            good.decisions = getattr(st, 'decisions', ()) + (
                (f'{norm(stmt)} exists', True),)
            bad = bad.copy()
            bad.decisions = getattr(st, 'decisions', ()) + (
                (f'{norm(stmt)} exists', False),)
            return self._alive([Outcome(NORMAL, good),
                                Outcome(RAISE, bad, 'IndexError', stmt)])
        ns = self.effects(stmt, st)
        return [Outcome(NORMAL, ns)]

    def effects(self, stmt, st):
        dec = getattr(st, 'decisions', ())
        if isinstance(stmt, ast.Assign) and len(stmt.targets) == 1 and \
                isinstance(stmt.targets[0], ast.Name):
            x = stmt.targets[0].id
            f = lin(stmt.value, self.rename)
            ns = st.assign(x, f)
            ns.decisions = dec
            return ns
        if isinstance(stmt, ast.AugAssign) and \
                isinstance(stmt.target, ast.Name) and \
                isinstance(stmt.op, (ast.Add, ast.Sub)):
            e = ast.BinOp(left=ast.Name(id=stmt.target.id, ctx=ast.Load()),
                          op=stmt.op, right=stmt.value)
            ns = st.assign(stmt.target.id, lin(e, self.rename))
            ns.decisions = dec
            return ns
        if isinstance(stmt, (ast.Assign, ast.AugAssign, ast.AnnAssign)):
            ns = st.copy()
            for t in ast.walk(stmt):
                if isinstance(t, ast.Name) and isinstance(t.ctx, ast.Store) \
                        and t.id in ns.vars:
                    ns.forget(t.id)
                    ns.havoc = True
            ns.decisions = dec
            return ns
        return st

    def enter_handler(self, h, st, exc):
        return st

    def on_return(self, node, st):
        self.returns.append((node, st))
        return [], st


def rule_window_invariants(model):
    r = RuleResult('C11.R5', 'the window computation returns 1 <= start <= '
                   'end <= length and size >= 1 on every path, for every '
                   'non-empty sequence and orphan >= 0 (zone abstract '
                   'interpretation; an element probe sequence[i] that '
                   'succeeds gives i < length, one that fails i >= length)')
    fi = model.func('DT_InSV', 'opt')
    ps = fi.params()
    if len(ps) != 5:
        raise AnalysisError('opt: unexpected signature')
    seq = ps[4]
    names = set(ps[:4])
    for n in own_nodes(fi.node):
        if isinstance(n, ast.Name) and isinstance(n.ctx, ast.Store):
            names.add(n.id)
    names.discard(seq)
    vars_ = [''] + sorted(names) + ['L']
    z = Zone(vars_)
    z.add('', 'L', -1)            # L >= 1: the caller handles the empty case
    z.add('', ps[3], 0)           # orphan >= 0
    z.decisions = ()
    dom = _WindowDomain(fi, seq, names)
    it = Interp(dom, max_states=200000)
    outs = it.run(fi.node, z)
    if it.overflow:
        raise AnalysisError('C11.R5: state budget exceeded')
    esc = [o for o in outs if o.kind == RAISE]
    for o in esc:
        r.finding(fi.where, 'escaping IndexError', 'an element probe fails '
                  'outside a handler', node=o.node, ctx=fi)
    if not dom.returns:
        raise AnalysisError('opt: no return reached')
    undecided = []
    failing = {}
    n_paths = 0
    seen = set()
    for node, st in dom.returns:
        if st.bottom:
            continue
        v = node.value
        if not (isinstance(v, ast.Tuple) and len(v.elts) == 3):
            raise AnalysisError('opt: return value is not a 3-tuple')
        R = [lin(e, dom.rename) for e in v.elts]
        if any(x is None for x in R):
            raise AnalysisError('opt: non-linear return value')
        obligations = [
            ('start >= 1', sub({'': 1}, R[0])),
            ('start <= end', sub(R[0], R[1])),
            ('end <= length', sub(R[1], {'L': 1})),
            ('size >= 1', sub({'': 1}, R[2])),
        ]
        dec = getattr(st, 'decisions', ())
        path = ' & '.join((t if b else f'not ({t})') for t, b in dec)
        if (path, st.key()) in seen:
            continue
        seen.add((path, st.key()))
        n_paths += 1
        fails = [name for name, f in obligations if not st.entails_le0(f)]
        r.instance(fi.where, f'path: {path}'[:150],
                   'all four hold' if not fails else 'NOT ESTABLISHED: '
                   + ', '.join(fails))
        for name in fails:
            if st.havoc:
                undecided.append((name, path))
                continue
            failing.setdefault(name, []).append((path, node, st))
    for name, lst in sorted(failing.items()):
        path, node, st = lst[0]
        r.finding(fi.where, name,
                  f'the window computation can return a window with '
                  f'`{name}` violated on {len(lst)} path(s), e.g. [{path}]: '
                  'nothing bounds the value there (an explicit end beyond '
                  'the length of the sequence is returned as it is, and '
                  'rendering the batch raises IndexError)', node=node,
                  ctx=fi, path=st.trace)
    if undecided and not r.findings:
        raise AnalysisError('C11.R5: window invariants undecided after an '
                            f'un-modelled update ({undecided[0]})')
    r.stats = {'paths': n_paths}
    if n_paths < 4:
        raise AnalysisError(f'C11.R5: only {n_paths} return paths analysed')
    r.floor = 4
    return r


class _OrphanDomain(_WindowDomain):
    """_WindowDomain plus, for every integer variable x, a ghost variable
    `x+o` standing for x + orphan (a zone cannot relate three variables;
    the look-ahead probes do: sequence[end + orphan - 1]).  Forms that
    contain orphan with coefficient +1 next to some x with coefficient +1
    are rewritten to the ghost before they reach the zone."""

    def __init__(self, fi, seqname, names, orphan, size):
        super().__init__(fi, seqname, names)
        self.o = orphan
        self.size = size

    def ghost(self, x):
        return f'{x}+o'

    def rw(self, f):
        if f is None or f.get(self.o, 0) != 1:
            return f
        for x in sorted(f):
            if x not in ('', self.o, 'L') and f[x] == 1 and \
                    x in self.names:
                g = dict(f)
                del g[x]
                del g[self.o]
                g[self.ghost(x)] = 1
                return g
        if f.get('L', 0) == 1:
            return f
        return f

    def branch(self, test, st):
        forms = compare_forms(test, self.rename)
        if forms is None:
            return [(True, st), (False, st)]
        res = []
        for b, fs in ((True, forms[0]), (False, forms[1])):
            s2 = st
            if fs is not None:
                for f in fs:
                    s2 = s2.assume_le0(self.rw(f))
            s2 = s2.copy()
            s2.decisions = getattr(st, 'decisions', ()) + (
                (norm(test), b),)
            s2.flags = getattr(st, 'flags', frozenset())
            if not s2.bottom:
                res.append((b, s2))
        return res

    def simple(self, stmt, st):
        idx = self._probe(stmt)
        if idx is not None:
            f = self.rw(lin(idx, self.rename))
            if f is None:
                return super().simple(stmt, st)
            ok = dict(f)
            ok['L'] = ok.get('L', 0) - 1
            ok[''] = ok.get('', 0) + 1
            good = st.assume_le0(ok)
            bad = st.copy()
            for o_ in (good, bad):
                o_.flags = getattr(st, 'flags', frozenset())
            return self._alive([Outcome(NORMAL, good),
                                Outcome(RAISE, bad, 'IndexError', stmt)])
        return [Outcome(NORMAL, self.effects(stmt, st))]

    def effects(self, stmt, st):
        flags = getattr(st, 'flags', frozenset())
        ns = super().effects(stmt, st)
        if isinstance(stmt, ast.Assign) and len(stmt.targets) == 1 and \
                isinstance(stmt.targets[0], ast.Name):
            x = stmt.targets[0].id
            f = lin(stmt.value, self.rename)
            if x in self.names and x != self.o:
                g = None
                if f is not None:
                    g = dict(f)
                    g[self.o] = g.get(self.o, 0) + 1
                    g = self.rw({k: c for k, c in g.items()
                                 if c != 0 or k == ''})
                hv = ns.havoc
                # the ghost of x is assigned x's new value + orphan,
                # evaluated in the state before the assignment
                tmp = st.assign(self.ghost(x), g)
                ns2 = ns.copy()
                gi = ns2.ix(self.ghost(x))
                for j in range(len(ns2.vars)):
                    if j != gi:
                        ns2.m[gi][j] = tmp.m[gi][j] if \
                            ns2.vars[j] != x else INF_
                        ns2.m[j][gi] = tmp.m[j][gi] if \
                            ns2.vars[j] != x else INF_
                # x <= x+o always (orphan >= 0)
                ns2.m[ns2.ix(x)][gi] = min(ns2.m[ns2.ix(x)][gi], 0)
                ns2.close()
                ns2.havoc = hv
                ns = ns2
                if f is not None and f.get(self.size, 0) != 0:
                    flags = flags | {f'{x}:sized'}
                else:
                    flags = flags - {f'{x}:sized'}
        ns = ns.copy() if ns is st else ns
        ns.flags = flags
        ns.decisions = getattr(st, 'decisions', ())
        return ns


def rule_orphan(model):
    r = RuleResult('C11.R6', 'orphan rule of the window computation: a '
                   'window whose end is computed from the batch size either '
                   'ends at the last element or leaves at least `orphan` '
                   'elements after it, and one whose start is computed from '
                   'the size either starts at the first element or leaves '
                   'at least `orphan` elements before it (zone abstract '
                   'interpretation with ghost variables x + orphan)')
    fi = model.func('DT_InSV', 'opt')
    ps = fi.params()
    if len(ps) != 5:
        raise AnalysisError('opt: unexpected signature')
    seq, orphan, size = ps[4], ps[3], ps[2]
    names = set(ps[:4])
    for n in own_nodes(fi.node):
        if isinstance(n, ast.Name) and isinstance(n.ctx, ast.Store):
            names.add(n.id)
    names.discard(seq)
    ghosts = [f'{x}+o' for x in sorted(names) if x != orphan]
    z = Zone([''] + sorted(names) + ghosts + ['L'])
    z.add('', 'L', -1)
    z.add('', orphan, 0)
    for x in sorted(names):
        if x != orphan:
            z.add(x, f'{x}+o', 0)            # x <= x + orphan
    z.decisions = ()
    z.flags = frozenset()
    dom = _OrphanDomain(fi, seq, names, orphan, size)
    it = Interp(dom, max_states=400000)
    it.run(fi.node, z)
    if it.overflow:
        raise AnalysisError('C11.R6: state budget exceeded')
    n_app = 0
    seen = set()
    for node, st in dom.returns:
        if st.bottom:
            continue
        v = node.value
        if not (isinstance(v, ast.Tuple) and len(v.elts) == 3 and
                isinstance(v.elts[1], ast.Name) and (
                    isinstance(v.elts[0], ast.Name) or (
                        isinstance(v.elts[0], ast.Constant) and
                        isinstance(v.elts[0].value, int)))):
            raise AnalysisError('opt: return value is not (start, end, '
                                'size) of plain names')
        # a literal start (constant propagation of `start = 1`) was not
        # computed from the batch size: only the end side has an obligation
        sv = v.elts[0].id if isinstance(v.elts[0], ast.Name) else '<const>'
        ev = v.elts[1].id
        flags = getattr(st, 'flags', frozenset())
        dec = getattr(st, 'decisions', ())
        path = ' & '.join((t if b else f'not ({t})') for t, b in dec)
        if (path, st.key(), flags) in seen:
            continue
        seen.add((path, st.key(), flags))
        if f'{ev}:sized' in flags:
            n_app += 1
            at_end = st.entails_le0({'L': 1, ev: -1})        # L <= end
            room = st.entails_le0({f'{ev}+o': 1, 'L': -1})    # end+o <= L
            r.instance(fi.where, f'end side: {path}'[:150],
                       'ends at L' if at_end else (
                           'leaves >= orphan' if room
                           else 'NOT ESTABLISHED'))
            if not (at_end or room) and not st.havoc:
                r.finding(fi.where, 'end == length or length - end >= '
                          'orphan', 'a window computed from the batch size '
                          f'can end before the last element and leave '
                          f'fewer than orphan elements, on path [{path}]',
                          node=node, ctx=fi, path=st.trace)
        if f'{sv}:sized' in flags:
            n_app += 1
            at_start = st.entails_le0({sv: 1, '': -1})       # start <= 1
            room = st.entails_le0({orphan: 1, sv: -1, '': 1})
            r.instance(fi.where, f'start side: {path}'[:150],
                       'starts at 1' if at_start else (
                           'leaves >= orphan' if room
                           else 'NOT ESTABLISHED'))
            if not (at_start or room) and not st.havoc:
                r.finding(fi.where, 'start == 1 or start - 1 >= orphan',
                          'a window whose start is computed from the batch '
                          'size can leave fewer than orphan elements '
                          f'before it, on path [{path}]', node=node,
                          ctx=fi, path=st.trace)
    if n_app < 3:
        raise AnalysisError(f'C11.R6: only {n_app} sized window ends found')
    r.floor = 3
    return r


def _inl(rule):
    """Run a rule on the view in which helpers that are new w.r.t. the
    reference tree are inlined at their call sites (normalise.N2)."""
    def run(model):
        return rule(model.inlined_view())
    run.__name__ = rule.__name__
    return run


FLAGS = ('previous-sequence', 'next-sequence')


class _FS(BaseState):
    __slots__ = ('defd', 'trace', 'cur_exc')

    def __init__(self, defd=frozenset()):
        self.defd = defd
        self.trace = ()
        self.cur_exc = None

    def key(self):
        return tuple(sorted(self.defd))

    def copy(self):
        n = _FS(self.defd)
        n.trace = self.trace
        return n


class _FlagDefs(Domain):
    def __init__(self, is_body_render):
        self.is_body_render = is_body_render
        self.sites = {}        # id(call) -> (call, missing flags or ())

    def effects(self, stmt, st):
        for c in ast.walk(stmt):
            if isinstance(c, ast.Call) and self.is_body_render(c):
                miss = tuple(f for f in FLAGS if f not in st.defd)
                cur = self.sites.get(id(c))
                if cur is None or (miss and not cur[1]):
                    self.sites[id(c)] = (c, miss, st.trace)
        n = st
        if isinstance(stmt, ast.Assign):
            for t in stmt.targets:
                if isinstance(t, ast.Subscript) and isinstance(
                        t.slice, ast.Constant) and t.slice.value in FLAGS \
                        and t.slice.value not in n.defd:
                    n = n.copy()
                    n.defd = n.defd | {t.slice.value}
        return n

    def on_return(self, node, st):
        if node.value is not None:
            self.effects(ast.Expr(value=node.value), st)
        return [], st


def rule_flags_defined(model):
    r = RuleResult('C11.R8', 'next-sequence and previous-sequence have a '
                   'value of their own for every element a batched dtml-in '
                   'renders: they are in the variable object\'s initial '
                   'table or assigned on every path before the body is '
                   'rendered (an undefined flag resolves to the enclosing '
                   'batch\'s flag in a nested loop)')
    ci = model.modules['DT_InSV'].classes.get('sequence_variables')
    init = ci.methods.get('__init__') if ci else None
    if init is None:
        raise AnalysisError('C11.R8: sequence_variables.__init__ not found')
    initial = set()
    for x in own_nodes(init.node):
        if isinstance(x, ast.Assign) and any(
                norm(t) == 'self.data' for t in x.targets) and \
                isinstance(x.value, ast.Dict):
            initial |= {k.value for k in x.value.keys
                        if isinstance(k, ast.Constant)}
        if isinstance(x, ast.Assign) and isinstance(
                x.targets[0], ast.Subscript) and \
                norm(x.targets[0].value) in ('self.data', 'data') and \
                isinstance(x.targets[0].slice, ast.Constant):
            initial.add(x.targets[0].slice.value)
    if not initial:
        raise AnalysisError('C11.R8: initial variable table not found')
    fi = model.func('DT_In', 'InClass.renderwb')
    aliases = {'render_blocks'}
    for x in own_nodes(fi.node):
        if isinstance(x, ast.Assign) and isinstance(x.value, ast.Name) and \
                x.value.id == 'render_blocks' and isinstance(
                    x.targets[0], ast.Name):
            aliases.add(x.targets[0].id)
    sect = {'self.section'}
    for x in own_nodes(fi.node):
        if isinstance(x, ast.Assign) and norm(x.value) == 'self.section' \
                and isinstance(x.targets[0], ast.Name):
            sect.add(x.targets[0].id)

    def is_body_render(c):
        return isinstance(c.func, ast.Name) and c.func.id in aliases and \
            c.args and norm(c.args[0]) in sect
    dom = _FlagDefs(is_body_render)
    it = Interp(dom, max_states=200000)
    it.run(fi.node, _FS(frozenset(f for f in FLAGS if f in initial)))
    if it.overflow:
        raise AnalysisError('C11.R8: state budget exceeded')
    if len(dom.sites) < 2:
        raise AnalysisError(f'C11.R8: only {len(dom.sites)} renderings of '
                            'the body found in renderwb')
    for c, miss, trace in dom.sites.values():
        r.instance(fi.where, c, 'flags defined' if not miss
                   else f'UNDEFINED: {", ".join(miss)}')
        if miss:
            r.finding(fi.where, f'{norm(c)} without {", ".join(miss)}',
                      f'the body is rendered on a path on which '
                      f'{", ".join(miss)} was never given a value (not in '
                      'the initial table, not assigned before): inside '
                      'another batch the name resolves to the outer loop\'s '
                      'flag, elsewhere <dtml-var next-sequence> raises '
                      'KeyError', node=c, ctx=fi, path=trace)
    return r


MIRROR_CONTROL = '''
class View:
    def __init__(self, seq):
        self._seq = seq
        self._len = len(seq)

    def __getitem__(self, idx):
        if idx < 0:
            raise IndexError(idx)
        return self._seq[self._len - 1 - idx]


class GuardedView(View):
    def __getitem__(self, idx):
        if idx < 0 or idx >= self._len:
            raise IndexError(idx)
        return self._seq[self._len - 1 - idx]
'''


def _mirrored_subscripts(model, m_filter=None):
    """(fi, subscript node, guarded?) for every element reader
    `__getitem__(self, i)` that reads another sequence at an index computed
    by subtracting i (a mirrored / offset view)."""
    out = []
    for fi in model.all_funcs():
        if fi.name != '__getitem__' or fi.cls is None:
            continue
        ps = fi.params()
        if len(ps) < 2:
            continue
        idx = ps[1]
        for x in own_nodes(fi.node):
            if not (isinstance(x, ast.Subscript) and isinstance(
                    x.ctx, ast.Load)):
                continue
            sub = [b for b in ast.walk(x.slice) if isinstance(b, ast.BinOp)
                   and isinstance(b.op, ast.Sub) and any(
                       isinstance(y, ast.Name) and y.id == idx
                       for y in ast.walk(b.right))]
            if not sub:
                continue
            # a guard that refuses indexes at or beyond the length (or a
            # negative computed index) before the read
            guarded = False
            for g in own_nodes(fi.node):
                if not (isinstance(g, ast.If) and any(
                        isinstance(y, ast.Raise) for y in ast.walk(g))):
                    continue
                for c in ast.walk(g.test):
                    if isinstance(c, ast.Compare) and len(c.ops) == 1 and \
                            isinstance(c.ops[0], (ast.GtE, ast.Gt)) and \
                            isinstance(c.left, ast.Name) and \
                            c.left.id == idx and not isinstance(
                                c.comparators[0], ast.Constant):
                        guarded = True
                    if isinstance(c, ast.Compare) and len(c.ops) == 1 and \
                            isinstance(c.ops[0], (ast.Lt, ast.LtE)) and \
                            not isinstance(c.left, ast.Constant) and \
                            isinstance(c.left, ast.Name) is False and any(
                                isinstance(y, ast.Name) and y.id == idx
                                for y in ast.walk(c.left)):
                        guarded = True
            out.append((fi, x, guarded))
    return out


def rule_probe_contract(model):
    r = RuleResult('C11.R9', 'the window computation finds the end of a '
                   'sequence by probing past it (sequence[end + orphan - '
                   '1], sequence[end]) and relies on IndexError: a sequence '
                   'view of the package that reads its base at an index '
                   'computed by subtraction refuses indexes beyond the '
                   'length itself (a negative computed index would wrap '
                   'around instead of failing)')
    from ..model import Model
    cm = Model(sources={'src/DocumentTemplate/zz_mirror_control.py':
                        MIRROR_CONTROL}, root=None)
    got = {fi.where: g for fi, _, g in _mirrored_subscripts(cm)}
    r.control('control: mirrored view without an upper bound check',
              got.get('zz_mirror_control:View.__getitem__') is False and
              got.get('zz_mirror_control:GuardedView.__getitem__') is True)
    readers = [fi for fi in model.all_funcs()
               if fi.name == '__getitem__' and fi.cls is not None]
    for fi in readers:
        r.instance(fi.where, 'def __getitem__', 'element reader scanned')
    for fi, x, guarded in _mirrored_subscripts(model):
        r.instance(fi.where, x, 'bounded' if guarded else 'WRAPS AROUND')
        if not guarded:
            r.finding(fi.where, x, f'`{norm(x)}`: for an index at or beyond '
                      'the length the computed index is negative and Python '
                      'wraps around instead of raising IndexError: the '
                      'end-of-sequence probes of the batch code never fail '
                      '(next-sequence true with nothing left, windows not '
                      'clamped, elements shown twice)', node=x, ctx=fi)
    if len(readers) < 3:
        raise AnalysisError(f'C11.R9: only {len(readers)} element readers '
                            'found')
    return r


def rule_memo_reiterable(model):
    r = RuleResult('C11.R7', 'the batch lists (previous-batches / '
                   'next-batches) and everything else memoised in the '
                   'per-loop variable cache are re-iterable: a one-shot '
                   'iterator answers only the first consultation of the '
                   'navigation data for an element')
    from .. import oneshot
    return oneshot.fill_rule(
        r, model, lambda fi, kind: fi.module.short == 'DT_InSV' and
        kind in ('entry', 'element'), 20,
        "the dtml-in variable cache")


RULES = [_inl(rule_windows), _inl(rule_keys), _inl(rule_params), _inl(rule_opt_forms), _inl(rule_window_invariants),
         _inl(rule_orphan), rule_memo_reiterable,
         _inl(rule_flags_defined), rule_probe_contract]
EXPLANATION = (
    'Linear normal forms of the arguments of every opt() call and of every '
    'published batch key, compared with the documented formula (sites must '
    'agree); parameter-read and flag-guard queries.')
ASSUMPTIONS = ['of the window arithmetic inside opt() only the range invariants (R5) and the orphan rule (R6) are decided; the tiling of consecutive windows (overlap) over the 5-dimensional '
               'parameter space is NOT decided (needs integer reasoning '
               'with sequence probing: a solver-family problem)']
TRUSTED = ['python ast']
