"""C03 -- html_quote / &dtml-name; output is exactly the HTML-escaped value.

R1 one escaper: every html-quoting path resolves to html_quote.html_quote,
   which returns html.escape(x) with quoting of quotes on
R2 the fast path's "needs quoting" character set covers every character
   html.escape(quote=True) rewrites
R3 entity desugaring: the option name appended by the scanner = the option
   Var accepts = the simple-form key = the modifier function's name
R4 plain insertion (no quoting option) leaves a str untouched
"""
import ast

from ..core import AnalysisError
from ..core import RuleResult
from ..core import norm
from ..flow import BaseState
from ..flow import Domain
from ..flow import Interp
from ..model import ancestors
from ..model import own_nodes
from ..taintlib import EscapeModel


def _escaper(model):
    return model.func('html_quote', 'html_quote')


def _replace_chain(model, fi, ret):
    """(char, entity) pairs, in order, of a sequence of .replace() calls
    applied to the returned variable: either straight-line calls or a loop
    over a constant table of pairs.  None if not of that shape."""
    if not isinstance(ret.value, ast.Name):
        return None
    var = ret.value.id
    pairs = []
    for st in fi.node.body:
        if isinstance(st, ast.For) and isinstance(st.target, ast.Tuple) and \
                len(st.target.elts) == 2:
            ok, table = model.fold(st.iter, fi)
            a, b = [norm(x) for x in st.target.elts]
            body_ok = len(st.body) == 1 and \
                norm(st.body[0]) == f'{var} = {var}.replace({a}, {b})'
            if ok and body_ok and all(isinstance(p, tuple) and len(p) == 2
                                      for p in table):
                pairs += [tuple(p) for p in table]
            else:
                return None
        elif isinstance(st, ast.Assign) and norm(st.targets[0]) == var and \
                isinstance(st.value, ast.Call) and \
                isinstance(st.value.func, ast.Attribute) and \
                st.value.func.attr == 'replace' and \
                norm(st.value.func.value) == var and \
                len(st.value.args) == 2 and all(
                    isinstance(x, ast.Constant) for x in st.value.args):
            pairs.append((st.value.args[0].value, st.value.args[1].value))
    return pairs


def rule_one_escaper(model):
    r = RuleResult('C03.R1', 'every html-quoting path uses one escaper that '
                   'is html.escape with quote=True')
    esc = _escaper(model)
    em = EscapeModel()
    rets = [n for n in own_nodes(esc.node) if isinstance(n, ast.Return)]
    if not rets:
        raise AnalysisError('html_quote: no return')
    inlined = False
    for ret in rets:
        v = ret.value
        ok = False
        if isinstance(v, ast.Call) and \
                'html.escape' in model.callee_names(v, esc):
            q = v.args[1] if len(v.args) > 1 else next(
                (k.value for k in v.keywords if k.arg == 'quote'), None)
            if q is None:
                ok = em.quote_default is True
            elif isinstance(q, ast.Constant) and q.value:
                ok = True
        chain = None
        if not ok:
            chain = _replace_chain(model, esc, ret)
            if chain is not None and chain and chain[0][0] == '&' and \
                    sorted(chain) == sorted(em.pairs) and \
                    len(chain) == len(em.pairs):
                ok = True
                inlined = True
        r.instance(esc.where, ret, 'escape(quote on)' if ok else 'WEAK')
        if not ok:
            r.finding(esc.where, ret, 'html_quote does not return '
                      'html.escape(value, quote=True): quotes (or more) '
                      'stay unescaped', node=ret, ctx=esc)
    # no pre/post processing of the text other than ustr / decode
    for n in own_nodes(esc.node):
        if isinstance(n, ast.Call) and isinstance(n.func, ast.Attribute) and \
                n.func.attr in ('replace', 'strip', 'lower', 'upper',
                                'translate', 'lstrip', 'rstrip'):
            if inlined and n.func.attr == 'replace':
                continue
            r.finding(esc.where, n, 'html_quote alters the text besides '
                      'escaping', node=n, ctx=esc)
    # users
    rb = model.func('_DocumentTemplate', 'render_blocks_')
    uses = []
    for g in rb.module.funcs.values():
        for n in own_nodes(g.node):
            if isinstance(n, ast.Call) and \
                    esc.where in model.callee_names(n, g):
                uses.append(n)
    for n in uses:
        r.instance(rb.where, n, 'fast path escaper')
    if not uses:
        r.finding(rb.where, 'html_quote(...)', 'the simple form does not '
                  'use html_quote.html_quote', node=rb.node, ctx=rb)
    mv = model.module('DT_Var')
    for tbl, key in (('modifiers', 'html_quote'),
                     ('special_formats', 'html-quote')):
        from .. import tables
        ok = True
        ents = tables.func_entries(model, mv, tbl)
        if ents is None:
            raise AnalysisError(f'DT_Var.{tbl}: table not understood')
        found = any(k == key and res and res[0] == 'func' and res[1] is esc
                    for k, _, res in ents)
        r.instance(f'DT_Var:{tbl}', f'{key} -> html_quote',
                   'ok' if ok and found else 'MISSING')
        if not (ok and found):
            r.finding(f'DT_Var:{tbl}', f'{key}', f'the {key} entry of '
                      f'{tbl} is not html_quote.html_quote', ctx=mv)
    r.stats = {'escape_rewrites': sorted(em.chars(True))}
    return r


def _regex_chars(model, fi, call):
    """Characters of a one-class regex behind `name(x)` where name is bound
    to re.compile(<const>).search / .match."""
    import re._parser as P
    import re._constants as C
    f = call.func
    cands = []
    pats = []
    if isinstance(f, ast.Name):
        r = model.resolve_global(fi.module, f.id)
        if r and r[0] == 'value':
            cands += r[1]
        d = model.param_default(fi, f.id)
        if d is not None:
            cands.append(d)
    elif isinstance(f, ast.Attribute) and f.attr in ('search', 'match'):
        if norm(f.value) == 're' and call.args:
            pats.append(call.args[0])       # re.search(<pattern>, x)
        elif isinstance(f.value, ast.Name):
            # PAT.search(x) with PAT = re.compile(...)
            r = model.resolve_global(fi.module, f.value.id)
            if r and r[0] == 'value':
                for v in r[1]:
                    cands.append(ast.Attribute(value=v, attr=f.attr,
                                               ctx=ast.Load()))
        else:
            cands.append(f)                 # re.compile(<p>).search(x)
    else:
        return None
    for v in cands:
        if isinstance(v, ast.Attribute) and v.attr in ('search', 'match') \
                and isinstance(v.value, ast.Call) and \
                norm(v.value.func) == 're.compile' and v.value.args:
            pats.append(v.value.args[0])
    for pn in pats:
        if True:
            ok, pat = model.fold(pn, None, fi.module)
            if not ok:
                continue
            tree = P.parse(pat)
            if len(tree) == 1 and tree[0][0] is C.IN and all(
                    o is C.LITERAL for o, _ in tree[0][1]):
                return {chr(a) for _, a in tree[0][1]}
    return None


def _char_atoms(model, fi, expr):
    """node -> set of characters whose presence makes the node true, for
    the atomic predicates inside expr: `'c' in t`, any(c in t for c in
    CHARS), a one-class regex search."""
    atoms = {}
    for p in ast.walk(expr):
        if isinstance(p, ast.Compare) and len(p.ops) == 1 and \
                isinstance(p.ops[0], ast.In) and \
                isinstance(p.left, ast.Constant) and \
                isinstance(p.left.value, str) and len(p.left.value) == 1:
            atoms[id(p)] = {p.left.value}
        elif isinstance(p, ast.Call) and isinstance(p.func, ast.Name) and \
                p.func.id == 'any' and p.args and \
                isinstance(p.args[0], ast.GeneratorExp):
            g = p.args[0].generators[0]
            ok, v = model.fold(g.iter, fi)
            if ok and isinstance(v, (str, tuple, list)):
                atoms[id(p)] = set(v)
        elif isinstance(p, ast.Call):
            rc = _regex_chars(model, fi, p)
            if rc:
                atoms[id(p)] = set(rc)
    return atoms


def _eval3(e, atoms, c):
    """Three-valued value of e when character c is known to occur in the
    text and nothing else is known."""
    if id(e) in atoms:
        return True if c in atoms[id(e)] else None
    if isinstance(e, ast.UnaryOp) and isinstance(e.op, ast.Not):
        v = _eval3(e.operand, atoms, c)
        return None if v is None else not v
    if isinstance(e, ast.BoolOp):
        vs = [_eval3(v, atoms, c) for v in e.values]
        if isinstance(e.op, ast.Or):
            if any(v is True for v in vs):
                return True
            return False if all(v is False for v in vs) else None
        if any(v is False for v in vs):
            return False
        return True if all(v is True for v in vs) else None
    if isinstance(e, ast.Compare) and len(e.ops) == 1 and isinstance(
            e.ops[0], (ast.Is, ast.IsNot)) and isinstance(
            e.comparators[0], ast.Constant) and \
            e.comparators[0].value is None:
        # predicate(t) is None / is not None
        v = _eval3(e.left, atoms, c)
        if v is None:
            return None
        return (not v) if isinstance(e.ops[0], ast.Is) else v
    if isinstance(e, ast.Constant):
        return bool(e.value)
    return None


def _chars_in(model, fi, expr):
    """Characters whose presence in the text decides the predicate on its
    own (whatever the other atoms say): `'&' in t and other(t)` does not
    count for '&', `isinstance(t, str) and not ('&' in t or ...)` does."""
    atoms = _char_atoms(model, fi, expr)
    cand = set()
    for v in atoms.values():
        cand |= v
    return {c for c in cand if _eval3(expr, atoms, c) is not None}


def fast_path_chars(model):
    """Characters tested by the 'needs quoting' predicate: an If test in
    render_blocks_ (chain of `'c' in t`, any(...) or a one-class regex), or
    the return expression of a predicate helper of the same module that such
    an If calls.  -> (function, node, chars, helper name or None)"""
    mod = model.module('_DocumentTemplate')
    best = None
    for fi in mod.funcs.values():
        for n in own_nodes(fi.node):
            expr = None
            if isinstance(n, ast.If):
                expr = n.test
            elif isinstance(n, ast.Return) and n.value is not None and \
                    fi.name != 'render_blocks_':
                expr = n.value
            elif isinstance(n, (ast.Assign, ast.AnnAssign)) and \
                    n.value is not None:
                # flag = predicate(t) is None / flag = not ('&' in t or ...)
                expr = n.value
            elif isinstance(n, ast.IfExp):
                expr = n.test
            elif isinstance(n, ast.For) and isinstance(n.target, ast.Name) \
                    and fi.name != 'render_blocks_':
                # for c in CHARS: if c in t: return True
                ok, vals = model.fold(n.iter, fi)
                if ok and isinstance(vals, (str, tuple, list)) and vals and \
                        all(isinstance(x, str) and len(x) == 1
                            for x in vals) and any(
                        isinstance(c, ast.Compare) and len(c.ops) == 1 and
                        isinstance(c.ops[0], ast.In) and
                        isinstance(c.left, ast.Name) and
                        c.left.id == n.target.id for c in ast.walk(n)):
                    if best is None or len(set(vals)) > len(best[2]):
                        best = (fi, n, set(vals))
                continue
            if expr is None:
                continue
            chars = _chars_in(model, fi, expr)
            if len(chars) >= 2 and (best is None or len(chars) > len(best[2])):
                best = (fi, n, chars)
    if best is None:
        raise AnalysisError('fast-path character test not found')
    fi, node, chars = best
    helper = None
    if isinstance(node, (ast.Return, ast.For)):
        helper = fi
        # the If that calls the helper
        caller = None
        for g in mod.funcs.values():
            for n in own_nodes(g.node):
                if isinstance(n, ast.If) and any(
                        isinstance(c, ast.Call) and
                        isinstance(c.func, ast.Name) and
                        c.func.id == fi.name for c in ast.walk(n.test)):
                    caller = (g, n)
        if caller is None and isinstance(node, ast.For):
            # not a predicate helper: the function that renders one var
            # block tests the characters itself (for ... if c in t: break
            # / else: return t) and calls the escaper
            esc = _escaper(model).where
            if any(isinstance(c, ast.Call) and
                   esc in model.callee_names(c, fi)
                   for c in own_nodes(fi.node)):
                return fi, node, chars, None
        if caller is None:
            raise AnalysisError('fast-path predicate helper is never '
                                'tested')
        return caller[0], caller[1], chars, helper
    return fi, node, chars, None


# ---------------------------------------------------------------- scenario
class _FS(BaseState):
    """Scenario state of the simple form: flag variables with known truth
    value, whether the escaper was called, whether the var branch runs."""

    def __init__(self, env=None, quoted=False, invar=False, entered=()):
        self.env = dict(env or {})
        self.quoted = quoted
        self.invar = invar
        self.entered = frozenset(entered)   # constant loops iterated

    def key(self):
        return (tuple(sorted(self.env.items())), self.quoted, self.invar,
                self.entered)

    def copy(self):
        n = _FS(self.env, self.quoted, self.invar, self.entered)
        n.trace = self.trace
        return n


class _FastDomain(Domain):
    """The value is a plain str, the block is the 3-element html_quote form;
    `p` says whether the string contains a character the predicate tests."""

    kind = 'str'     # 'object': a value that is neither text nor tainted
                     # (no __untaint__); it becomes text by ustr()

    def __init__(self, model, fi, p, helper=None):
        self.model = model
        self.fi = fi
        self.p = p
        self.helper = helper
        self.esc = _escaper(model).where

    # truth of an expression: True / False / None (unknown)
    def truth(self, e, st):
        if isinstance(e, ast.Constant):
            return bool(e.value)
        if isinstance(e, ast.Name):
            return st.env.get(e.id)
        if isinstance(e, ast.UnaryOp) and isinstance(e.op, ast.Not):
            v = self.truth(e.operand, st)
            return None if v is None else not v
        if isinstance(e, ast.BoolOp):
            vs = [self.truth(v, st) for v in e.values]
            if isinstance(e.op, ast.And):
                if any(v is False for v in vs):
                    return False
                return True if all(v is True for v in vs) else None
            if any(v is True for v in vs):
                return True
            return False if all(v is False for v in vs) else None
        if isinstance(e, ast.Call):
            f = norm(e.func)
            if f == 'isinstance' and len(e.args) == 2:
                names = {norm(x) for x in (
                    e.args[1].elts if isinstance(e.args[1], ast.Tuple)
                    else [e.args[1]])}
                a = norm(e.args[0])
                if names <= {'str', 'bytes', 'tuple'}:
                    if self.kind == 'object' and st.env.get('@obj:' + a) \
                            and not st.env.get('@text:' + a):
                        return False        # looked up, not yet text
                    if names == {'bytes'}:
                        return False
                    return True
                return None
            if f == 'bool' and e.args:
                return self.truth(e.args[0], st)
            if _regex_chars(self.model, self.fi, e):
                return self.p           # search(t): a match object or None
            if self.helper is not None and isinstance(e.func, ast.Name) \
                    and e.func.id == self.helper.name:
                sub = _FastDomain(self.model, self.helper, self.p)
                vals = set()
                for o in Interp(sub).run(self.helper.node, _FS()):
                    if o.kind == 'return' and o.node is not None and \
                            o.node.value is not None:
                        vals.add(sub.truth(o.node.value, o.state))
                    elif o.kind in ('normal', 'return'):
                        vals.add(False)         # returns None
                return next(iter(vals)) if len(vals) == 1 else None
            if f == 'any' and e.args and _chars_in(self.model, self.fi, e):
                return self.p
            return None
        if isinstance(e, ast.Compare) and len(e.ops) == 1:
            op, l, r = e.ops[0], e.left, e.comparators[0]
            if isinstance(op, ast.In) and isinstance(l, ast.Constant) and \
                    isinstance(l.value, str) and len(l.value) == 1:
                return self.p           # conservative: one char stands for
                                        # the whole tested set
            if isinstance(op, ast.In) and isinstance(l, ast.Name) and \
                    st.env.get('@loopvar:' + l.id):
                return self.p           # for c in CHARS: if c in t
            if isinstance(op, (ast.Is, ast.IsNot)) and \
                    isinstance(r, ast.Constant) and r.value is None:
                if isinstance(l, ast.Call) and \
                        _regex_chars(self.model, self.fi, l):
                    return (not self.p) if isinstance(op, ast.Is) else self.p
                if isinstance(l, ast.Name) and 'untaint' in l.id:
                    return isinstance(op, ast.Is)
                return None
            if isinstance(op, (ast.Eq, ast.NotEq)):
                pos = isinstance(op, ast.Eq)
                # first_char == 'v'
                if isinstance(r, ast.Constant) and isinstance(r.value, str):
                    return (r.value == 'v') == pos
                if isinstance(r, ast.Constant) and \
                        isinstance(r.value, int) and \
                        not isinstance(r.value, bool):
                    if isinstance(l, ast.Call) and norm(l.func) == 'len':
                        return (r.value == self.blocklen) == pos
                    v = self.truth(l, st)
                    if v is None:
                        return None
                    return (bool(r.value) == v) == pos
            if isinstance(op, (ast.Gt, ast.GtE)) and \
                    isinstance(l, ast.Call) and norm(l.func) == 'len':
                return True
        if isinstance(e, ast.IfExp):
            t = self.truth(e.test, st)
            if t is None:
                return None
            return self.truth(e.body if t else e.orelse, st)
        return None

    def _const_loop(self, node):
        ok, vals = self.model.fold(node.iter, self.fi)
        return ok and isinstance(vals, (str, tuple, list)) and len(vals) > 0

    def for_target(self, node, st):
        if self._const_loop(node) and isinstance(node.target, ast.Name):
            st = st.copy()
            st.entered = st.entered | {id(node)}
            st.env['@loopvar:' + node.target.id] = True
        return st

    def for_may_skip(self, node, st):
        # a loop over a non-empty constant runs at least once
        return not self._const_loop(node) or id(node) in st.entered

    def branch(self, test, st):
        v = self.truth(test, st)
        if isinstance(test, ast.Compare) and isinstance(
                test.comparators[0], ast.Constant) and \
                test.comparators[0].value == 'v' and v:
            st = st.copy()
            st.invar = True
        if v is None:
            return [(True, st), (False, st)]
        return [(v, st)]

    def raises(self, node, st):
        return []

    blocklen = 3
    track = None

    def _track(self, stmt, st):
        if self.track is None or not st.invar:
            return
        v, nsname = self.track
        if not (isinstance(stmt, ast.Assign) and
                isinstance(stmt.targets[0], ast.Name) and
                stmt.targets[0].id == v):
            return
        val = stmt.value
        if not hasattr(self, 'rewrites'):
            self.rewrites, self.followed, self.n_assign = [], [], 0
        self.n_assign += 1
        # the lookups themselves: NS[x], x(NS), block[1]
        if isinstance(val, ast.Subscript) or (
                isinstance(val, ast.Call) and len(val.args) == 1 and
                norm(val.args[0]) == nsname and not val.keywords) or \
                isinstance(val, (ast.Name, ast.Constant)):
            return
        # v = helper(v, ...): follow the value into the helper
        if isinstance(val, ast.Call) and isinstance(val.func, ast.Name):
            for t in self.model.resolve_callee(val.func, self.fi):
                if t[0] == 'func' and t[1].module is self.fi.module:
                    hp = t[1].params()
                    for i, a in enumerate(val.args):
                        if norm(a) == v and i < len(hp):
                            self.followed.append((stmt, (t[1], hp[i],
                                                         nsname)))
                            return
        self.rewrites.append(stmt)

    def effects(self, stmt, st):
        if not hasattr(self, 'rewrites'):
            self.rewrites, self.followed, self.n_assign = [], [], 0
        self._track(stmt, st)
        if self.track is not None and st.invar:
            v, nsname = self.track
            for c in ast.walk(stmt):
                if isinstance(c, ast.Call) and isinstance(c.func, ast.Name) \
                        and any(norm(a) == v for a in c.args):
                    for t in self.model.resolve_callee(c.func, self.fi):
                        if t[0] == 'func' and t[1].module is self.fi.module \
                                and t[1] is not self.fi:
                            hp = t[1].params()
                            for i, a in enumerate(c.args):
                                if norm(a) == v and i < len(hp):
                                    self.followed.append(
                                        (stmt, (t[1], hp[i], nsname)))
        ns = st
        for c in ast.walk(stmt):
            if isinstance(c, ast.Call) and \
                    self.esc in self.model.callee_names(c, self.fi):
                ns = ns.copy()
                ns.quoted = True
        if isinstance(stmt, ast.Assign) and len(stmt.targets) == 1 and \
                isinstance(stmt.targets[0], ast.Name):
            v = self.truth(stmt.value, ns)
            ns = ns.copy()
            if v is None:
                ns.env.pop(stmt.targets[0].id, None)
            else:
                ns.env[stmt.targets[0].id] = v
            # conversion to text: t = ustr(t) / str(t) / untaintmethod()
            val = stmt.value
            if isinstance(val, ast.Call) and (
                    norm(val.func).split('.')[-1] in ('ustr', 'str') or
                    (isinstance(val.func, ast.Name) and
                     'untaint' in val.func.id)):
                ns.env['@text:' + stmt.targets[0].id] = True
            elif isinstance(val, ast.Name) and ns.env.get(
                    '@text:' + val.id):
                ns.env['@text:' + stmt.targets[0].id] = True
            else:
                ns.env.pop('@text:' + stmt.targets[0].id, None)
                # the looked-up value: NS[name] / name(NS)
                tname = stmt.targets[0].id
                if (isinstance(val, ast.Subscript) and isinstance(
                        val.slice, ast.Name) and val.slice.id == tname) or (
                        isinstance(val, ast.Call) and isinstance(
                            val.func, ast.Name) and val.func.id == tname):
                    ns.env['@obj:' + tname] = True
        return ns


def _scenario_polarity(model, rb, helper, node, kind='str'):
    """Interpret one iteration of the block loop (or the body of the helper
    that renders one var block) for a str value in the 3-element form.
    -> {p: (paths, paths without the escaper, paths with it)}"""
    loops = [n for n in own_nodes(rb.node) if isinstance(n, ast.For)
             and n is not node and any(x is node for x in ast.walk(n))]
    fi = rb
    if loops:
        body, start = loops[0].body, _FS()
        # flags initialised before the loop
        d0 = _FastDomain(model, fi, True, helper)
        d0.kind = kind
        for st0 in rb.node.body:
            if st0 is loops[0]:
                break
            if isinstance(st0, ast.Assign):
                start = d0.effects(st0, start)
        start.quoted = False
    else:
        # the helper renders one var block: its parameters hold the value
        # as it was looked up
        body, start = rb.node.body, _FS(invar=True)
        if kind == 'object':
            for p_ in rb.params():
                start.env['@obj:' + p_] = True
    res = {}
    for p in (True, False):
        dom = _FastDomain(model, fi, p, helper)
        dom.kind = kind
        it = Interp(dom)
        outs = it.block(body, start)
        ends = [o for o in outs if o.kind in ('normal', 'continue', 'return')
                and o.state.invar]
        res[p] = (len(ends), [o for o in ends if not o.state.quoted],
                  [o for o in ends if o.state.quoted])
    return res


def rule_fast_path(model):
    r = RuleResult('C03.R2', 'the fast path skips quoting only for strings '
                   'free of every character the escaper rewrites')
    em = EscapeModel()
    rb, node, chars, helper = fast_path_chars(model)
    need = em.chars(True)
    r.instance(rb.where, getattr(node, 'test', None) or
               getattr(node, 'value', node),
               f'tests {sorted(chars)}; escaper '
               f'rewrites {sorted(need)}')
    for c in sorted(need - chars):
        r.finding(rb.where, f'character {c!r} not tested', f'a string '
                  f'containing {c!r} (and none of the tested characters) '
                  'takes the fast path and is inserted unescaped by '
                  '&dtml-name; / <dtml-var name html_quote>, while the full '
                  'path escapes it', node=node, ctx=rb)
    # polarity, decided semantically: interpret one iteration of the block
    # loop for a plain str in the 3-element (html_quote) form
    res = _scenario_polarity(model, rb, helper, node)
    n_t, unq_t, q_t = res[True]
    n_f, unq_f, q_f = res[False]
    r.instance(rb.where, 'scenario: str with a tested character',
               f'{n_t} path(s), {len(unq_t)} without the escaper')
    r.instance(rb.where, 'scenario: str without tested characters',
               f'{n_f} path(s), {len(unq_f)} skip the escaper')
    if not n_t or not n_f:
        raise AnalysisError('render_blocks_: cannot relate the character '
                            'test to the quoting decision (no path through '
                            'the simple form)')
    for o in unq_t:
        r.finding(rb.where, 'skip flag polarity', 'strings with problem '
                  'characters skip quoting (test or flag inverted)',
                  node=node, ctx=rb, path=o.state.trace)
    # the same for a value that is not text: it is converted with ustr()
    # and then treated like any string (only a tainted value, which quotes
    # itself, may skip the escaper)
    reso = _scenario_polarity(model, rb, helper, node, kind='object')
    n_to, unq_to, _ = reso[True]
    r.instance(rb.where, 'scenario: non-text value whose text has a tested '
               'character', f'{n_to} path(s), {len(unq_to)} without the '
               'escaper')
    for o in unq_to:
        r.finding(rb.where, 'non-text value skips quoting', 'a value that '
                  'is neither text nor tainted (an object with __str__, a '
                  'list, an exception) is converted to text and inserted '
                  'without the escaper although its text contains problem '
                  'characters', node=node, ctx=rb, path=o.state.trace)
    # bytes are never skipped
    return r


def rule_entity(model):
    r = RuleResult('C03.R3', 'the entity syntax desugars to the option name '
                   'that Var accepts, tests and applies')
    esc = _escaper(model)
    name = esc.name                      # 'html_quote'
    sc = model.func('DT_HTML', 'dtml_re_class.search')
    appended = [n for n in model.closure_nodes(sc)
                if isinstance(n, ast.BinOp)
                and isinstance(n.op, ast.Add)
                and isinstance(n.right, ast.Constant)
                and isinstance(n.right.value, str)
                and n.right.value.startswith(' ')
                and n.right.value.strip()]
    if not appended:
        raise AnalysisError('entity scanner: appended option not found')
    for n in appended:
        opt = n.right.value.strip()
        r.instance(sc.where, n, f'option {opt!r}')
        if opt != name:
            r.finding(sc.where, n, f'&dtml-name; appends option {opt!r}, '
                      f'the quoting modifier is {name!r}', node=n, ctx=sc)
    init = model.func('DT_Var', 'Var.__init__')
    kws = set()
    for c in own_nodes(init.node):
        if isinstance(c, ast.Call) and \
                'DT_Util:parse_params' in model.callee_names(c, init):
            kws = {k.arg for k in c.keywords}
    r.instance(init.where, f'accepts {name}: {name in kws}')
    if name not in kws:
        r.finding(init.where, f'option {name}', f'dtml-var does not accept '
                  f'the option {name}', node=init.node, ctx=init)
    # simple form 3-tuple guarded by `'<name>' in args`
    tests = [n for n in own_nodes(init.node) if isinstance(n, ast.Compare)
             and isinstance(n.ops[0], ast.In)
             and isinstance(n.left, ast.Constant)
             and isinstance(n.left.value, str)
             and 'quote' in n.left.value and 'html' in n.left.value]
    for t in tests:
        r.instance(init.where, t)
        if t.left.value != name:
            r.finding(init.where, t, 'the quoting simple form is selected '
                      f'by {t.left.value!r}, not {name!r}', node=t,
                      ctx=init)
    if not tests:
        r.finding(init.where, f"'{name}' in args", 'no simple form for '
                  'name + html_quote', node=init.node, ctx=init)
    ren = model.func('DT_Var', 'Var.render')
    cmps = [n for n in own_nodes(ren.node) if isinstance(n, ast.Compare)
            and '__name__' in norm(n.left)
            and isinstance(n.comparators[0], ast.Constant)]
    for c in cmps:
        r.instance(ren.where, c)
        if c.comparators[0].value != name:
            r.finding(ren.where, c, 'the modifier loop recognises the '
                      f'quoting modifier as {c.comparators[0].value!r}',
                      node=c, ctx=ren)
    # &dtml.a.b-x;  ->  "x a b"
    rep = [n for n in model.closure_nodes(sc) if isinstance(n, ast.Call)
           and isinstance(n.func, ast.Attribute)
           and n.func.attr == 'replace' and len(n.args) == 2
           and isinstance(n.args[0], ast.Constant)
           and n.args[0].value == '.']
    r.instance(sc.where, rep[0] if rep else 'no replace')
    if not rep or not (isinstance(rep[0].args[1], ast.Constant) and
                       rep[0].args[1].value == ' '):
        r.finding(sc.where, "replace('.', ' ')", 'modifier list of '
                  '&dtml.m1.m2-name; is not split into options', node=sc.node,
                  ctx=sc)
    else:
        # name first: args[nn + 1:] + ' ' + modifiers
        par = rep[0]
        top = None
        for a in ancestors(par):
            if isinstance(a, ast.BinOp):
                top = a
            else:
                break
        if top is not None:
            leaf = top
            while isinstance(leaf, ast.BinOp):
                leaf = leaf.left
            name_first = isinstance(leaf, ast.Subscript) and \
                isinstance(leaf.slice, ast.Slice) and \
                leaf.slice.lower is not None and leaf.slice.upper is None
            if not name_first:
                r.finding(sc.where, top, 'the entity name is not the first '
                          'option', node=top, ctx=sc)
    return r


def rule_identity(model):
    r = RuleResult('C03.R4', 'without a quoting option a str value reaches '
                   'the output unchanged')
    rb = model.func('_DocumentTemplate', 'render_blocks_')
    # the value variable: assigned from md[...] subscripts
    # the value variable: assigned from NS[...] and later handed to the
    # converter ustr() -- in render_blocks_ or in a helper it was moved to
    var = None
    conv = model.func('ustr', 'ustr').where
    home = rb
    for f in model.closure(rb):
        fps = f.params()
        for n in own_nodes(f.node):
            if isinstance(n, ast.Assign) and \
                    isinstance(n.value, ast.Subscript) and \
                    isinstance(n.targets[0], ast.Name) and \
                    isinstance(n.value.value, ast.Name) and \
                    n.value.value.id in fps and var is None:
                cand = n.targets[0].id
                if any(isinstance(c, ast.Call) and
                       conv in model.callee_names(c, f) and c.args and
                       norm(c.args[0]) == cand for c in own_nodes(f.node)):
                    var, ns, home = cand, n.value.value.id, f
    if var is None:
        # the lookup stayed behind, the conversion moved to a helper: the
        # variable assigned from NS[...] that is handed to that helper
        helpers = {h.name for h in model.closure(rb) if h is not rb}
        for f in model.closure(rb):
            fps = f.params()
            for n in own_nodes(f.node):
                if isinstance(n, ast.Assign) and \
                        isinstance(n.value, ast.Subscript) and \
                        isinstance(n.targets[0], ast.Name) and \
                        isinstance(n.value.value, ast.Name) and \
                        n.value.value.id in fps and var is None:
                    cand = n.targets[0].id
                    if any(isinstance(c, ast.Call) and
                           isinstance(c.func, ast.Name) and
                           c.func.id in helpers and
                           any(norm(a) == cand for a in c.args)
                           for c in own_nodes(f.node)):
                        var, ns, home = cand, n.value.value.id, f
    if var is None:
        raise AnalysisError('render_blocks_: value variable not found')
    # scenario: a plain str value, two-element block (no quoting option).
    # Interpret the code that renders one var block and collect every
    # statement that rewrites the value variable on a feasible path.
    _, fp_node, _, fp_helper = fast_path_chars(model)
    rewrites = []
    n_assign = 0
    todo = [(home, var, ns)]
    done = set()
    while todo:
        fn, v, nsname = todo.pop()
        if (fn.where, v) in done:
            continue
        done.add((fn.where, v))
        dom = _FastDomain(model, fn, False, fp_helper)
        dom.blocklen = 2
        dom.track = (v, nsname)
        loops = [n for n in own_nodes(fn.node) if isinstance(n, ast.For)
                 and any(isinstance(x, ast.Assign) and
                         isinstance(x.targets[0], ast.Name) and
                         x.targets[0].id == v for x in ast.walk(n))]
        if loops and fn is rb:
            body, start = loops[0].body, _FS()
        else:
            body, start = fn.node.body, _FS(invar=True)
        Interp(dom).block(body, start)
        n_assign += dom.n_assign
        for st_, callee in dom.followed:
            todo.append(callee)
        for st_ in dom.rewrites:
            rewrites.append((fn, v, st_))
    seen = set()
    for fn, v, st_ in rewrites:
        if id(st_) in seen:
            continue
        seen.add(id(st_))
        r.finding(fn.where, st_, f'the value `{v}` is rewritten on '
                  'the plain insertion path (no quoting option, str '
                  'value)', node=st_, ctx=fn)
    r.instance(home.where, f'value variable `{var}`',
               f'{n_assign} assignment(s) on the plain path, '
               f'{len(seen)} rewrite(s)')
    if n_assign < 1:
        raise AnalysisError('render_blocks_: value assignments not found')
    return r


class _DefState(BaseState):
    __slots__ = ('defs', 'trace', 'cur_exc')

    def __init__(self, defs=frozenset()):
        self.defs = defs
        self.trace = ()
        self.cur_exc = None

    def key(self):
        return self.defs

    def copy(self):
        n = _DefState(self.defs)
        n.trace = self.trace
        return n


class _DefDomain(Domain):
    """Which loop-assigned names are read before this iteration assigned
    them (loop-carried state)."""

    def __init__(self, tracked):
        self.tracked = tracked
        self.carried = {}

    def _reads(self, node, st):
        for n in ast.walk(node):
            if isinstance(n, ast.Name) and isinstance(n.ctx, ast.Load) and \
                    n.id in self.tracked and n.id not in st.defs:
                self.carried.setdefault(n.id, n)

    def _writes(self, node, st):
        names = {n.id for n in ast.walk(node) if isinstance(n, ast.Name)
                 and isinstance(n.ctx, ast.Store) and n.id in self.tracked}
        if names - st.defs:
            ns = _DefState(st.defs | names)
            ns.trace = st.trace
            return ns
        return st

    def effects(self, stmt, st):
        if isinstance(stmt, ast.Assign):
            self._reads(stmt.value, st)
            for t in stmt.targets:
                if not isinstance(t, ast.Name):
                    self._reads(t, st)
        elif isinstance(stmt, ast.AugAssign):
            self._reads(stmt.value, st)
            self._reads(ast.Name(id=getattr(stmt.target, 'id', ''),
                                 ctx=ast.Load()), st)
        else:
            self._reads(stmt, st)
        return self._writes(stmt, st)

    def branch(self, test, st):
        self._reads(test, st)
        return [(True, st), (False, st)]

    def for_target(self, node, st):
        self._reads(node.iter, st)
        return self._writes(node.target, st)

    def enter_handler(self, h, st, exc):
        if h.name and h.name in self.tracked:
            return _DefState(st.defs | {h.name})
        return st

    def on_return(self, node, st):
        if node.value is not None:
            self._reads(node.value, st)
        return [], st

    def loop_head(self, node, st):
        return st


def rule_per_block(model):
    r = RuleResult('C03.R5', 'each block is rendered independently: no '
                   'local state is carried from one block of a section to '
                   'the next')
    rb = model.func('_DocumentTemplate', 'render_blocks_')
    loops = [n for n in rb.node.body if isinstance(n, ast.For)]
    if len(loops) != 1:
        raise AnalysisError('render_blocks_: block loop not found')
    lp = loops[0]
    comp_names = set()
    for n in ast.walk(lp):
        if isinstance(n, ast.comprehension):
            comp_names |= {x.id for x in ast.walk(n.target)
                           if isinstance(x, ast.Name)}
    tracked = {n.id for n in ast.walk(lp) if isinstance(n, ast.Name)
               and isinstance(n.ctx, ast.Store)} - comp_names
    dom = _DefDomain(tracked)
    st = _DefState(frozenset({x.id for x in ast.walk(lp.target)
                              if isinstance(x, ast.Name)}))
    Interp(dom).block(lp.body, st)
    r.instance(rb.where, f'for {norm(lp.target)} in {norm(lp.iter)}',
               f'{len(tracked)} names assigned per block')
    for name, node in sorted(dom.carried.items()):
        r.instance(rb.where, f'`{name}` read before assigned', 'CARRIED')
        r.finding(rb.where, f'loop-carried `{name}`', f'`{name}` is read in '
                  'the block loop before this iteration assigned it: its '
                  'value comes from a previous block (e.g. a flag set by an '
                  'earlier tainted value switches quoting off for later '
                  'ones)', node=node, ctx=rb)
    return r


def rule_skip_condition(model):
    r = RuleResult('C03.R7', 'a requested html quoting is left out only for '
                   'tainted values (which the last stage of the pipeline '
                   'quotes itself): the tests that skip the html_quote '
                   'modifier / the html-quote format look at nothing but '
                   'the taint mark')
    ren = model.func('DT_Var', 'Var.render')
    n = 0

    def leaves(t):
        if isinstance(t, ast.BoolOp):
            out = []
            for v in t.values:
                out += leaves(v)
            return out
        if isinstance(t, ast.UnaryOp) and isinstance(t.op, ast.Not):
            return leaves(t.operand)
        return [t]
    for fi, x in [(f, x) for f in model.closure(ren)
                  for x in own_nodes(f.node)]:
        if not isinstance(x, ast.If):
            continue
        test, skip_branch = x.test, x.body
        if isinstance(test, ast.UnaryOp) and isinstance(test.op, ast.Not):
            # `if not (html-quote and tainted): quote` -- the skip is the
            # (empty) else branch
            test, skip_branch = test.operand, x.orelse
        lv = leaves(test)
        sel = [t for t in lv if isinstance(t, ast.Compare) and any(
            isinstance(c, ast.Constant) and c.value in ('html_quote',
                                                        'html-quote')
            for c in ast.walk(t))]
        if not sel:
            continue
        # does this branch skip the quoting?  (no call in it)
        skips = not any(isinstance(c, ast.Call) for s_ in skip_branch
                        for c in ast.walk(s_))
        if not skips:
            continue
        n += 1
        others = [t for t in lv if t not in sel]
        bad = [t for t in others if not (
            isinstance(t, ast.Call) and isinstance(t.func, ast.Name) and
            t.func.id == 'isinstance' and len(t.args) == 2 and
            all('Tainted' in nm for nm in (
                [norm(e) for e in t.args[1].elts]
                if isinstance(t.args[1], ast.Tuple)
                else [norm(t.args[1])])))]
        r.instance(fi.where, x.test, 'taint mark only' if not bad
                   else 'OTHER CONDITIONS')
        if not others:
            r.finding(fi.where, x.test, 'the requested html quoting is '
                      'skipped unconditionally', node=x, ctx=fi)
        for t in bad:
            r.finding(fi.where, x.test, f'the requested html quoting is '
                      f'also skipped when `{norm(t)}`: a value that is not '
                      'tainted is then inserted without being quoted, '
                      'although this form promises exactly the escaped '
                      'value (and the other forms still quote it)',
                      node=x, ctx=fi)
    if n < 1:
        raise AnalysisError('C03.R7: no quoting skip found in Var.render '
                            'or its helpers')
    return r


def rule_text_identity(model):
    r = RuleResult('C03.R8', 'the conversion every inserted value passes '
                   'through (ustr) hands a str back untouched: each branch '
                   'taken for text returns the very object it tested (the '
                   'escaped output is the escaping of the value, nothing '
                   'is substituted or normalised on the way)')
    fi = model.func('ustr', 'ustr')
    n = 0
    for x in own_nodes(fi.node):
        if not (isinstance(x, ast.If) and isinstance(x.test, ast.Call) and
                isinstance(x.test.func, ast.Name) and
                x.test.func.id == 'isinstance' and len(x.test.args) == 2
                and isinstance(x.test.args[0], ast.Name)):
            continue
        types = x.test.args[1]
        if isinstance(types, ast.Name) and types.id not in ('str', 'bytes'):
            # a module-level constant naming the types
            vals = fi.module.globals.get(types.id) or []
            if len(vals) == 1:
                types = vals[0]
        names = [norm(e) for e in (types.elts if isinstance(
            types, ast.Tuple) else [types])]
        if 'str' not in names:
            continue
        n += 1
        var = x.test.args[0].id
        body = [s_ for s_ in x.body if not (
            isinstance(s_, ast.Expr) and isinstance(s_.value, ast.Constant))]
        ok = len(body) == 1 and isinstance(body[0], ast.Return) and \
            isinstance(body[0].value, ast.Name) and body[0].value.id == var
        r.instance(fi.where, x.test, 'returned untouched' if ok
                   else 'TRANSFORMED')
        if not ok:
            r.finding(fi.where, f'if {norm(x.test)}: '
                      f'{norm(body[0]) if body else "..."}',
                      'a text value does not come back from ustr() as it '
                      'went in: html_quote() and Var.render start with '
                      'ustr(value), so the output is no longer the '
                      'escaping of the value (and the fast path, which '
                      'skips ustr, disagrees with the full path)',
                      node=x, ctx=fi)
    if n < 1:
        raise AnalysisError('C03.R8: the text branch of ustr() was not '
                            'found')
    return r


def rule_frozen_options(model):
    """fmt=html-quote / html_quote rewritten into the options after the
    modifier list was derived: the full render path never quotes."""
    from .c15 import rule_frozen_options as f
    return f(model, 'C03.R6')


RULES = [rule_one_escaper, rule_fast_path, rule_entity, rule_identity,
         rule_per_block, rule_frozen_options, rule_skip_condition,
         rule_text_identity]
EXPLANATION = (
    'Resolved-callee query for the escaper on all quoting paths; set '
    'inclusion between the characters the fast path tests and the '
    'characters html.escape(quote=True) rewrites (read from the stdlib '
    'source); literal/name agreement of the html_quote option across '
    'scanner, Var constructor, simple form and modifier loop; guard query '
    'for rewrites of the value on the plain path.')
ASSUMPTIONS = ['html.escape itself is trusted (stdlib)',
               'bytes decoding is judged under C19']
TRUSTED = ['python ast', 'stdlib html/__init__.py as read']
