"""C10 -- dtml-in iteration and sequence variables (structural clauses).

R1 index discipline: the element read and sequence-index use the loop
   variable; first/last markers compare against the loop's own bounds
R2 prefix discipline: literal sequence-* keys are stored through the
   prefix-aware mapping; both prefix strippers agree
R3 every documented variable / statistic prefix has a provider
R4 empty sequence => else (before any push)
R5 per-item push decision: the two renderers are twins
"""
import ast

from ..core import AnalysisError
from ..core import RuleResult
from ..core import norm
from ..flow import BaseState
from ..flow import Domain
from ..flow import ANY as ANY_
from ..flow import Interp
from ..linear import canon
from ..linear import lin_eq
from ..linear import parse_expr
from ..model import ancestors
from ..model import own_nodes

DOC_VARS = ['item', 'key', 'index', 'number', 'letter', 'Letter', 'roman',
            'Roman', 'even', 'odd', 'start', 'end', 'length']


def _loops(model):
    out = []
    for q in ('InClass.renderwb', 'InClass.renderwob'):
        fi = model.func('DT_In', q)
        best = None
        for n in own_nodes(fi.node):
            if isinstance(n, ast.For) and isinstance(n.target, ast.Name) and \
                    isinstance(n.iter, ast.Call) and \
                    norm(n.iter.func) == 'range' and any(
                        isinstance(c, ast.Call) and (
                            '_DocumentTemplate:render_blocks'
                            in model.callee_names(c, fi) or
                            '_DocumentTemplate:render_blocks_'
                            in model.callee_names(c, fi))
                        for c in ast.walk(n)):
                best = n
        if best is None:
            raise AnalysisError(f'{fi.where}: item loop not found')
        out.append((fi, best))
    return out


def rule_index(model):
    r = RuleResult('C10.R1', 'element read and sequence-index use the loop '
                   'variable; first/last markers compare with the loop '
                   'bounds')
    for fi, lp in _loops(model):
        iv = lp.target.id
        a = lp.iter.args
        lo = a[0] if len(a) == 2 else ast.Constant(value=0)
        hi = a[-1]
        subst = {}
        for name in ('last', 'first', 'l_'):
            defs = [d for d in model.local_defs(fi, name)
                    if not isinstance(d, (str, tuple))]
            if len(defs) == 1:
                subst[name] = defs[0]
        hi_minus_1 = ast.BinOp(left=hi, op=ast.Sub(),
                               right=ast.Constant(value=1))
        # element reads
        for n in ast.walk(lp):
            if isinstance(n, ast.Subscript) and norm(n.value) == 'sequence' \
                    and isinstance(n.ctx, ast.Load) and \
                    not isinstance(n._dt_parent, ast.Expr):
                ok = norm(n.slice) == iv
                r.instance(fi.where, n, 'element read')
                if not ok:
                    r.finding(fi.where, n, 'the element rendered is not the '
                              f'one at the loop index `{iv}`', node=n,
                              ctx=fi)
            if isinstance(n, ast.Call) and isinstance(n.func, ast.Name) and \
                    n.func.id == 'guarded_getitem' and len(n.args) == 2:
                r.instance(fi.where, n, 'guarded element read')
                if norm(n.args[1]) != iv or norm(n.args[0]) != 'sequence':
                    r.finding(fi.where, n, 'the guarded element read does '
                              f'not use the loop index `{iv}`', node=n,
                              ctx=fi)
            if isinstance(n, ast.Assign) and \
                    isinstance(n.targets[0], ast.Subscript) and \
                    isinstance(n.targets[0].slice, ast.Constant) and \
                    n.targets[0].slice.value == 'sequence-index':
                r.instance(fi.where, n, 'index store')
                if norm(n.value) != iv:
                    r.finding(fi.where, n, 'sequence-index is not the loop '
                              'index', node=n, ctx=fi)
        # markers
        for n in ast.walk(lp):
            if isinstance(n, ast.If) and isinstance(n.test, ast.Compare) and \
                    isinstance(n.test.ops[0], ast.Eq) and \
                    norm(n.test.left) == iv and len(n.test.ops) == 1:
                sets = [x.targets[0].slice.value for x in ast.walk(n)
                        if isinstance(x, ast.Assign) and
                        isinstance(x.targets[0], ast.Subscript) and
                        isinstance(x.targets[0].slice, ast.Constant) and
                        isinstance(x.targets[0].slice.value, str)]
                rhs = n.test.comparators[0]
                for key in sets:
                    want = None
                    if key in ('sequence-start', 'previous-sequence'):
                        want = ('first', lo)
                    elif key in ('sequence-end', 'next-sequence'):
                        want = ('last', hi_minus_1)
                    if want is None:
                        continue
                    ok = lin_eq(rhs, want[1], subst)
                    r.instance(fi.where, f'if {norm(n.test)}: {key}',
                               'ok' if ok else 'WRONG BOUND')
                    if not ok:
                        r.finding(fi.where, f'if {norm(n.test)}: {key}',
                                  f'{key} is decided by comparing the index '
                                  f'with {norm(rhs)}, which is not the '
                                  f'{want[0]} index of this loop '
                                  f'({norm(want[1])})', node=n, ctx=fi)
        # sequence-start is cleared after the first rendered element
        clears = []
        seen_render = False
        for st in lp.body:
            if any(isinstance(c, ast.Call) and
                   '_DocumentTemplate:render_blocks'
                   in model.callee_names(c, fi) for c in ast.walk(st)):
                seen_render = True
                continue
            if seen_render:
                for x in ast.walk(st):
                    if isinstance(x, ast.Assign) and \
                            isinstance(x.targets[0], ast.Subscript) and \
                            isinstance(x.targets[0].slice, ast.Constant) and \
                            x.targets[0].slice.value == 'sequence-start' \
                            and isinstance(x.value, ast.Constant) and \
                            not x.value.value:
                        clears.append((st, x))
        r.instance(fi.where, 'sequence-start cleared after the render',
                   'ok' if clears else 'MISSING')
        if not clears:
            r.finding(fi.where, "pkw['sequence-start'] = 0", 'sequence-start '
                      'is never cleared after an element was rendered: '
                      'every element is a start', node=lp, ctx=fi)
        # in the skip path (continue) the flag must not be cleared
        for n in ast.walk(lp):
            if isinstance(n, ast.Continue):
                blk = n._dt_parent
                for x in ast.walk(blk):
                    if isinstance(x, ast.Assign) and \
                            isinstance(x.targets[0], ast.Subscript) and \
                            isinstance(x.targets[0].slice, ast.Constant) and \
                            x.targets[0].slice.value == 'sequence-start':
                        r.finding(fi.where, x, 'sequence-start is changed '
                                  'on the path that skips an element: the '
                                  'first element actually rendered is then '
                                  'not marked as the start', node=x, ctx=fi)
    r.require_floor(10)
    return r


def rule_prefix(model):
    r = RuleResult('C10.R2', 'sequence-* keys are stored through the '
                   'prefix-aware mapping; the prefix strippers agree on '
                   "'sequence-'")
    for fi, lp in _loops(model):
        plain = pref = None
        for n in own_nodes(fi.node):
            if isinstance(n, ast.Assign) and isinstance(n.value, ast.Call) \
                    and 'DT_Util:add_with_prefix' in model.callee_names(
                        n.value, fi) and isinstance(n.targets[0], ast.Name):
                pref = n.targets[0].id
                plain = norm(n.value.args[0])
        if pref is None:
            raise AnalysisError(f'{fi.where}: prefix-aware mapping not '
                                'found')
        for n in own_nodes(fi.node):
            if isinstance(n, ast.Assign) and \
                    isinstance(n.targets[0], ast.Subscript) and \
                    isinstance(n.targets[0].slice, ast.Constant) and \
                    isinstance(n.targets[0].slice.value, str) and \
                    norm(n.targets[0].value) in (plain, pref):
                key = n.targets[0].slice.value
                via = norm(n.targets[0].value)
                if key == 'mapping':
                    continue
                r.instance(fi.where, n, f'via {via}')
                if via != pref:
                    r.finding(fi.where, n, f'{key!r} is stored in the plain '
                              'mapping: with prefix=p the alias p_... is '
                              'not defined', node=n, ctx=fi)
    # strippers
    a = model.func('DT_Util', 'Add_with_prefix.__setitem__')
    b = model.func('DT_InSV', 'sequence_variables.__setitem__')
    ok_b = False
    for n in own_nodes(b.node):
        if isinstance(n, ast.If) and 'startswith' in norm(n.test):
            lit = []
            for x in ast.walk(n.test):
                if isinstance(x, ast.Call) and isinstance(
                        x.func, ast.Attribute) and \
                        x.func.attr == 'startswith' and x.args:
                    okf, v = model.fold(x.args[0], b, b.module)
                    lit.append(v if okf else None)
            w = []
            for x in ast.walk(n):
                if isinstance(x, ast.Subscript) and \
                        isinstance(x.slice, ast.Slice) and \
                        x.slice.lower is not None:
                    lo = x.slice.lower
                    if isinstance(lo, ast.Call) and \
                            isinstance(lo.func, ast.Name) and \
                            lo.func.id == 'len' and len(lo.args) == 1:
                        okf, v = model.fold(lo.args[0], b, b.module)
                        if okf and isinstance(v, str):
                            w.append(len(v))
                        continue
                    okf, v = model.fold(lo, b, b.module)
                    if okf:
                        w.append(v)
            r.instance(b.where, f'if {norm(n.test)}', f'width {w}')
            if lit == ['sequence-'] and w == [len('sequence-')]:
                ok_b = True
    if not ok_b:
        r.finding(b.where, "key.startswith('sequence-')", 'the alternate '
                  "prefix alias does not strip exactly 'sequence-'",
                  node=b.node, ctx=b)
    # reader of the aliases: p_xxx is recognised by stripping the stored
    # alternate prefix by its own length; splitting the key at a character
    # that the prefix grammar allows inside a prefix loses such prefixes
    g = model.func('DT_InSV', 'sequence_variables.__getitem__')
    keyp = g.params()[1]
    alias = {'self.alt_prefix'}
    for n in own_nodes(g.node):
        if isinstance(n, ast.Assign) and len(n.targets) == 1 and \
                isinstance(n.targets[0], ast.Name) and \
                norm(n.value) == 'self.alt_prefix':
            alias.add(n.targets[0].id)
        if isinstance(n, ast.NamedExpr) and \
                norm(n.value) == 'self.alt_prefix':
            alias.add(n.target.id)
    strip_ok = False
    for n in own_nodes(g.node):
        if isinstance(n, ast.Subscript) and norm(n.value) == keyp and \
                isinstance(n.slice, ast.Slice) and n.slice.upper is None and \
                isinstance(n.slice.lower, ast.Call) and \
                norm(n.slice.lower.func) == 'len' and \
                norm(n.slice.lower.args[0]) in alias:
            strip_ok = True
            r.instance(g.where, n, 'alias stripped by the prefix width')
    mu = model.module('DT_Util')
    roots = list(mu.globals.get('simple_name', []))
    if 'simple_name' in mu.funcs:
        roots.append(mu.funcs['simple_name'].node)
    if not roots:
        raise AnalysisError('DT_Util.simple_name (prefix grammar) not found')
    pats = [x for rt in roots for x in ast.walk(rt)
            if isinstance(x, ast.Constant)
            and isinstance(x.value, str) and '[' in x.value]
    inner = set()
    import re._parser as _P
    import re._constants as _C
    for x in pats:
        try:
            tree = _P.parse(x.value)
        except Exception:
            continue
        for op, av in tree:
            if op is _C.MAX_REPEAT and av[2] and av[2][0][0] is _C.IN:
                for o, a_ in av[2][0][1]:
                    if o is _C.LITERAL:
                        inner.add(chr(a_))
                    elif o is _C.RANGE:
                        inner |= {chr(c) for c in range(a_[0], a_[1] + 1)}
    if not inner:
        # no explicit grammar (e.g. str.isidentifier): identifiers may
        # contain the separator
        inner = {'_'}
    bad_split = []
    for n in own_nodes(g.node):
        if isinstance(n, ast.Call) and isinstance(n.func, ast.Attribute) \
                and norm(n.func.value) == keyp and n.func.attr in (
                    'partition', 'rpartition', 'split', 'rsplit', 'find',
                    'index', 'rfind', 'rindex') and n.args and \
                isinstance(n.args[0], ast.Constant) and \
                isinstance(n.args[0].value, str) and \
                n.args[0].value in inner:
            bad_split.append(n)
            r.instance(g.where, n, 'SPLIT AT A PREFIX CHARACTER')
            r.finding(g.where, n, f'the alias p_name is recognised by '
                      f'splitting the key at {n.args[0].value!r}, a '
                      'character the prefix grammar allows inside a prefix: '
                      'aliases of such prefixes (my_row_item ...) are not '
                      'found', node=n, ctx=g)
    if not strip_ok and not bad_split:
        raise AnalysisError('sequence_variables.__getitem__: alias '
                            'recognition not understood')
    def is_dp(e):
        if norm(e) == 'self.defprefix':
            return True
        if isinstance(e, ast.Name):
            defs = model.local_defs(a, e.id)
            return len(defs) == 1 and isinstance(defs[0], ast.AST) and \
                norm(defs[0]) == 'self.defprefix'
        return False
    tested = stripped = None
    for n in own_nodes(a.node):
        if isinstance(n, ast.Call) and isinstance(n.func, ast.Attribute) \
                and n.func.attr == 'startswith' and n.args and \
                isinstance(n.args[0], ast.BinOp) and \
                isinstance(n.args[0].op, ast.Add) and \
                is_dp(n.args[0].left) and \
                isinstance(n.args[0].right, ast.Constant) and \
                n.args[0].right.value == '-':
            tested = norm(n.func.value)
        if isinstance(n, ast.Subscript) and isinstance(n.slice, ast.Slice) \
                and n.slice.upper is None and n.slice.step is None and \
                isinstance(n.slice.lower, ast.Call) and \
                norm(n.slice.lower.func) == 'len' and \
                len(n.slice.lower.args) == 1 and \
                is_dp(n.slice.lower.args[0]):
            stripped = norm(n.value)
    r.instance(a.where, f'{tested}.startswith(defprefix + "-") / '
               f'{stripped}[len(defprefix):]')
    if tested is None or stripped is None or tested != stripped:
        r.finding(a.where, 'prefix strip', 'Add_with_prefix does not strip '
                  'the default prefix by its own length', node=a.node,
                  ctx=a)
    r.require_floor(15)
    return r


def _key_prefix(model, fi, k, _depth=0):
    """The constant text a computed dictionary key starts with, up to the
    first run-time part: 'mean-%s' % n, f'mean-{n}', 'mean-' + n,
    'mean-{}'.format(n), or a local name bound once to one of these."""
    if isinstance(k, ast.Constant) and isinstance(k.value, str):
        return k.value
    if isinstance(k, ast.BinOp) and isinstance(k.op, ast.Mod) and \
            isinstance(k.left, ast.Constant) and \
            isinstance(k.left.value, str):
        return k.left.value.split('%')[0]
    if isinstance(k, ast.BinOp) and isinstance(k.op, ast.Add):
        return _key_prefix(model, fi, k.left, _depth)
    if isinstance(k, ast.JoinedStr):
        out = ''
        for v in k.values:
            if isinstance(v, ast.Constant):
                out += v.value
            else:
                break
        return out
    if isinstance(k, ast.Call) and isinstance(k.func, ast.Attribute) and \
            k.func.attr == 'format' and isinstance(
                k.func.value, ast.Constant) and \
            isinstance(k.func.value.value, str):
        return k.func.value.value.split('{')[0]
    if isinstance(k, ast.Name) and _depth < 3:
        defs = [d for d in model.local_defs(fi, k.id)]
        if len(defs) == 1 and isinstance(defs[0], ast.AST):
            return _key_prefix(model, fi, defs[0], _depth + 1)
    return None


def rule_providers(model):
    r = RuleResult('C10.R3', 'every documented sequence variable and every '
                   'statistic has a provider')
    sv = model.cls('DT_InSV', 'sequence_variables')
    init = sv.methods['__init__']
    data_keys = set()
    for n in own_nodes(init.node):
        if isinstance(n, ast.Dict):
            data_keys |= {k.value for k in n.keys
                          if isinstance(k, ast.Constant)}
    loop_keys = set()
    for fi, lp in _loops(model):
        for n in ast.walk(fi.node):
            if isinstance(n, ast.Assign) and \
                    isinstance(n.targets[0], ast.Subscript) and \
                    isinstance(n.targets[0].slice, ast.Constant):
                loop_keys.add(n.targets[0].slice.value)
    for v in DOC_VARS:
        key = 'sequence-' + v
        prov = None
        if key in data_keys:
            prov = 'initial data'
        elif key in loop_keys:
            prov = 'assigned by the loop'
        elif v in sv.methods:
            m = sv.methods[v]
            a = m.node.args
            if len(a.args) - len(a.defaults) == 2:
                prov = f'method {v}(self, index)'
        r.instance(sv.module.short + ':sequence_variables', key,
                   prov or 'NO PROVIDER')
        if prov is None:
            r.finding('DT_InSV:sequence_variables', key, f'{key} has no '
                      'provider (no initial value, no loop assignment, no '
                      f'method `{v}(self, index)`)', node=sv.node)
    # suffix dispatch present
    gi = sv.methods['__getitem__']

    def index_key(e, depth=0):
        # <prefix> + '-index', possibly through a local
        if isinstance(e, ast.BinOp) and isinstance(e.op, ast.Add) and \
                isinstance(e.right, ast.Constant) and \
                e.right.value == '-index':
            return True
        if isinstance(e, ast.JoinedStr) and e.values and isinstance(
                e.values[-1], ast.Constant) and \
                e.values[-1].value == '-index' and len(e.values) == 2:
            return True
        if isinstance(e, ast.Name) and depth < 2:
            ds = model.local_defs(gi, e.id)
            return bool(ds) and all(isinstance(d, ast.AST) and
                                    index_key(d, depth + 1) for d in ds)
        return False
    dispatch = False
    for n in own_nodes(gi.node):
        if not (isinstance(n, ast.Call) and isinstance(n.func, ast.Call) and
                isinstance(n.func.func, ast.Name) and
                n.func.func.id == 'getattr' and len(n.func.args) == 2 and
                norm(n.func.args[0]) == 'self' and len(n.args) == 1 and
                not n.keywords):
            continue
        a0 = n.args[0]
        cands = [a0] if not isinstance(a0, ast.Name) else [
            d for d in model.local_defs(gi, a0.id) if isinstance(d, ast.AST)]
        if cands and all(isinstance(d, ast.Subscript) and
                         index_key(d.slice) for d in cands):
            dispatch = True
            r.instance(gi.where, n, 'suffix dispatch on the index')
    if not dispatch:
        r.finding(gi.where, 'suffix dispatch', 'the suffix dispatch '
                  '(method named like the suffix, called with the index) is '
                  'gone', node=gi.node, ctx=gi)
    # statistics
    names = None
    _, sn = model.lookup_class_attr(sv, 'statistic_names')
    ok, names = model.fold(sn, None, sv.module) if sn is not None \
        else (False, None)
    if not ok:
        raise AnalysisError('statistic_names not found')
    stat = sv.methods['statistics']
    assigned = set()
    for n in own_nodes(stat.node):
        if isinstance(n, ast.Assign) and \
                isinstance(n.targets[0], ast.Subscript):
            pre = _key_prefix(model, stat, n.targets[0].slice)
            if pre and pre.endswith('-'):
                assigned.add(pre[:-1])
    def _names(n):
        return {x.id for x in ast.walk(n) if isinstance(x, ast.Name)}
    registered = any(
        not isinstance(n, (ast.FunctionDef, ast.ClassDef)) and
        {'statistic_names', 'special_prefixes'} <= _names(n) and any(
            isinstance(x, (ast.For, ast.comprehension)) and
            norm(x.iter) == 'statistic_names' for x in ast.walk(n))
        for n in sv.node.body)
    r.instance('DT_InSV:sequence_variables', f'statistics: {sorted(names)}',
               'registered' if registered else 'NOT registered')
    if not registered:
        r.finding('DT_InSV:sequence_variables', 'special_prefixes[n] = '
                  'statistics', 'statistic names are not registered as '
                  'special prefixes', node=sv.node)
    for n in names:
        if n not in assigned:
            r.finding(stat.where, f'{n}-<name>', f'the statistic {n} is '
                      'never assigned', node=stat.node, ctx=stat)
    # special prefix handlers accept (self, suffix, key)
    _, sp = model.lookup_class_attr(sv, 'special_prefixes')
    if isinstance(sp, ast.Dict):
        for k, v in zip(sp.keys, sp.values):
            if isinstance(v, ast.Name) and v.id in sv.methods:
                np_ = len(sv.methods[v.id].params())
                r.instance('DT_InSV:sequence_variables',
                           f'{k.value!r}: {v.id}/{np_}')
                if np_ != 3:
                    r.finding(sv.methods[v.id].where, f'def {v.id}',
                              'special-prefix handler does not take '
                              '(self, suffix, key)',
                              node=sv.methods[v.id].node)
    r.require_floor(15)
    return r


def rule_empty(model):
    r = RuleResult('C10.R4', 'an empty sequence renders the else body (or '
                   'nothing) before anything is pushed')
    for q in ('InClass.renderwb', 'InClass.renderwob'):
        fi = model.func('DT_In', q)
        probe = None
        for n in fi.node.body:
            if isinstance(n, ast.Try) and len(n.body) == 1 and \
                    isinstance(n.body[0], ast.Expr) and \
                    isinstance(n.body[0].value, ast.Subscript) and \
                    isinstance(n.body[0].value.slice, ast.Constant) and \
                    n.body[0].value.slice.value == 0:
                probe = n
                break
        if probe is None:
            r.instance(fi.where, 'emptiness probe', 'MISSING')
            r.finding(fi.where, 'try: sequence[0]', 'no emptiness probe at '
                      'the top of the renderer', node=fi.node, ctx=fi)
            continue
        h = probe.handlers[0] if probe.handlers else None
        rets = [x for x in ast.walk(h) if isinstance(x, ast.Return)] \
            if h else []
        # what the handler returns: the arms of conditional expressions
        # count separately, a local bound once to self.elses is self.elses
        alias_ = {x.targets[0].id for x in own_nodes(fi.node)
                  if isinstance(x, ast.Assign) and len(x.targets) == 1 and
                  isinstance(x.targets[0], ast.Name) and
                  norm(x.value) == 'self.elses'}
        vals_ = []
        for x in rets:
            if x.value is None:
                continue
            vals_ += [x.value.body, x.value.orelse] if isinstance(
                x.value, ast.IfExp) else [x.value]
        # the probe in an inlined helper that hands the text back: its
        # returns were lowered to assignments of the result (normalise.N2
        # marks them)
        if h is not None:
            for x in ast.walk(h):
                if isinstance(x, ast.Assign) and getattr(x, '_dt_ret',
                                                         None):
                    vals_ += [x.value.body, x.value.orelse] if isinstance(
                        x.value, ast.IfExp) else [x.value]
        ok = h is not None and 'IndexError' in norm(h.type) and \
            len(vals_) >= 2
        elses = any('self.elses' in norm(v) or any(
            isinstance(y, ast.Name) and y.id in alias_ for y in ast.walk(v))
            for v in vals_)
        empty = any(isinstance(v, ast.Constant) and v.value == ''
                    for v in vals_)
        r.instance(fi.where, f'except {norm(h.type) if h else None}',
                   'else/empty' if ok and elses and empty else 'WRONG')
        if not (ok and elses and empty):
            r.finding(fi.where, 'empty-sequence handler', 'an empty '
                      'sequence does not render exactly the else body (or '
                      'nothing)', node=probe, ctx=fi)
        # no push before the probe, and no way out before it: whether the
        # else body is rendered depends on the sequence alone
        idx = fi.node.body.index(probe)
        for st in fi.node.body[:idx]:
            for c in ast.walk(st):
                if isinstance(c, ast.Return):
                    r.instance(fi.where, c, 'EXIT BEFORE THE PROBE')
                    r.finding(fi.where, c, 'the renderer can return before '
                              'the emptiness probe: for an empty sequence '
                              'the else body is then not rendered (the two '
                              'renderers disagree)', node=c, ctx=fi)
        for st in fi.node.body[:idx]:
            for c in ast.walk(st):
                if isinstance(c, ast.Call) and 'push' in norm(c.func):
                    r.finding(fi.where, c, 'something is pushed before the '
                              'emptiness probe', node=c, ctx=fi)
    return r


def _push_fragment(model, fi, lp):
    """Per-item statements from the element type test up to (excluding) the
    statement that renders the section."""
    import copy
    # the element variable and its copies; the variable holding its type
    elem = set()
    for st in ast.walk(lp):
        if isinstance(st, ast.Assign) and len(st.targets) == 1 and \
                isinstance(st.targets[0], ast.Name):
            v = st.value
            if (isinstance(v, ast.Subscript) and
                    norm(v.slice) == norm(lp.target)) or (
                    isinstance(v, ast.Call) and len(v.args) == 2 and
                    norm(v.args[1]) == norm(lp.target)):
                elem.add(st.targets[0].id)
    for _ in range(3):
        for st in ast.walk(lp):
            if isinstance(st, ast.Assign) and len(st.targets) == 1 and \
                    isinstance(st.targets[0], ast.Name) and \
                    isinstance(st.value, ast.Name) and st.value.id in elem:
                elem.add(st.targets[0].id)
    tvars = set()
    for st in ast.walk(lp):
        if isinstance(st, ast.Assign) and len(st.targets) == 1 and \
                isinstance(st.targets[0], ast.Name) and \
                isinstance(st.value, ast.Call) and \
                norm(st.value.func) == 'type' and st.value.args and \
                norm(st.value.args[0]) in elem:
            tvars.add(st.targets[0].id)
    mapping = {e: ast.Name(id='client', ctx=ast.Load()) for e in elem}
    mapping.update({t: ast.Name(id='t', ctx=ast.Load()) for t in tvars})

    class _Canon(ast.NodeTransformer):
        def visit_Name(self, node):
            if node.id in mapping:
                return ast.copy_location(
                    ast.Name(id=mapping[node.id].id, ctx=node.ctx), node)
            return node
    out = []
    take = False
    for st in lp.body:
        if any(isinstance(c, ast.Call) and '_DocumentTemplate:render_blocks'
               in model.callee_names(c, fi) for c in ast.walk(st)):
            break
        st2 = _Canon().visit(copy.deepcopy(st))
        if isinstance(st2, ast.Assign) and 'type(client)' in norm(st2):
            take = True
        if take:
            if isinstance(st2, ast.Assign) and \
                    norm(st2) == 'client = client':
                continue
            out.append(st2)
    return out


class _Subst(ast.NodeTransformer):
    def __init__(self, mapping):
        self.mapping = mapping

    def visit_Name(self, node):
        if node.id in self.mapping:
            import copy
            return copy.deepcopy(self.mapping[node.id])
        return node


def inline_body(model, fi, call):
    """Body of the repo function `call` resolves to (a plain function of
    the same package), with the call's arguments substituted for its
    parameters; None when the callee is not such a function."""
    import copy
    tg = model.resolve_callee(call.func, fi)
    if len(tg) != 1 or tg[0][0] != 'func':
        return None
    h = tg[0][1]
    if h is fi or call.keywords or any(
            isinstance(a, ast.Starred) for a in call.args):
        return None
    params = h.params()
    if h.cls is not None and isinstance(call.func, ast.Attribute):
        params = params[1:]
    if len(params) < len(call.args):
        return None
    assigned = {n.id for n in ast.walk(h.node) if isinstance(n, ast.Name)
                and isinstance(n.ctx, ast.Store)}
    mapping = {p: a for p, a in zip(params, call.args)
               if p not in assigned}
    return [_Subst(mapping).visit(copy.deepcopy(s)) for s in h.node.body]


class _TS(BaseState):
    __slots__ = ('pushes', 'split', 'trace', 'cur_exc')

    def __init__(self, pushes=(), split=False):
        self.pushes = pushes
        self.split = split
        self.trace = ()
        self.cur_exc = None

    def key(self):
        return (self.pushes, self.split)

    def copy(self):
        n = _TS(self.pushes, self.split)
        n.trace = self.trace
        return n


class _TableDomain(Domain):
    """Evaluates the push decision under one truth assignment of the atoms
    no_push_item / mapping / text element / 2-tuple element."""

    def __init__(self, assign, model=None, fi=None):
        self.assign = assign
        self.model = model
        self.fi = fi

    def simple(self, stmt, st):
        # a decision moved into a helper is evaluated in place, with the
        # arguments substituted for the helper's parameters
        if self.model is not None:
            for c in ast.walk(stmt):
                if not isinstance(c, ast.Call):
                    continue
                body = inline_body(self.model, self.fi, c)
                if body is None:
                    continue
                from ..flow import Outcome
                outs = Interp(self).block(body, st)
                return [Outcome('normal', o.state) for o in outs
                        if o.kind in ('normal', 'return')]
        return Domain.simple(self, stmt, st)

    def atom(self, test):
        t = norm(test)
        table = {'no_push_item': 'npi', 'mapping': 'mapping',
                 't in StringTypes': 'text',
                 'isinstance(client, StringTypes)': 'text'}
        if t in table:
            return self.assign[table[t]]
        if t == 't not in StringTypes':
            return not self.assign['text']
        if 'len(client) == 2' in t:
            return self.assign['pair']
        if t in ('t is TupleType', 't is tuple',
                 'isinstance(client, tuple)'):
            return self.assign['pair']
        return None

    def branch(self, test, st):
        v = self.atom(test)
        if v is None:
            return [(True, st), (False, st)]
        return [(v, st)]

    def effects(self, stmt, st):
        ns = st
        for n in ast.walk(stmt):
            if isinstance(n, ast.Call) and n.args and \
                    norm(n.func) in ('push', 'md._push'):
                a = norm(n.args[0])
                kind = 'element' if a == 'client' else (
                    'InstanceDict' if a == 'InstanceDict(client, md)'
                    else 'other:' + a)
                ns = _TS(ns.pushes + (kind,), ns.split)
            if isinstance(n, ast.Assign) and norm(n) == 'client = client[1]':
                ns = _TS(ns.pushes, True)
        return ns


def _decision_table(model, fi, lp):
    import itertools
    frag = _push_fragment(model, fi, lp)
    if not frag:
        raise AnalysisError(f'{fi.where}: per-item push decision not found')
    table = {}
    for npi, mapping, text, pair in itertools.product([False, True],
                                                      repeat=4):
        dom = _TableDomain({'npi': npi, 'mapping': mapping, 'text': text,
                            'pair': pair}, model, fi)
        outs = Interp(dom).block(frag, _TS())
        res = sorted({(o.state.pushes, o.state.split) for o in outs
                      if o.kind == 'normal'})
        table[(npi, mapping, text, pair)] = res
    return frag, table


def rule_twins(model):
    r = RuleResult('C10.R5', 'what is pushed per item (nothing / the mapping '
                   '/ nothing for text / InstanceDict of the element) and '
                   'the (key, item) split are decided identically by both '
                   'renderers')
    (fa, la), (fb, lb) = _loops(model)
    fra, ta = _decision_table(model, fa, la)
    frb, tb = _decision_table(model, fb, lb)
    r.instance(fa.where, ' ; '.join(norm(s) for s in fra)[:150])
    r.instance(fb.where, ' ; '.join(norm(s) for s in frb)[:150])
    if ta != tb:
        diff = [k for k in ta if ta[k] != tb[k]]
        r.finding(fb.where, 'per-item push decision', 'the batched and the '
                  'unbatched renderer disagree on what is pushed for an '
                  f'item (cases no_push_item/mapping/text/pair {diff[:3]})',
                  node=frb[0], ctx=fb)
    for (npi, mapping, text, pair), res in sorted(ta.items()):
        if npi:
            want = ()
        elif mapping:
            want = ('element',)
        elif text:
            want = ()
        else:
            want = ('InstanceDict',)
        ok = res == [(want, pair)]
        if not ok:
            r.finding(fa.where, f'push decision for no_push_item={npi} '
                      f'mapping={mapping} text={text} pair={pair}',
                      f'pushes {res} instead of {want} (with the (key, '
                      f'item) pair split={pair}): element attributes / keys '
                      'are (in)visible in the body contrary to the '
                      'documented options', node=fra[0], ctx=fa)
    r.instance(fa.where, f'{len(ta)} option combinations evaluated',
               'decision table')
    # per-item variables: the (key, item) pair is split before the item is
    # read by name
    val = model.func('DT_InSV', 'sequence_variables.value')
    split_i = read_i = None
    namep = val.params()[2]
    for i, st in enumerate(val.node.body):
        if split_i is None and any(
                isinstance(x, (ast.If, ast.IfExp)) and any(
                    isinstance(y, ast.Compare) and isinstance(
                        y.left, ast.Call) and norm(y.left.func) == 'len'
                    and isinstance(y.comparators[0], ast.Constant) and
                    y.comparators[0].value == 2 for y in ast.walk(x.test))
                for x in ast.walk(st)):
            split_i = i
        # (a statement that holds both -- an inlined helper -- is judged
        # by the order of its own parts)
        reads = [x for x in ast.walk(st) if
                 (isinstance(x, ast.Subscript) and isinstance(
                     x.ctx, ast.Load) and norm(x.slice) == namep) or
                 (isinstance(x, ast.Call) and norm(x.func) == 'getattr' and
                  len(x.args) >= 2 and norm(x.args[1]) == namep)]
        if reads and read_i is None:
            read_i = i if split_i is None or split_i < i else i + 0.5
    r.instance(val.where, f'split @{split_i}, read by name @{read_i}')
    if split_i is None or read_i is None:
        raise AnalysisError('sequence_variables.value: split / read not '
                            'found')
    if read_i <= split_i:
        r.finding(val.where, 'item read before the pair split', 'the '
                  'element is read by name before a (key, item) pair is '
                  'split: sequence-var-x / first-x / last-x fail or read '
                  'the pair for 2-tuple elements', node=val.node, ctx=val)
    return r


def _inl(rule):
    """The loop / emptiness / push-decision rules follow paths through the
    two renderers: they run on the view in which helpers that are new
    w.r.t. the reference tree are inlined (normalise.N2)."""
    def run(model):
        return rule(model.inlined_view())
    run.__name__ = rule.__name__
    return run


def _is_tuple_type(model, fi, e, _depth=0):
    """Does expression e denote the type `tuple`?"""
    if isinstance(e, ast.Name):
        if e.id == 'tuple':
            return True
        if _depth > 3:
            return False
        d = model.param_default(fi, e.id)
        if d is not None:
            return _is_tuple_type(model, fi, d, _depth + 1)
        defs = model.local_defs(fi, e.id)
        if defs:
            return all(isinstance(x, ast.AST) and
                       _is_tuple_type(model, fi, x, _depth + 1)
                       for x in defs)
        vals = fi.module.globals.get(e.id) or []
        return bool(vals) and all(_is_tuple_type(model, fi, v, _depth + 1)
                                  for v in vals)
    if isinstance(e, ast.Call) and isinstance(e.func, ast.Name) and \
            e.func.id == 'type' and len(e.args) == 1 and \
            isinstance(e.args[0], ast.Tuple):
        return True
    return False


def _tuple_test_of(model, fi, test, subject):
    """Is `test` (one conjunct) a test that `subject` is a tuple?"""
    if isinstance(test, ast.Call) and isinstance(test.func, ast.Name) and \
            test.func.id == 'isinstance' and len(test.args) == 2 and \
            norm(test.args[0]) == subject:
        return _is_tuple_type(model, fi, test.args[1])
    if isinstance(test, ast.Compare) and len(test.ops) == 1 and \
            isinstance(test.ops[0], (ast.Is, ast.Eq)):
        a, b = test.left, test.comparators[0]
        for x, y in ((a, b), (b, a)):
            if not _is_tuple_type(model, fi, y):
                continue
            if isinstance(x, ast.Call) and isinstance(x.func, ast.Name) \
                    and x.func.id == 'type' and len(x.args) == 1 and \
                    norm(x.args[0]) == subject:
                return True
            if isinstance(x, ast.Name):
                defs = model.local_defs(fi, x.id)
                if defs and all(
                        isinstance(d, ast.Call) and
                        isinstance(d.func, ast.Name) and d.func.id == 'type'
                        and len(d.args) == 1 and norm(d.args[0]) == subject
                        for d in defs):
                    return True
    return False


def _conjuncts(test):
    if isinstance(test, ast.BoolOp) and isinstance(test.op, ast.And):
        out = []
        for v in test.values:
            out += _conjuncts(v)
        return out
    return [test]


def rule_pair_predicate(model):
    r = RuleResult('C10.R7', 'an element is split into (key, item) only '
                   'when it is a tuple of length 2: every length-2 test on '
                   'an element is conjoined with a tuple type test (a '
                   'two-element list or other sequence stays the item)')
    n = 0
    for fi in model.all_funcs():
        if fi.module.short not in ('DT_In', 'DT_InSV'):
            continue
        for x in own_nodes(fi.node):
            if isinstance(x, ast.Match):
                for c in x.cases:
                    p = c.pattern
                    if isinstance(p, ast.MatchSequence) and \
                            len(p.patterns) == 2 and not any(
                                isinstance(q, ast.MatchStar)
                                for q in p.patterns):
                        n += 1
                        subj = norm(x.subject)
                        ok = c.guard is not None and any(
                            _tuple_test_of(model, fi, t, subj)
                            for t in _conjuncts(c.guard))
                        r.instance(fi.where, f'case {norm(p)}',
                                   'tuple' if ok else 'ANY SEQUENCE')
                        if not ok:
                            r.finding(fi.where, f'match {subj}: case '
                                      f'{norm(p)}', 'a sequence pattern '
                                      'matches every two-element sequence '
                                      '(lists, ranges ...), not only '
                                      '2-tuples: such an element is split '
                                      'and sequence-item is no longer the '
                                      'element', node=c.pattern, ctx=fi)
                continue
            if not (isinstance(x, ast.Compare) and len(x.ops) == 1 and
                    isinstance(x.ops[0], ast.Eq) and
                    isinstance(x.left, ast.Call) and
                    isinstance(x.left.func, ast.Name) and
                    x.left.func.id == 'len' and len(x.left.args) == 1 and
                    isinstance(x.comparators[0], ast.Constant) and
                    x.comparators[0].value == 2):
                continue
            subj_e = x.left.args[0]
            if not isinstance(subj_e, ast.Name):
                continue
            defs = model.local_defs(fi, subj_e.id)
            elem = any(
                (isinstance(d, tuple) and d[0] == 'iter') or
                isinstance(d, ast.Subscript) or
                (isinstance(d, ast.Call) and 'getitem' in norm(d.func))
                for d in defs)
            if not elem:
                continue
            n += 1
            subj = subj_e.id
            tests = []
            node = x
            for anc in ancestors(x):
                if isinstance(anc, ast.BoolOp) and \
                        isinstance(anc.op, ast.And):
                    tests += [v for v in anc.values if v is not node]
                elif isinstance(anc, (ast.If, ast.IfExp)):
                    if node is not anc.test and node in getattr(
                            anc, 'body', []) or (
                            isinstance(anc, ast.IfExp) and
                            node is anc.body):
                        tests += _conjuncts(anc.test)
                elif isinstance(anc, (ast.FunctionDef, ast.Lambda)):
                    break
                node = anc
            ok = any(_tuple_test_of(model, fi, t, subj) for t in tests)
            r.instance(fi.where, x, 'tuple test conjoined' if ok
                       else 'NO TUPLE TEST')
            if not ok:
                r.finding(fi.where, x, f'`{subj}` is treated as a (key, '
                          'item) pair because it has length 2, without '
                          'testing that it is a tuple', node=x, ctx=fi)
    # a predicate helper: def is_pair(ob): return <...> and len(ob) == 2
    for fi in model.all_funcs():
        if fi.module.short not in ('DT_In', 'DT_InSV', 'DT_Util'):
            continue
        ps = set(fi.params())
        for x in own_nodes(fi.node):
            if not (isinstance(x, ast.Return) and x.value is not None):
                continue
            lens = [c for c in ast.walk(x.value)
                    if isinstance(c, ast.Compare) and len(c.ops) == 1 and
                    isinstance(c.ops[0], ast.Eq) and
                    isinstance(c.left, ast.Call) and
                    norm(c.left.func) == 'len' and c.left.args and
                    isinstance(c.left.args[0], ast.Name) and
                    c.left.args[0].id in ps and
                    isinstance(c.comparators[0], ast.Constant) and
                    c.comparators[0].value == 2]
            for c in lens:
                subj = c.left.args[0].id
                n += 1
                ok = any(_tuple_test_of(model, fi, t, subj)
                         for t in _conjuncts(x.value))
                r.instance(fi.where, x, 'tuple test conjoined' if ok
                           else 'NO TUPLE TEST')
                if not ok:
                    r.finding(fi.where, x, f'the pair predicate accepts '
                              f'`{subj}` because it has length 2 without '
                              'requiring a tuple: two-element lists, and '
                              'two-byte bytes values, are split into key '
                              'and item', node=x, ctx=fi)
    if n < 4:
        raise AnalysisError(f'C10.R7: only {n} pair tests found (floor 4)')
    return r


def rule_absent_vs_none(model):
    r = RuleResult('C10.R8', 'an attribute of the element is visible in the '
                   'body whatever its value: the wrapper pushed for an '
                   'element reports "no such name" (KeyError) only when the '
                   'attribute read itself failed, never because of the '
                   'value it returned (None, 0, "" are values)')
    fi = model.func('_DocumentTemplate', 'InstanceDict.__getitem__')
    reads = [n for n in own_nodes(fi.node) if isinstance(n, ast.Call) and
             n.args and norm(n.args[0]) == 'self.inst' and
             len(n.args) >= 2]
    if not reads:
        raise AnalysisError('C10.R8: the attribute read of '
                            'InstanceDict.__getitem__ was not found')
    from ..model import parent as _parent
    results = set()
    for c in reads:
        par = _parent(c)
        if isinstance(par, ast.Assign):
            for t in par.targets:
                if isinstance(t, ast.Name):
                    results.add(t.id)
        if len(c.args) >= 3:
            d = c.args[2]
            sentinel = isinstance(d, ast.Name) and any(
                isinstance(v, ast.Call) or isinstance(v, (ast.List,
                                                         ast.Dict))
                for v in fi.module.globals.get(d.id, []))
            r.instance(fi.where, c, 'unique sentinel default' if sentinel
                       else 'VALUE AS DEFAULT')
            if not sentinel:
                r.finding(fi.where, c, f'the attribute is read with the '
                          f'default `{norm(d)}`, a value an attribute can '
                          'have: such an attribute cannot be told from a '
                          'missing one', node=c, ctx=fi)
        else:
            r.instance(fi.where, c, 'raises when missing')
    for x in own_nodes(fi.node):
        if not isinstance(x, ast.Raise):
            continue
        node = x
        for anc in ancestors(x):
            if isinstance(anc, ast.If) and node in anc.body + anc.orelse \
                    and any(isinstance(y, ast.Name) and y.id in results
                            for y in ast.walk(anc.test)):
                # a test of the value read; fine only against a sentinel
                sent = any(
                    isinstance(y, ast.Compare) and isinstance(
                        y.ops[0], (ast.Is, ast.IsNot)) and isinstance(
                        y.comparators[0], ast.Name) and any(
                        isinstance(v, (ast.Call, ast.List, ast.Dict))
                        for v in fi.module.globals.get(
                            y.comparators[0].id, []))
                    for y in ast.walk(anc.test))
                r.instance(fi.where, anc.test, 'sentinel test' if sent
                           else 'VALUE TEST')
                if not sent:
                    r.finding(fi.where, f'if {norm(anc.test)}: '
                              f'{norm(x)}', 'the name is reported as '
                              'undefined depending on the VALUE of the '
                              'attribute: an element attribute that is '
                              'None (or false) is invisible in the body and '
                              'the lookup falls through to outer sources',
                              node=x, ctx=fi)
            if isinstance(anc, (ast.FunctionDef, ast.Lambda)):
                break
            node = anc
    return r


def rule_skip_scope(model):
    r = RuleResult('C10.R9', 'a refused element is skipped (or the refusal '
                   'reported) only for the element fetch: the handler that '
                   'implements skip_unauthorized guards nothing but the '
                   'guarded read of the element -- in particular not the '
                   'rendering of the body, whose own Unauthorized errors '
                   'must propagate and whose output must not be torn')
    n = 0
    for fi, lp in _loops(model):
        for t in [x for x in ast.walk(lp) if isinstance(x, ast.Try)]:
            skipping = [h for h in t.handlers if any(
                isinstance(y, ast.Continue) for y in ast.walk(h))]
            if not skipping:
                continue
            n += 1
            renders = [c for b in t.body for c in ast.walk(b)
                       if isinstance(c, ast.Call) and any(
                           w.startswith('_DocumentTemplate:render_blocks')
                           for w in model.callee_names(c, fi))]
            pushes = [c for b in t.body for c in ast.walk(b)
                      if isinstance(c, ast.Call) and (
                          norm(c.func).endswith('_push') or
                          norm(c.func) == 'push')]
            ok = not renders and not pushes
            r.instance(fi.where, 'try: ' + norm(t.body[0])[:80],
                       'element fetch only' if ok else 'COVERS MORE')
            if not ok:
                what = 'the rendering of the body' if renders else \
                    'the per-element push'
                r.finding(fi.where, 'skip handler covers ' + what,
                          f'the handler that skips a refused element also '
                          f'covers {what}: an error raised while the body '
                          'is rendered is taken for a refused element -- '
                          'the element is silently skipped, with whatever '
                          'part of its body was already emitted left in the '
                          'output', node=t, ctx=fi)
    if n < 2:
        raise AnalysisError(f'C10.R9: only {n} skip handlers found in the '
                            'item loops')
    return r


class _StS(BaseState):
    __slots__ = ('plain', 'alias', 'trace', 'cur_exc')

    def __init__(self, plain=False, alias=False):
        self.plain, self.alias = plain, alias
        self.trace = ()
        self.cur_exc = None

    def key(self):
        return (self.plain, self.alias)

    def copy(self):
        n = _StS(self.plain, self.alias)
        n.trace = self.trace
        return n


class _StoreBoth(Domain):
    def __init__(self, maps, name):
        self.maps, self.name = maps, name

    def effects(self, stmt, st):
        for t in (stmt.targets if isinstance(stmt, ast.Assign) else []):
            if isinstance(t, ast.Subscript) and norm(t.value) in self.maps:
                st = st.copy()
                if norm(t.slice) == self.name:
                    st.plain = True
                else:
                    st.alias = True
        return st


def rule_prefix_store(model):
    r = RuleResult('C10.R10', 'the prefix-aware mapping stores every '
                   'variable it is given, under its plain name and under '
                   'its alias, on every path (no early return that skips a '
                   'store: a value that is None, or equal to what a lookup '
                   'of an absent key answers, would never be written)')
    ci = model.modules['DT_Util'].classes.get('Add_with_prefix')
    fi = ci.methods.get('__setitem__') if ci else None
    if fi is None:
        raise AnalysisError('C10.R10: Add_with_prefix.__setitem__ not found')
    ps = fi.params()
    maps = {'self.map'}
    for x in own_nodes(fi.node):
        if isinstance(x, ast.Assign) and norm(x.value) == 'self.map' and \
                isinstance(x.targets[0], ast.Name):
            maps.add(x.targets[0].id)
    outs = Interp(_StoreBoth(maps, ps[1])).run(fi.node, _StS())
    exits = [o for o in outs if o.kind in ('normal', 'return')]
    if not exits:
        raise AnalysisError('C10.R10: __setitem__ has no normal exit')
    for o in exits:
        what = norm(o.node) if o.node is not None else 'end of function'
        ok = o.state.plain and o.state.alias
        r.instance(fi.where, what, 'both stored' if ok else
                   f'plain={o.state.plain} alias={o.state.alias}')
        if not ok:
            r.finding(fi.where, f'exit `{what}` without both stores',
                      '__setitem__ can finish without storing the value '
                      'under ' + ('its plain name' if not o.state.plain
                                  else 'its prefix alias') +
                      ': a loop variable (the `mapping` flag, a preset) is '
                      'then missing from the variable object and resolves '
                      'from an outer loop or raises KeyError',
                      node=o.node or fi.node, ctx=fi, path=o.state.trace)
    return r


def rule_own_namespace(model):
    r = RuleResult('C10.R6', 'the variable object dtml-in pushes answers a '
                   'key without a dash only when a non-empty prefix= alias '
                   'is configured and the key starts with it: the tag binds '
                   'nothing but its documented names')
    from .. import prefixns
    return prefixns.fill_rule(r, model)


class _MS(BaseState):
    def __init__(self):
        pass

    def key(self):
        return ()

    def copy(self):
        n = _MS()
        n.trace = self.trace
        return n


class _MappingDomain(Domain):
    """One function, with the mapping flag known."""

    def __init__(self, flags, value):
        self.flags, self.value = flags, value
        self.attr_reads, self.item_reads = [], []

    def branch(self, test, st):
        if norm(test) in self.flags:
            return [(self.value, st)]
        return [(True, st), (False, st)]

    def _scan(self, node):
        for x in ast.walk(node):
            if isinstance(x, ast.Call) and isinstance(x.func, ast.Name) and \
                    x.func.id == 'getattr' and len(x.args) >= 2 and \
                    isinstance(x.args[0], ast.Name) and \
                    isinstance(x.args[1], ast.Name):
                self.attr_reads.append((x.args[0].id, x.args[1].id, x))
            elif isinstance(x, ast.Subscript) and isinstance(
                    x.ctx, ast.Load) and isinstance(x.value, ast.Name) and \
                    isinstance(x.slice, ast.Name):
                self.item_reads.append((x.value.id, x.slice.id, x))

    def raises(self, node, st):
        self._scan(node)
        out = []
        for x in ast.walk(node):
            if isinstance(x, ast.Call) and norm(x.func) == 'getattr':
                out.append('AttributeError')
            elif isinstance(x, ast.Subscript) and isinstance(x.ctx,
                                                             ast.Load):
                out += ['KeyError', 'IndexError']
            elif isinstance(x, ast.Call):
                out.append(ANY_)
        return sorted(set(out))

    def effects(self, stmt, st):
        self._scan(stmt)
        return st

    def on_return(self, node, st):
        if node.value is None:
            return [], st
        return self.raises(node.value, st), st


def rule_access_kind(model):
    r = RuleResult('C10.R11', 'how a named field of an element is read is '
                   'decided by the mapping option alone: with mapping the '
                   'element is subscripted and never asked for an '
                   'attribute, without it the attribute is read and the '
                   'element never subscripted (an element that has both -- '
                   'a dict key called "items" -- must not answer with the '
                   'wrong one)')
    n = 0
    for mod in ('DT_InSV', 'DT_In'):
        for fi in model.module(mod).funcs.values():
            flags = set()
            for x in own_nodes(fi.node):
                t = norm(x) if isinstance(x, (ast.Subscript, ast.Attribute,
                                              ast.Name)) else ''
                if t.endswith("['mapping']") or t == 'self.mapping':
                    flags.add(t)
            for x in own_nodes(fi.node):
                if isinstance(x, ast.Assign) and len(x.targets) == 1 and \
                        isinstance(x.targets[0], ast.Name) and \
                        norm(x.value) in flags:
                    flags.add(x.targets[0].id)
            if 'mapping' in fi.params():
                flags.add('mapping')
            if not flags:
                continue
            res = {}
            for val in (True, False):
                dom = _MappingDomain(flags, val)
                Interp(dom).run(fi.node, _MS())
                res[val] = dom
            pairs = {(a, k) for a, k, _ in res[True].attr_reads +
                     res[False].attr_reads} & {
                (a, k) for a, k, _ in res[True].item_reads +
                res[False].item_reads}
            for a, k in sorted(pairs):
                n += 1
                wrong_t = [x for a2, k2, x in res[True].attr_reads
                           if (a2, k2) == (a, k)]
                wrong_f = [x for a2, k2, x in res[False].item_reads
                           if (a2, k2) == (a, k)]
                r.instance(fi.where, f'{a}[{k}] / getattr({a}, {k})',
                           'by the option' if not (wrong_t or wrong_f)
                           else 'MIXED')
                if wrong_t:
                    r.finding(fi.where, wrong_t[0], f'with the mapping '
                              f'option the field {k} of the element is '
                              'still read as an attribute: a key that is '
                              'also an attribute or method of the element '
                              'type (items, values, copy ...) answers with '
                              'the attribute', node=wrong_t[0], ctx=fi)
                if wrong_f:
                    r.finding(fi.where, wrong_f[0], f'without the mapping '
                              f'option the element is subscripted with {k}',
                              node=wrong_f[0], ctx=fi)
    # ... and the option reaches the variables object in both renderers:
    # data['mapping'] is set from the tag's mapping attribute
    mi = model.inlined_view()
    for q in ('InClass.renderwb', 'InClass.renderwob'):
        fi = mi.func('DT_In', q)
        stores = [x for x in own_nodes(fi.node) if isinstance(x, ast.Assign)
                  and any(isinstance(t, ast.Subscript) and isinstance(
                      t.slice, ast.Constant) and t.slice.value == 'mapping'
                      for t in x.targets)]

        def from_option(v, depth=0):
            if norm(v) == 'self.mapping':
                return True
            if isinstance(v, ast.Name) and depth < 3:
                ds = mi.local_defs(fi, v.id)
                return bool(ds) and all(isinstance(d, ast.AST) and
                                        from_option(d, depth + 1)
                                        for d in ds)
            return False
        ok = bool(stores) and all(from_option(x.value) for x in stores)
        r.instance(fi.where, stores[0] if stores else "data['mapping']",
                   'from the mapping option' if ok else 'NOT THE OPTION')
        if not ok:
            r.finding(fi.where, stores[0] if stores else
                      "data['mapping'] = ...", 'the variables object of '
                      'this renderer is not told the mapping option '
                      "(data['mapping'] is missing or not the tag's "
                      'mapping attribute): sequence-var-x, first-x and the '
                      'statistics read attributes from mapping elements',
                      node=stores[0] if stores else fi.node, ctx=fi)
    if n < 2:
        raise AnalysisError(f'C10.R11: only {n} mapping / attribute access '
                            'twins found')
    r.floor = 2
    return r


def rule_option_independence(model):
    r = RuleResult('C10.R12', 'a switch of dtml-in (mapping, no_push_item, '
                   'reverse ...) is taken from the tag whenever it is '
                   'written there: the copy into the tag object is guarded '
                   'by the presence of that option alone, not by another '
                   'option (mapping also decides how sort keys and '
                   'statistics read the elements, whatever is pushed)')
    fi = model.func('DT_In', 'InClass.__init__')
    n = 0
    for x in own_nodes(fi.node):
        opt = None
        if isinstance(x, ast.Assign) and len(x.targets) == 1 and \
                isinstance(x.targets[0], ast.Attribute) and \
                norm(x.targets[0].value) == 'self' and \
                isinstance(x.value, ast.Subscript) and \
                isinstance(x.value.slice, ast.Constant) and \
                x.value.slice.value == x.targets[0].attr:
            opt = x.targets[0].attr
            n += 1
        elif isinstance(x, ast.Call) and norm(x.func) == 'setattr' and \
                len(x.args) == 3 and norm(x.args[0]) == 'self' and \
                isinstance(x.args[1], ast.Name) and isinstance(
                    x.args[2], ast.Subscript) and \
                norm(x.args[2].slice) == x.args[1].id:
            # for option in ('reverse', 'mapping'): if option in args:
            #     setattr(self, option, args[option])
            lp = next((a for a in ancestors(x) if isinstance(a, ast.For)
                       and norm(a.target) == x.args[1].id), None)
            okf, vals = model.fold(lp.iter, fi) if lp is not None \
                else (False, None)
            if okf and isinstance(vals, (tuple, list)):
                opt = '/'.join(vals)
                n += len(vals)
        if opt is None:
            continue
        extra = []
        for a in ancestors(x):
            if isinstance(a, (ast.FunctionDef, ast.AsyncFunctionDef)):
                break
            if isinstance(a, ast.If):
                others = [y for y in ast.walk(a.test)
                          if (isinstance(y, ast.Constant) and isinstance(
                              y.value, str) and y.value != opt and
                              y.value not in opt.split('/')) or
                          (isinstance(y, ast.Attribute) and norm(
                              y.value) == 'self')]
                if others:
                    extra.append((a, others[0]))
        r.instance(fi.where, x, 'own presence only' if not extra
                   else 'DEPENDS ON ANOTHER OPTION')
        for a, o in extra:
            r.finding(fi.where, f'if {norm(a.test)}', f'the option {opt} is '
                      'only taken over when another option / attribute '
                      f'(`{norm(o)}`) allows it: written together with that '
                      f'one, {opt} is silently ignored', node=a, ctx=fi)
    if n < 3:
        raise AnalysisError(f'C10.R12: only {n} option copies found in '
                            'InClass.__init__')
    r.floor = 3
    return r


RULES = [_inl(rule_index), _inl(rule_prefix), _inl(rule_providers),
         _inl(rule_empty),
         _inl(rule_twins), _inl(rule_own_namespace),
         rule_pair_predicate, _inl(rule_absent_vs_none),
         _inl(rule_skip_scope), rule_prefix_store, rule_access_kind,
         _inl(rule_option_independence)]
EXPLANATION = (
    'Loop-bound agreement (linear forms) for index uses and first/last '
    'markers; store-site query for prefix-aware keys; provider table for '
    'the documented variables and statistics; structure of the emptiness '
    'probe; AST twin comparison of the per-item push decision.')
ASSUMPTIONS = ['the documented *values* (number=index+1, letters, roman, '
               'even/odd, first-x/last-x run boundaries) are NOT decided']
TRUSTED = ['python ast']
