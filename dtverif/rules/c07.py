"""C07 -- the three surface syntaxes compile to one program (structural).

R1 one compiler: HTML (and subclasses) override only the scanner hooks
R2 the two parseTag siblings agree on every shared decision
R3 the scanner defines exactly the groups the reader reads
R4 entity desugaring constants; the SGML syntaxes carry no C format
"""
import ast

from ..core import AnalysisError
from ..core import RuleResult
from ..core import norm
from ..flow import BaseState
from ..flow import Domain
from ..flow import Interp
from ..model import own_nodes

HOOKS = {
    'tagre': 'scanner', 'parseTag': 'tag reader', 'SubTemplate':
    'section factory', 'varExtra': 'format suffix', 'errQuote':
    'error quoting', '__str__': 'source display',
}
UI = {'manage_edit', 'manage_editForm', 'manage_editDocument', 'manage',
      'management_interface', 'quotedHTML', 'manage_default', 'copy_class',
      'security', 'read_raw', '__init__', 'edited_source'}
CORE = ['parse', 'parse_block', 'parse_close', '_parseTag', 'skip_eol',
        'cook', '__call__', 'parse_error', 'commands', 'munge', 'read',
        'initvars', '__getstate__']


def rule_overrides(model):
    r = RuleResult('C07.R1', 'the syntaxes share one compiler and renderer: '
                   'subclasses of String override only the scanner hooks')
    S = model.cls('DT_String', 'String')
    subs = model.subclasses(S)
    if len(subs) < 3:
        raise AnalysisError('String subclasses not found')
    for c in subs + [model.cls('DT_String', 'FileMixin')]:
        own = set(c.methods) | set(c.attrs)
        for name in sorted(own):
            inherited = any(name in b.methods or name in b.attrs
                            for b in model.mro(S))
            if not inherited and name not in CORE:
                continue
            kind = HOOKS.get(name) or ('UI' if name in UI else None)
            r.instance(f'{c.module.short}:{c.name}', name,
                       kind or 'CORE OVERRIDE')
            if name in CORE or kind is None:
                r.finding(f'{c.module.short}:{c.name}.{name}',
                          f'override of {name}', f'{c.name} overrides '
                          f'String.{name}: the syntaxes no longer share one '
                          'compiler / renderer', node=c.node)
    for name in CORE:
        if name not in S.methods and name not in S.attrs:
            raise AnalysisError(f'String.{name} not found')
    r.require_floor(6)
    return r


def _decisions(fi):
    """Normalised shared decisions of a parseTag implementation."""
    rets, raises, tests = [], [], []
    for n in own_nodes(fi.node):
        if isinstance(n, ast.Return) and isinstance(n.value, ast.Tuple):
            rets.append(norm(n.value))
        elif isinstance(n, ast.Raise) and n.exc is not None:
            raises.append(norm(n.exc))
        elif isinstance(n, ast.If):
            tests.append(norm(n.test))
        elif isinstance(n, ast.ExceptHandler):
            tests.append('except ' + norm(n.type))
    return rets, raises, tests


class _PS(BaseState):
    """A path: the literals decided so far and local single assignments."""

    def __init__(self, lits=frozenset(), env=()):
        self.lits = lits
        self.env = env          # tuple of (name, text)

    def key(self):
        return (self.lits, self.env)

    def copy(self):
        n = _PS(self.lits, self.env)
        n.trace = self.trace
        return n


class _DecisionDomain(Domain):
    """Symbolic path enumeration of a tag reader in block-tag mode.  Every
    leaf test is an atom (its normalised text, with syntax-specific
    spellings of "this is an end tag" mapped to END); the lookup of the
    command table may raise KeyError (atom NOTAG)."""

    def __init__(self, fi):
        self.fi = fi
        self.outcomes = []

    def canon(self, e, st):
        t = norm(e)
        for name, text in st.env:
            pass
        if t in ("fmt == ']'", 'end'):
            return 'END', True
        if t in ("fmt != ']'", 'not end'):
            return 'END', False
        return t, True

    def branch(self, test, st):
        t = norm(test)
        # EPFS: every test of the format suffix is evaluated for the two
        # suffixes that have an SGML counterpart: ']' (end tag, atom END)
        # and '[' (block tag); the insertion form has none
        if isinstance(test, ast.Compare) and len(test.ops) == 1 and \
                isinstance(test.left, ast.Name) and test.left.id == 'fmt':
            c = test.comparators[0]
            vals = None
            if isinstance(c, ast.Constant) and isinstance(c.value, str):
                vals = c.value
            elif isinstance(c, (ast.Tuple, ast.List, ast.Set)) and all(
                    isinstance(x, ast.Constant) for x in c.elts):
                vals = [x.value for x in c.elts]
            if vals is not None:
                have = dict(st.lits)
                out = []
                for end in ([have['END']] if 'END' in have
                            else [True, False]):
                    ns = st.copy()
                    ns.lits = st.lits | {('END', end)}
                    fmt = ']' if end else '['
                    op = test.ops[0]
                    res = {ast.Eq: fmt == vals, ast.NotEq: fmt != vals,
                           ast.In: fmt in vals,
                           ast.NotIn: fmt not in vals}.get(type(op))
                    if res is None:
                        return [(True, st), (False, st)]
                    out.append((res, ns))
                return out
        atom, pos = self.canon(test, st)
        have = dict(st.lits)
        if atom in have:
            return [(have[atom] == pos, st)]
        out = []
        for v in (True, False):
            ns = st.copy()
            ns.lits = st.lits | {(atom, v)}
            out.append((v == pos, ns))
        return out

    def raises(self, node, st):
        return []

    def _text(self, e, st):
        t = norm(e)
        env = dict(st.env)
        if isinstance(e, ast.Tuple):
            return ', '.join(self._text(x, st) for x in e.elts)
        if isinstance(e, ast.Name) and e.id in env:
            return env[e.id]
        return t

    def simple(self, stmt, st):
        from ..flow import NORMAL, RAISE, Outcome
        # the command lookup may fail
        looks = [x for x in ast.walk(stmt) if isinstance(x, ast.Subscript)
                 and norm(x.value) == 'self.commands']
        if looks:
            have = dict(st.lits)
            outs = []
            for v in (True, False):
                if 'NOTAG' in have and have['NOTAG'] != v:
                    continue
                ns = st.copy()
                ns.lits = st.lits | {('NOTAG', v)}
                if v:
                    outs.append(Outcome(RAISE, ns, 'KeyError', stmt))
                else:
                    outs.append(Outcome(NORMAL, self.effects(stmt, ns)))
            return outs
        return [Outcome(NORMAL, self.effects(stmt, st))]

    def effects(self, stmt, st):
        if isinstance(stmt, ast.Assign) and len(stmt.targets) == 1 and \
                isinstance(stmt.targets[0], ast.Name):
            nm = stmt.targets[0].id
            if nm in ('args', 'tag', 'name', 'l_'):
                return st
            ns = st.copy()
            env = dict(st.env)
            env[nm] = self._text(stmt.value, st)
            ns.env = tuple(sorted(env.items()))
            return ns
        return st

    def on_return(self, node, st):
        if node.value is not None:
            self.outcomes.append((st.lits, 'return ' + self._text(node.value,
                                                                  st)))
        return [], st

    def on_raise(self, node, st):
        e = node.exc
        msg = norm(e.args[0]) if isinstance(e, ast.Call) and e.args \
            else norm(e)
        self.outcomes.append((st.lits, 'raise ' + msg))
        return 'ParseError'


class _DecisionInterp(Interp):
    """`return ..., self.commands[name], ...`: the lookup either fails
    (KeyError, atom NOTAG) or the value is returned."""

    def stmt(self, node, state):
        from ..flow import RAISE, Outcome
        if isinstance(node, ast.Return) and node.value is not None and any(
                isinstance(x, ast.Subscript) and
                norm(x.value) == 'self.commands'
                for x in ast.walk(node.value)):
            have = dict(state.lits)
            outs = []
            for v in (True, False):
                if 'NOTAG' in have and have['NOTAG'] != v:
                    continue
                ns = state.copy()
                ns.lits = state.lits | {('NOTAG', v)}
                if v:
                    outs.append(Outcome(RAISE, ns, 'KeyError', node))
                else:
                    outs += Interp.stmt(self, node, ns)
            return outs
        return Interp.stmt(self, node, state)


def _decision_paths(fi):
    dom = _DecisionDomain(fi)
    it = _DecisionInterp(dom)
    # skip the group unpacking prologue: start at the first If / Try
    body = list(fi.node.body)
    outs = it.run(fi.node, _PS())
    esc = [o for o in outs if o.kind == 'raise' and o.exc == 'KeyError']
    return dom.outcomes, esc


def rule_siblings(model):
    r = RuleResult('C07.R2', 'String.parseTag and HTML.parseTag take the '
                   'same decisions (end tag, continuation, else '
                   'compatibility, command lookup): for every truth '
                   'assignment of their tests both produce the same '
                   'result or error')
    a = model.func('DT_String', 'String.parseTag')
    b = model.func('DT_HTML', 'HTML.parseTag')
    pa, ea = _decision_paths(a)
    pb, eb = _decision_paths(b)
    r.instance(a.where, f'{len(pa)} decision paths: ' + ' | '.join(
        sorted({o for _, o in pa}))[:150], 'paths')
    r.instance(b.where, f'{len(pb)} decision paths: ' + ' | '.join(
        sorted({o for _, o in pb}))[:150], 'paths')
    if len(pa) < 4 or len(pb) < 4:
        raise AnalysisError('C07.R2: tag readers not understood '
                            f'({len(pa)} / {len(pb)} paths)')
    # a KeyError escaping the readers is part of the comparison too
    for lits, esc in ((pa, ea), (pb, eb)):
        for o in esc:
            lits.append((o.state.lits, 'raise KeyError'))
    reported = set()
    for la, oa in pa:
        da = dict(la)
        for lb, ob in pb:
            db = dict(lb)
            if any(k in db and db[k] != v for k, v in da.items()):
                continue            # not jointly satisfiable
            if oa != ob and (oa, ob) not in reported:
                reported.add((oa, ob))
                cond = ' & '.join((k if v else f'not ({k})')
                                  for k, v in sorted({**da, **db}.items()))
                r.finding(b.where, f'{oa}  <>  {ob}', 'the two tag readers '
                          f'decide differently when [{cond}]: the EPFS '
                          f'reader gives `{oa}`, the SGML reader `{ob}`',
                          node=b.node, ctx=b)
    # end-tag recognisers
    ta = [norm(n.test) for n in own_nodes(a.node) if isinstance(n, ast.If)]
    tb = [norm(n.test) for n in own_nodes(b.node) if isinstance(n, ast.If)]
    if not any("']'" in t and 'fmt' in t for t in ta):
        r.finding(a.where, "fmt == ']'", 'EPFS end tag not recognised by '
                  "the ']' format", node=a.node, ctx=a)
    if not any(t in ('end', 'not end') for t in tb):
        r.finding(b.where, 'if end', 'SGML end tag not recognised by the '
                  'end group', node=b.node, ctx=b)
    return r


class _GS(BaseState):
    def __init__(self, keys=frozenset(), start=False):
        self.keys = keys
        self.start = start

    def key(self):
        return (self.keys, self.start)

    def copy(self):
        n = _GS(self.keys, self.start)
        n.trace = self.trace
        return n


class _GroupDomain(Domain):
    """Must-assigned match groups (keys stored through a subscript with a
    constant key, and self._start)."""

    def __init__(self, model, fi, summaries, analyse, depth):
        self.model = model
        self.fi = fi
        self.summaries = summaries
        self.analyse = analyse
        self.depth = depth
        self.returns = []      # (node, keys, start, via)

    def raises(self, node, st):
        return []

    def _helper(self, call):
        """summary (keys, start) of a same-class helper method call"""
        if not (isinstance(call, ast.Call) and
                isinstance(call.func, ast.Attribute) and
                norm(call.func.value) == 'self' and
                self.fi.cls is not None):
            return None
        h = self.fi.cls.methods.get(call.func.attr)
        if h is None or h is self.fi or self.depth > 2:
            return None
        if h.where not in self.summaries:
            self.summaries[h.where] = None
            rets = self.analyse(h, self.depth + 1)
            good = [(k, s_) for node, k, s_, via in rets]
            if good:
                keys = frozenset.intersection(*[k for k, _ in good])
                self.summaries[h.where] = (keys, all(s_ for _, s_ in good),
                                           h.name)
        return self.summaries[h.where]

    def effects(self, stmt, st):
        keys, start = set(st.keys), st.start
        for t in ast.walk(stmt):
            if isinstance(t, ast.Subscript) and \
                    isinstance(t.ctx, ast.Store) and \
                    isinstance(t.slice, ast.Constant):
                keys.add(t.slice.value)
            if isinstance(t, ast.Attribute) and \
                    isinstance(t.ctx, ast.Store) and t.attr == '_start':
                start = True
        if frozenset(keys) != st.keys or start != st.start:
            st = st.copy()
            st.keys, st.start = frozenset(keys), start
        return st

    def branch(self, test, st):
        # if self.helper(...) [is not None]:  -> groups set on that branch
        pos = True
        e = test
        if isinstance(e, ast.Compare) and len(e.ops) == 1 and \
                isinstance(e.comparators[0], ast.Constant) and \
                e.comparators[0].value is None:
            pos = isinstance(e.ops[0], (ast.IsNot, ast.NotEq))
            e = e.left
        summ = self._helper(e)
        if summ is None:
            return [(True, st), (False, st)]
        won = st.copy()
        won.keys = st.keys | summ[0]
        won.start = st.start or summ[1]
        return [(pos, won), (not pos, st)]

    def on_return(self, node, st):
        v = node.value
        if v is not None and norm(v) in ('self', 'True'):
            self.returns.append((node, st.keys, st.start, None))
        elif v is not None:
            summ = self._helper(v)
            if summ is not None:
                self.returns.append((node, st.keys | summ[0],
                                     st.start or summ[1], summ[2]))
        return [], st


def rule_groups(model):
    r = RuleResult('C07.R3', 'every return path of the SGML scanner defines '
                   'the groups the tag reader reads; the EPFS pattern names '
                   'the groups its reader reads')
    sc = model.func('DT_HTML', 'dtml_re_class.search')
    want = {0, 'end', 'name', 'args'}
    # definite assignment of the match groups on every path to a
    # `return self`, through helper methods of the scanner class
    summaries = {}

    def analyse(fi, depth=0):
        dom = _GroupDomain(model, fi, summaries, analyse, depth)
        Interp(dom).run(fi.node, _GS())
        return dom.returns
    rets = analyse(sc)
    n = 0
    seen = set()
    for node, keys, start, via in rets:
        k = (id(node), keys, start)
        if k in seen:
            continue
        seen.add(k)
        n += 1
        r.instance(sc.where, f'return path defines '
                   f'{sorted(map(str, keys))}' + (f' (via {via})' if via
                                                  else ''),
                   'complete' if want <= keys and start else 'INCOMPLETE')
        if not want <= keys:
            r.finding(sc.where, f'keys {sorted(map(str, keys))}',
                      'a scanner return path does not define '
                      f'{sorted(map(str, want - keys))}: the reader sees '
                      'the value of the previous match', node=node,
                      ctx=sc)
        if not start:
            r.finding(sc.where, 'self._start', 'a scanner return path '
                      'does not record the match offset', node=node,
                      ctx=sc)
    if n < 2:
        raise AnalysisError(f'C07.R3: {n} scanner return paths (expected '
                            'at least 2)')
    rd = model.func('DT_HTML', 'HTML.parseTag')
    groups = None
    for c in own_nodes(rd.node):
        if isinstance(c, ast.Call) and isinstance(c.func, ast.Attribute) and \
                c.func.attr == 'group':
            groups = [a.value for a in c.args if isinstance(a, ast.Constant)]
    r.instance(rd.where, f'reads {groups}')
    if groups is None or set(groups) != want:
        r.finding(rd.where, f'group{tuple(groups or ())}', 'the SGML tag '
                  'reader reads groups the scanner does not define',
                  node=rd.node, ctx=rd)
    # EPFS
    import re
    tg = model.func('DT_String', 'String.tagre')
    rx = model.returned_regex(tg)
    if rx is None:
        raise AnalysisError('String.tagre pattern not found')
    pat = rx[0]
    named = set(re.compile(pat).groupindex)
    ep = model.func('DT_String', 'String.parseTag')
    rdg = set()
    for f in (ep, model.func('DT_String', 'String.varExtra')):
        for c in own_nodes(f.node):
            if isinstance(c, ast.Call) and isinstance(c.func, ast.Attribute)\
                    and c.func.attr == 'group':
                rdg |= {a.value for a in c.args
                        if isinstance(a, ast.Constant)
                        and isinstance(a.value, str)}
    r.instance(tg.where, f'named groups {sorted(named)}; read {sorted(rdg)}')
    if not rdg <= named:
        r.finding(ep.where, f'groups {sorted(rdg - named)}', 'the EPFS reader '
                  'reads groups the pattern does not define', node=ep.node,
                  ctx=ep)
    return r


def rule_entity(model):
    r = RuleResult('C07.R4', '&dtml-name; is var name html_quote, '
                   '&dtml.m1.m2-name; is var name m1 m2; SGML tags carry '
                   "the plain 's' format")
    sc = model.func('DT_HTML', 'dtml_re_class.search')
    names = [n for n in model.closure_nodes(sc)
             if isinstance(n, ast.Assign)
             and any(isinstance(t, ast.Subscript) and
                     isinstance(t.slice, ast.Constant) and
                     t.slice.value == 'name' for t in n.targets)
             and isinstance(n.value, ast.Constant)]
    for a in names:
        r.instance(sc.where, a)
        if a.value.value != 'var':
            r.finding(sc.where, a, 'an entity reference is not compiled as '
                      'a var tag', node=a, ctx=sc)
    if not names:
        raise AnalysisError('entity branches not found')
    ends = [n for n in model.closure_nodes(sc) if isinstance(n, ast.Assign)
            and any(isinstance(t, ast.Subscript) and
                    isinstance(t.slice, ast.Constant) and
                    t.slice.value == 'end' for t in n.targets)
            and isinstance(n.value, ast.Constant)]
    for a in ends:
        if a.value.value != '':
            r.finding(sc.where, a, 'an entity reference is flagged as an '
                      'end tag', node=a, ctx=sc)
    ve = model.func('DT_HTML', 'HTML.varExtra')
    rets = [n for n in own_nodes(ve.node) if isinstance(n, ast.Return)]
    ok = len(rets) == 1 and isinstance(rets[0].value, ast.Constant) and \
        rets[0].value.value == 's'
    r.instance(ve.where, rets[0] if rets else 'no return')
    if not ok:
        r.finding(ve.where, 'return', "HTML.varExtra is not the constant "
                  "'s': a var tag in the SGML syntaxes gets a C format",
                  node=ve.node, ctx=ve)
    # the appended option / modifier split are judged by C03.R3
    from . import c03
    r3 = c03.rule_entity(model)
    for f in r3.findings:
        r.finding(f.where, f.construct, f.message)
    return r


def rule_widths(model):
    from . import c01
    r0 = c01.rule_prefix_widths(model)
    r = RuleResult('C07.R5', r0.text)
    r.instances = r0.instances
    for f in r0.findings:
        r.finding(f.where, f.construct, f.message)
    r.floor = r0.floor
    return r


def _quote_count_offset(e):
    """k such that the integer expression e equals (number of double quotes
    in a piece of the text) + k; None if e is not of that shape."""
    if isinstance(e, ast.Call) and isinstance(e.func, ast.Attribute):
        if e.func.attr == 'count' and e.args and isinstance(
                e.args[0], ast.Constant) and e.args[0].value == '"':
            return 0
    if isinstance(e, ast.Call) and isinstance(e.func, ast.Name) \
            and e.func.id == 'len' and len(e.args) == 1:
        a = e.args[0]
        if isinstance(a, ast.Call) and isinstance(a.func, ast.Attribute) \
                and a.func.attr == 'split' and a.args and isinstance(
                    a.args[0], ast.Constant) and a.args[0].value == '"':
            return 1
    if isinstance(e, ast.BinOp) and isinstance(e.op, (ast.Add, ast.Sub)) \
            and isinstance(e.right, ast.Constant) \
            and isinstance(e.right.value, int):
        k = _quote_count_offset(e.left)
        if k is not None:
            return k + (e.right.value if isinstance(e.op, ast.Add)
                        else -e.right.value)
    return None


def _even_when_true(t):
    """True/False: the test t holds exactly when the quote count is even /
    odd; None when t is not a parity test of a quote count."""
    if isinstance(t, ast.UnaryOp) and isinstance(t.op, ast.Not):
        v = _even_when_true(t.operand)
        return None if v is None else not v
    if isinstance(t, ast.BinOp) and isinstance(t.op, ast.Mod) \
            and isinstance(t.right, ast.Constant) and t.right.value == 2:
        k = _quote_count_offset(t.left)
        if k is None:
            return None
        return k % 2 == 1            # truthy <=> count + k odd
    if isinstance(t, ast.Compare) and len(t.ops) == 1 and isinstance(
            t.comparators[0], ast.Constant) \
            and t.comparators[0].value in (0, 1):
        v = _even_when_true(t.left)
        if v is None or not isinstance(t.left, ast.BinOp):
            return None
        one = t.comparators[0].value == 1
        if isinstance(t.ops[0], ast.Eq):
            return v if one else not v
        if isinstance(t.ops[0], ast.NotEq):
            return (not v) if one else v
    return None


def _quote_parity_tests(fn_or_stmt):
    """For every conditional on the parity of a quote count inside a search
    loop: True when an even count accepts the '>' (leaves the loop) and an
    odd count keeps searching."""
    out = []
    for n in ast.walk(fn_or_stmt):
        if not isinstance(n, ast.If):
            continue
        tests = [n.test]
        disj = False
        if isinstance(n.test, ast.BoolOp) and isinstance(n.test.op, ast.Or):
            tests = list(n.test.values)
            disj = True
        for t in tests:
            v = _even_when_true(t)
            if v is None:
                continue

            def leaves(body):
                return bool(body) and isinstance(
                    body[-1], (ast.Break, ast.Return))

            def stays(body):
                return not body or isinstance(
                    body[-1], (ast.Continue, ast.Pass)) or not leaves(body)
            if v:
                out.append(leaves(n.body) and (disj or stays(n.orelse)))
            else:
                out.append(not disj and stays(n.body) and (
                    leaves(n.orelse) or not n.orelse))
    return out


def rule_scanner_twins(model):
    r = RuleResult('C07.R6', 'the SGML scanner finds the end of an open tag '
                   '(<dtml-x ...>) and of a close tag (</dtml-x ...>) the '
                   'same way (quote-aware)')
    from . import scan
    res = scan.scan(model)
    sc = res.fi
    sig = {}
    for k in ('<dtml-', '</dtml-'):
        evs = {(kind, 'start' if off == 0 else off - lk)
               for kind, node, off, lk, known
               in res.events.values() if known == k
               and kind not in ('search', 'call')}
        par = [(v, t) for kn, v, t in res.parity.values() if kn == k]
        sig[k] = (evs, {v for v, _ in par})
        r.instance(sc.where, f'{k!r} tags: ' + ', '.join(
            f'{a}@{b}' for a, b in sorted(evs, key=str)),
            f'quote parity tests {sorted({v for v, _ in par})}')
        if not par or not all(v for v, _ in par):
            r.finding(sc.where, f'{k} branch', 'the end of the tag is '
                      'searched without regard to quoted attribute values',
                      node=sc.node, ctx=sc)
    if not sig['<dtml-'][0] or not sig['</dtml-'][0]:
        raise AnalysisError('scanner: dtml open/close branches not found')
    if sig['<dtml-'] != sig['</dtml-']:
        r.finding(sc.where, 'open/close tag delimiting', 'the open-tag and '
                  'the close-tag branch of the scanner delimit the tag '
                  'differently (e.g. only one of them skips ">" inside '
                  'quoted attribute values): the same template compiles '
                  'differently in the dtml syntax than in the others',
                  node=sc.node, ctx=sc)
    return r


# tags every syntax must recognise as ONE tag: a name, then blank-separated
# attributes -- bare words, name=value, name="quoted value" (any number of
# them) -- and a format / block marker
EPFS_MUST_ACCEPT = (
    r'%\([a-z]+( +[a-z_]+(=([a-z0-9]+|"[^"]*"))?| +"[^"]*")*\)[a-z\[\]]')


EPFS_NAMED_ATTRS = (
    r'%\([a-z]+( +[a-z_]+(=([a-z0-9]+|"[^"]*"))?)*\)[a-z\[\]]')


def rule_epfs_language(model):
    r = RuleResult('C07.R7', 'the EPFS tag pattern recognises every tag of '
                   'the common attribute grammar (any number of bare, '
                   'name=value and name="quoted" attributes) as one tag')
    from .. import regexa
    import re
    tg = model.func('DT_String', 'String.tagre')
    rx = model.returned_regex(tg)
    if rx is None:
        raise AnalysisError('String.tagre pattern not found')
    pat, flags = rx[0], rx[1]
    for label, ref in (
            ('named attributes', EPFS_NAMED_ATTRS),
            ('"..." shorthand as a bare argument', EPFS_MUST_ACCEPT)):
        inc, wit = regexa.included(ref, pat, 0, flags)
        r.instance(tg.where, f'{label}: ' + repr(pat)[:100],
                   'accepted' if inc else f'rejects {wit!r}')
        if not inc:
            r.finding(tg.where, f'EPFS tag language: {label}', f'the EPFS '
                      f'pattern does not match {wit!r} as a whole tag: a '
                      'template using such attributes compiles in the SGML '
                      'syntaxes but is literal text (or a different tag) in '
                      'the EPFS syntax', node=tg.node, ctx=tg)
            break
    return r


class _StripS(BaseState):
    def __init__(self, env=None):
        self.env = dict(env or {})

    def key(self):
        return tuple(sorted(self.env.items()))

    def copy(self):
        n = _StripS(self.env)
        n.trace = self.trace
        return n


class _StripDomain(Domain):
    """Is the argument text a tag reader works with (compares with the
    start tag's arguments, returns) free of surrounding blanks?  Values:
    'S' stripped, 'R' raw."""

    def __init__(self, fi, group_tag):
        self.fi = fi
        self.group_tag = group_tag     # tag of match.group('args')
        self.uses = []                 # (node, what, tag)

    def ev(self, e, st):
        if isinstance(e, ast.Constant):
            return 'S'
        if isinstance(e, ast.Name):
            return st.env.get(e.id, 'R')
        if isinstance(e, ast.Call) and isinstance(e.func, ast.Attribute) \
                and e.func.attr == 'strip' and not e.args:
            return 'S'
        if isinstance(e, ast.BoolOp):
            # a and a.strip() or '':  the value is one of the operands;
            # the guard operand of an `and` is only returned when false
            vals = list(e.values)
            if isinstance(e.op, ast.And):
                vals = vals[1:] or vals
            tags = {self.ev(v, st) for v in vals}
            return 'S' if tags == {'S'} else 'R'
        if isinstance(e, ast.IfExp):
            tags = {self.ev(e.body, st), self.ev(e.orelse, st)}
            return 'S' if tags == {'S'} else 'R'
        if isinstance(e, ast.JoinedStr):
            vals = [v.value for v in e.values
                    if isinstance(v, ast.FormattedValue)]
            edge = [vals[0], vals[-1]] if vals else []
            return 'S' if all(self.ev(v, st) == 'S' for v in edge) else 'R'
        if isinstance(e, ast.BinOp) and isinstance(e.op, ast.Add):
            return 'S' if self.ev(e.left, st) == 'S' and \
                self.ev(e.right, st) == 'S' else 'R'
        return 'R'

    def raises(self, node, st):
        return []

    def note(self, node, st, argvars):
        for c in ast.walk(node):
            if isinstance(c, ast.Compare) and len(c.ops) == 1 and \
                    isinstance(c.ops[0], (ast.Eq, ast.NotEq)):
                for side in (c.left, c.comparators[0]):
                    if isinstance(side, ast.Name) and side.id in argvars:
                        self.uses.append((c, 'compared',
                                          self.ev(side, st)))

    def branch(self, test, st):
        self.note(test, st, st.env.get('<argvars>', ()))
        return [(True, st), (False, st)]

    def effects(self, stmt, st):
        if isinstance(stmt, ast.Assign) and len(stmt.targets) == 1:
            t = stmt.targets[0]
            v = stmt.value
            if isinstance(t, ast.Tuple) and isinstance(v, ast.Call) and \
                    isinstance(v.func, ast.Attribute) and \
                    v.func.attr == 'group' and len(v.args) == len(t.elts):
                st = st.copy()
                for x, a in zip(t.elts, v.args):
                    if isinstance(x, ast.Name):
                        isargs = isinstance(a, ast.Constant) and \
                            a.value in ('args', 3)
                        # the other groups are tokens matched without
                        # blanks (name, end marker, format)
                        st.env[x.id] = self.group_tag if isargs else 'S'
                        if isargs:
                            st.env['<argvars>'] = tuple(sorted(set(
                                st.env.get('<argvars>', ())) | {x.id}))
            elif isinstance(t, ast.Name):
                st = st.copy()
                st.env[t.id] = self.ev(v, st)
        return st

    def on_return(self, node, st):
        v = node.value
        if isinstance(v, ast.Tuple) and len(v.elts) == 4:
            # the Var fallback of the EPFS reader builds "name args"
            self.uses.append((node, 'returned', self.ev(v.elts[1], st)))
        return [], st


def rule_args_blanks(model):
    r = RuleResult('C07.R8', 'both tag readers work on the argument text '
                   'without surrounding blanks (the old-style else test '
                   'compares it verbatim with the start tag\'s arguments): '
                   'stripped by the reader itself or, for the SGML '
                   'syntaxes, by the scanner on every tag path')
    from . import scan
    res = scan.scan(model)
    tagk = {k for k, _ in res.args_vals
            if k in ('<!--#', '<dtml-', '</dtml-')}
    if not tagk:
        raise AnalysisError('scanner: no store of the argument text found')
    raw = sorted(k for k, kind in res.args_vals
                 if k in tagk and kind != 'stripped')
    sc_tag = 'R' if raw else 'S'
    r.instance(res.fi.where, "d['args'] = ...", 'stripped on every tag '
               'path' if not raw else f'raw after {raw}')
    for mshort, qual, gt in (('DT_String', 'String.parseTag', 'R'),
                             ('DT_HTML', 'HTML.parseTag', sc_tag)):
        fi = model.func(mshort, qual)
        dom = _StripDomain(fi, gt)
        Interp(dom).run(fi.node, _StripS())
        if not dom.uses:
            raise AnalysisError(f'{fi.where}: argument text not followed')
        seen = set()
        for node, what, tag in dom.uses:
            k = (id(node), what, tag)
            if k in seen:
                continue
            seen.add(k)
            r.instance(fi.where, node, f'{what}: ' + (
                'stripped' if tag == 'S' else 'RAW'))
            if tag != 'S' and what == 'compared':
                r.finding(fi.where, node, f'the argument text is {what} '
                          'with its surrounding blanks in this reader but '
                          'not in the other: <dtml-else name > (blank '
                          'before the terminator) is an else continuation '
                          'in one syntax and a new start tag (ParseError) '
                          'in the other', node=node, ctx=fi)
    r.require_floor(3)
    return r


EPFS_AT_LEAST = (
    # a name, white space of any kind (blank, tab, line ends, form feed),
    # unquoted / quoted arguments, a conversion or a block marker: what the
    # SGML readers accept between a tag name and its arguments
    r'%\([a-z]+[ \t\n\r\f\v]+[a-z]+(=[a-z0-9]+|="[a-z ]*")?'
    r'([ \t\n]+[a-z]+)?\)(s|d|\[|\])')


def rule_epfs_lower(model):
    r = RuleResult('C07.R10', 'the %(...) reader recognises a tag whatever '
                   'white space separates the name from its arguments '
                   '(blank, tab, line end), like the two SGML readers: the '
                   'language of the EPFS tag pattern includes the reference '
                   'family name + white space + arguments + suffix')
    from .. import regexa
    tg = model.func('DT_String', 'String.tagre')
    rx = model.returned_regex(tg)
    if rx is None:
        raise AnalysisError('String.tagre pattern not found')
    pat, flags, call = rx
    try:
        inc, wit = regexa.included(EPFS_AT_LEAST, pat, 0, flags)
    except regexa.Unsupported as e:
        raise AnalysisError(f'C07.R10: {e}')
    r.instance(tg.where, repr(pat)[:120], 'recognises the reference family'
               if inc else f'does not recognise {wit!r}')
    if not inc:
        r.finding(tg.where, 'EPFS tag language (lower bound)', 'the EPFS '
                  f'tag pattern does not match {wit!r} as a tag: it stays '
                  'literal text (and its end tag is then unexpected) while '
                  'the same tag with the same white space compiles in the '
                  'two SGML syntaxes', node=call, ctx=tg)
    ctl, _ = regexa.included(EPFS_AT_LEAST, r'%\([a-z]+( [^)]*)?\)[a-z\[\]]',
                             0, 0)
    r.control('control: a blank-only separator misses tab / newline',
              not ctl)
    return r


def _name_alternatives(pattern, flags=0):
    """Alternations of >= 2 purely alphabetic literal words (length >= 3)
    in a regular expression: a list of tag names."""
    import re._parser as _P
    import re._constants as _C
    try:
        tree = _P.parse(pattern, flags)
    except Exception:
        return []
    found = []

    def word(seq):
        out = ''
        for op, av in seq:
            if op is _C.LITERAL and chr(av).isalpha():
                out += chr(av)
            else:
                return None
        return out if len(out) >= 3 else None

    def walk(seq):
        for op, av in seq:
            if op is _C.BRANCH:
                words = [word(alt) for alt in av[1]]
                good = [w for w in words if w]
                if len(good) >= 2:
                    found.append(good)
                for alt in av[1]:
                    walk(alt)
            elif op is _C.SUBPATTERN:
                walk(av[3])
            elif op in (_C.MAX_REPEAT, _C.MIN_REPEAT):
                walk(av[2])
            elif op in (_C.ASSERT, _C.ASSERT_NOT):
                walk(av[1])
    walk(tree)
    return found


def rule_scanner_name_blind(model):
    r = RuleResult('C07.R11', 'the tag scanners delimit tags without '
                   'looking at WHICH tag it is: no scanner pattern lists '
                   'tag names (whether a name is a known tag is decided by '
                   'the one reader all syntaxes share; a scanner that '
                   'passes over some names leaves them literal text in its '
                   'syntax while the others raise "Unexpected tag")')
    n = 0
    ctl = _name_alternatives('(include|echo|exec)[ ]+[a-z]+=')
    r.control('control: a pattern listing names is recognised',
              bool(ctl) and not _name_alternatives('[ ]*(/|end)'))
    sc = model.func('DT_HTML', 'dtml_re_class.search')
    tg = model.func('DT_String', 'String.tagre')
    for fi in (sc, tg):
        cands = []
        a = fi.node.args
        for d in list(a.defaults) + [d for d in a.kw_defaults if d]:
            for y in ast.walk(d):
                if isinstance(y, ast.Call):
                    cands.append(y)
        for mg in fi.module.globals.values():
            for v_ in mg:
                for y in ast.walk(v_):
                    if isinstance(y, ast.Call):
                        cands.append(y)
        for x in own_nodes(fi.node):
            if isinstance(x, ast.Call):
                cands.append(x)
        seen = set()
        for c in cands:
            rx = None
            try:
                rx = model.regex_of(c, fi)
            except Exception:
                rx = None
            if not rx:
                continue
            pat, flags = rx[0], rx[1] if len(rx) > 1 else 0
            if pat in seen:
                continue
            seen.add(pat)
            n += 1
            names = _name_alternatives(pat, flags or 0)
            r.instance(fi.where, repr(pat)[:70], 'name blind' if not names
                       else f'LISTS NAMES {names[0]}')
            if names:
                r.finding(fi.where, f'pattern listing {names[0][:4]}',
                          f'a scanner pattern matches the tag names '
                          f'{names[0]}: tags with these names are treated '
                          'differently by this syntax\'s scanner (skipped, '
                          'or delimited otherwise) than by the other two',
                          node=c, ctx=fi)
    if n < 4:
        raise AnalysisError(f'C07.R11: only {n} scanner patterns found')
    return r


def rule_one_table(model):
    r = RuleResult('C07.R9', 'the three syntaxes compile with one command '
                   'table: `commands` is defined once, on the base template '
                   'class, updated in place, and never rebound on a class '
                   'or an instance (a subclass with its own snapshot stops '
                   'seeing tags registered on the base table)')
    S = model.cls('DT_String', 'String')
    if 'commands' not in S.attrs:
        raise AnalysisError('C07.R9: String.commands not found')
    r.instance('DT_String:String', 'commands = {...}', 'the table')
    for ci in model.subclasses(S):
        if 'commands' in ci.attrs:
            r.instance(f'{ci.module.short}:{ci.name}', 'commands = ...',
                       'OWN TABLE')
            r.finding(f'{ci.module.short}:{ci.name}',
                      f'class {ci.name}: commands = ...',
                      'a template subclass defines its own command table: '
                      'tags registered on String.commands are unknown in '
                      'this syntax', node=ci.attrs['commands'], ctx=ci.module)
    n = 0
    for fi in model.all_funcs():
        for x in own_nodes(fi.node):
            tg = []
            if isinstance(x, ast.Assign):
                tg = x.targets
            elif isinstance(x, (ast.AugAssign, ast.AnnAssign)):
                tg = [x.target]
            for t in tg:
                if isinstance(t, ast.Attribute) and t.attr == 'commands':
                    r.instance(fi.where, x, 'REBOUND')
                    r.finding(fi.where, x, 'the command table is rebound '
                              f'on `{norm(t.value)}` instead of being '
                              'updated in place: that class (or instance) '
                              'gets a snapshot of its own and no longer '
                              'sees tags registered on String.commands '
                              'afterwards, the syntaxes stop compiling '
                              'the same set of tags', node=x, ctx=fi)
                if isinstance(t, ast.Subscript) and isinstance(
                        t.value, ast.Attribute) and \
                        t.value.attr == 'commands':
                    n += 1
                    r.instance(fi.where, x, 'in-place update')
            if isinstance(x, ast.Call) and isinstance(x.func, ast.Name) and \
                    x.func.id == 'setattr' and len(x.args) >= 2 and \
                    isinstance(x.args[1], ast.Constant) and \
                    x.args[1].value == 'commands':
                r.instance(fi.where, x, 'REBOUND')
                r.finding(fi.where, x, 'the command table is rebound with '
                          'setattr', node=x, ctx=fi)
    if n < 1 and not r.findings:
        raise AnalysisError('C07.R9: the in-place store of a lazily '
                            'resolved command was not found')
    return r


class _NPS(BaseState):
    def __init__(self, env=None):
        self.env = dict(env or {})

    def key(self):
        return tuple(sorted(self.env.items()))

    def copy(self):
        n = _NPS(self.env)
        n.trace = self.trace
        return n


class _NameParamDomain(Domain):
    """name_param for one combination of attributes: unnamed in (None,
    'plain', 'quoted'), the name attribute given or not, expr= given or
    not, the tag supporting expr or not."""

    def __init__(self, fi, unnamed, has_attr, has_expr, flag):
        ps = fi.params()
        self.params = ps[0]
        self.flag = 'expr' if 'expr' in ps else None
        self.attr = 'attr' if 'attr' in ps else None
        self.sc = (unnamed, has_attr, has_expr, flag)
        self.exits = []

    def truth(self, e, st):
        unnamed, has_attr, has_expr, flag = self.sc
        if isinstance(e, ast.Name):
            if e.id in st.env:
                return st.env[e.id]
            if e.id == self.flag:
                return flag
            return None
        if isinstance(e, ast.Compare) and len(e.ops) == 1:
            l, op, r_ = e.left, e.ops[0], e.comparators[0]
            if isinstance(op, (ast.In, ast.NotIn)) and \
                    norm(r_) == self.params:
                v = None
                if isinstance(l, ast.Constant) and l.value == '':
                    v = unnamed is not None
                elif isinstance(l, ast.Constant) and l.value == 'expr':
                    v = has_expr
                elif isinstance(l, ast.Name) and l.id == self.attr:
                    v = has_attr
                if v is not None:
                    return v if isinstance(op, ast.In) else not v
            # the tests that recognise "..." around the unnamed value
            if isinstance(r_, ast.Constant) and r_.value == '"' and \
                    isinstance(op, (ast.Eq, ast.NotEq)):
                v = unnamed == 'quoted'
                return v if isinstance(op, ast.Eq) else not v
            if isinstance(l, ast.Call) and norm(l.func) == 'len' and \
                    isinstance(op, (ast.Gt, ast.GtE)):
                return True
        if isinstance(e, ast.Call) and isinstance(e.func, ast.Attribute) \
                and e.func.attr in ('startswith', 'endswith') and e.args \
                and isinstance(e.args[0], ast.Constant) and \
                e.args[0].value == '"':
            return unnamed == 'quoted'
        return None

    def branch(self, test, st):
        v = self.truth(test, st)
        if v is None:
            return [(True, st), (False, st)]
        return [(v, st)]

    def raises(self, node, st):
        return []

    def effects(self, stmt, st):
        if isinstance(stmt, ast.Assign) and len(stmt.targets) == 1 and \
                isinstance(stmt.targets[0], ast.Name):
            st = st.copy()
            v = None
            if isinstance(stmt.value, (ast.BoolOp, ast.Compare,
                                       ast.UnaryOp)):
                v = self._bool(stmt.value, st)
            if v is None:
                st.env.pop(stmt.targets[0].id, None)
                if stmt.targets[0].id == self.flag:
                    st.env[self.flag] = True      # expr = Eval(...)
            else:
                st.env[stmt.targets[0].id] = v
        return st

    def _bool(self, e, st):
        if isinstance(e, ast.UnaryOp) and isinstance(e.op, ast.Not):
            v = self._bool(e.operand, st)
            return None if v is None else not v
        if isinstance(e, ast.BoolOp):
            vs = [self._bool(v, st) for v in e.values]
            if isinstance(e.op, ast.And):
                if any(v is False for v in vs):
                    return False
                return True if all(v is True for v in vs) else None
            if any(v is True for v in vs):
                return True
            return False if all(v is False for v in vs) else None
        return self.truth(e, st)


def rule_contradictory_attributes(model):
    r = RuleResult('C07.R12', 'a tag that names its operand twice is '
                   'rejected whatever the spelling: an unnamed value '
                   'together with name=, an unnamed value together with '
                   'expr=, name= together with expr=, and no operand at '
                   'all never compile -- name_param reaches no return for '
                   'those attribute combinations')
    # (on the view with new helpers inlined: the decision tree may be
    # spread over extracted helpers)
    npf = model.inlined_view().func('DT_Util', 'name_param')
    combos = [
        (('plain', True, False, True), 'an unnamed name and name='),
        (('plain', False, True, True), 'an unnamed name and expr='),
        (('quoted', True, False, True), 'a "..." expression and name='),
        (('quoted', False, True, True), 'a "..." expression and expr='),
        ((None, True, True, True), 'name= and expr='),
        ((None, False, False, True), 'no operand'),
        ((None, False, False, False), 'no operand (tag without expr)'),
        (('quoted', False, False, False),
         'a "..." expression in a tag that has no expr'),
    ]
    for sc, what in combos:
        dom = _NameParamDomain(npf, *sc)
        outs = Interp(dom).run(npf.node, _NPS())
        rets = [o for o in outs if o.kind in ('return', 'normal')]
        nraise = sum(1 for o in outs if o.kind == 'raise')
        r.instance(npf.where, what,
                   f'{nraise} raising path(s), {len(rets)} returning')
        if rets:
            r.finding(npf.where, what, f'a tag written with {what} is '
                      'compiled instead of rejected: one of the two '
                      'operands is silently ignored', node=rets[0].node
                      if rets[0].node is not None else npf.node, ctx=npf,
                      path=rets[0].state.trace)
        elif not nraise:
            raise AnalysisError('C07.R12: name_param reaches no exit for '
                                + what)
    # control: the well-formed combinations do return
    for sc, what in (((None, True, False, True), 'name= alone'),
                     ((None, False, True, True), 'expr= alone'),
                     (('plain', False, False, True), 'unnamed name'),
                     (('quoted', False, False, True), '"..." alone')):
        dom = _NameParamDomain(npf, *sc)
        outs = Interp(dom).run(npf.node, _NPS())
        ok = any(o.kind in ('return', 'normal') for o in outs)
        r.control(f'control: {what} compiles', ok)
        if not ok:
            raise AnalysisError(f'C07.R12: {what} reaches no return in '
                                'name_param (scenario evaluation lost)')
    return r


RULES = [rule_overrides, rule_siblings, rule_groups, rule_entity,
         rule_widths, rule_scanner_twins, rule_epfs_language,
         rule_args_blanks, rule_one_table, rule_epfs_lower,
         rule_scanner_name_blind, rule_contradictory_attributes]
EXPLANATION = (
    'Override-set query on the template class hierarchy; comparison of the '
    'normalised decisions (returns, raises, tests) of the two parseTag '
    'siblings; agreement of the keys the scanner defines on each return '
    'path with the groups the reader reads; entity constants; prefix '
    'widths.')
ASSUMPTIONS = ['does not decide that the three scanners delimit the same '
               'tags on all inputs (whitespace, quoting, end forms)']
TRUSTED = ['python ast', 're (group names of the EPFS pattern)']
