"""C09 -- if/elif/else/unless: first true branch, lazily, evaluated once.

All rules concern the conditional branch of render_blocks_ and the compilers
that feed it (If, Unless/Else, Call).

R1 per loop iteration every path evaluates the current condition exactly
   once before testing it; after a body is rendered no path returns to the
   loop head; the else body is not reachable after a body was rendered.
R2 on the named-condition path the value is stored in the cache (the dict
   pushed on the namespace before the loop, created per conditional) before
   the body is rendered.
R3 the KeyError handler guards only the lookup, re-raises foreign keys and
   yields a false value.
R4 the tuples the compilers build match the interpreter's reading; opcodes
   agree.
"""
import ast

from ..core import AnalysisError
from ..core import RuleResult
from ..core import norm
from ..flow import ANY
from ..flow import NORMAL
from ..flow import BaseState
from ..flow import Domain
from ..flow import Interp
from ..model import ancestors
from ..model import own_nodes


def locate(model):
    """Anchors of the conditional interpreter: the condition loop (a while /
    for whose body takes the current condition from the block tuple and
    evaluates it in the namespace), its enclosing try, the cache push, the
    namespace name, the cache variable, the current-condition variable.
    The loop may live in render_blocks_ or in a helper of the same module."""
    mod = model.module('_DocumentTemplate')
    found = None
    for fi in mod.funcs.values():
        for n in own_nodes(fi.node):
            if not isinstance(n, (ast.While, ast.For)):
                continue
            cv = None
            for s in n.body:
                if isinstance(s, ast.Assign) and \
                        isinstance(s.value, ast.Subscript) and \
                        isinstance(s.targets[0], ast.Name) and \
                        not (isinstance(s.value.slice, ast.Name) and
                             s.value.slice.id == s.targets[0].id):
                    cv = s.targets[0].id
                    break
            evals = cv and any(
                (isinstance(c, ast.Call) and isinstance(c.func, ast.Name)
                 and c.func.id == cv) or
                (isinstance(c, ast.Subscript) and
                 isinstance(c.slice, ast.Name) and c.slice.id == cv)
                for c in ast.walk(n))
            if cv and evals:
                found = (fi, n, cv)
    if found is None:
        raise AnalysisError('conditional interpreter: condition loop not '
                            'found')
    fi, loop, condvar = found
    tr = None
    for a in ancestors(loop):
        if isinstance(a, ast.Try) and tr is None:
            tr = a
        if isinstance(a, (ast.For, ast.FunctionDef)) and a is not loop:
            break
    top = tr if tr is not None else loop
    holder = top._dt_parent
    block = None
    for fld in ('body', 'orelse', 'finalbody'):
        lst = getattr(holder, fld, None)
        if isinstance(lst, list) and top in lst:
            block = lst
    if block is None:
        raise AnalysisError('conditional interpreter: branch not found')
    pushes = []
    for st in block:
        for n in ast.walk(st):
            if isinstance(n, ast.Call) and \
                    isinstance(n.func, ast.Attribute) and \
                    n.func.attr == '_push' and n.args and \
                    isinstance(n.args[0], ast.Name):
                pushes.append((st, n))
    if not pushes:
        raise AnalysisError('conditional interpreter: cache push not found')
    stmt, push = pushes[0]
    renderers = {f.name for f in mod.funcs.values()
                 if f.name.startswith('render_blocks')} | {fi.name}
    return dict(fi=fi, push=push, push_stmt=stmt, block=block,
                tr=tr if tr is not None else ast.Try(
                    body=[loop], handlers=[], orelse=[], finalbody=[]),
                loop=loop, md=norm(push.func.value),
                cache=push.args[0].id, cond=condvar, top=top,
                has_try=tr is not None, renderers=renderers)


class CS(BaseState):
    __slots__ = ('evals', 'named', 'stored', 'rendered', 'neg', 'trace',
                 'cur_exc', 'undef')

    def __init__(self):
        self.evals = 0
        self.named = None
        self.stored = False
        self.rendered = False
        self.neg = frozenset()     # variables holding a negative constant
        self.trace = ()
        self.cur_exc = None
        self.undef = False         # the name lookup raised KeyError

    def key(self):
        return (self.evals, self.named, self.stored, self.rendered,
                self.neg, self.cur_exc, self.undef)

    def copy(self):
        n = CS()
        n.evals, n.named, n.stored, n.rendered, n.neg = \
            self.evals, self.named, self.stored, self.rendered, self.neg
        n.trace = self.trace
        n.cur_exc = self.cur_exc
        n.undef = self.undef
        return n


class CondDomain(Domain):
    def __init__(self, model, a):
        self.model = model
        self.a = a
        self.problems = []      # (node, message)
        self.undef_renders = []  # bodies rendered for an undefined name
        self.body_renders = 0
        self.counters = set()   # loop counters (initialised >= 0, only +=)
        fi = a['fi']
        for n in own_nodes(fi.node):
            if isinstance(n, ast.AugAssign) and isinstance(n.op, ast.Add) \
                    and isinstance(n.target, ast.Name):
                inits = [d for d in model.local_defs(fi, n.target.id)
                         if isinstance(d, ast.Constant)]
                if inits and all(isinstance(d.value, int) and d.value >= 0
                                 for d in inits):
                    self.counters.add(n.target.id)

        # deferred rendering: the loop only selects the body
        #     body = block[i + 2]; break   ...   if body: render(body, ...)
        # the selecting assignment then stands for the render site and the
        # one render call after the loop is the same render, not another
        loop = a['loop']
        inside = {id(x) for x in ast.walk(loop)}
        after = set()
        for n in own_nodes(fi.node):
            if id(n) not in inside and self.is_render(n) and \
                    isinstance(n.args[0], ast.Name):
                after.add(n.args[0].id)
        self.deferred = set()
        for n in ast.walk(loop):
            if isinstance(n, ast.Assign) and len(n.targets) == 1 and \
                    isinstance(n.targets[0], ast.Name) and \
                    n.targets[0].id in after and \
                    n.targets[0].id != a['cond'] and any(
                        isinstance(x, ast.Subscript)
                        for x in ast.walk(n.value)):
                self.deferred.add(n.targets[0].id)

    def is_select(self, stmt):
        return isinstance(stmt, ast.Assign) and len(stmt.targets) == 1 and \
            isinstance(stmt.targets[0], ast.Name) and \
            stmt.targets[0].id in self.deferred and any(
                isinstance(x, ast.Subscript) for x in ast.walk(stmt.value))

    def cond_names(self):
        a = self.a
        names = a.get('_cond_names')
        if names is None:
            names = {a['cond']}
            for n in ast.walk(a['loop']):
                if isinstance(n, ast.Assign) and \
                        isinstance(n.value, ast.Name) and \
                        n.value.id in names and \
                        isinstance(n.targets[0], ast.Name):
                    names.add(n.targets[0].id)
            a['_cond_names'] = names
        return names

    def is_eval(self, n):
        a = self.a
        names = self.cond_names()
        if isinstance(n, ast.Subscript) and norm(n.value) == a['md'] and \
                isinstance(n.slice, ast.Name) and n.slice.id in names and \
                isinstance(n.ctx, ast.Load):
            return True
        if isinstance(n, ast.Call) and isinstance(n.func, ast.Name) and \
                n.func.id in names:
            return True
        return False

    def is_render(self, n):
        return isinstance(n, ast.Call) and isinstance(n.func, ast.Name) and \
            n.func.id in self.a['renderers'] and len(n.args) >= 3 and not (
                isinstance(n.args[0], ast.Name) and
                n.args[0].id in getattr(self, 'deferred', ()))

    def raises(self, node, st):
        for n in ast.walk(node):
            if self.is_eval(n):
                if isinstance(n, ast.Subscript):
                    return ['KeyError', ANY]
                return [ANY]
        return []

    def effects(self, stmt, st):
        ns = st
        for n in ast.walk(stmt):
            if self.is_eval(n):
                ns = ns.copy()
                ns.evals += 1
            if self.is_render(n) or (n is stmt and self.is_select(stmt)):
                self.body_renders += 1
                ns = ns.copy()
                if ns.undef:
                    self.undef_renders.append(n)
                if ns.evals != 1:
                    self.problems.append((
                        n, f'a body is rendered on a path that evaluated '
                        f'its condition {ns.evals} times'))
                if ns.named and not ns.stored:
                    self.problems.append((
                        n, 'the body of a named condition is rendered '
                        'before its value is stored in the cache: '
                        'references inside the body re-evaluate it'))
                ns.rendered = True
        if isinstance(stmt, ast.Assign):
            t = stmt.targets[0]
            if isinstance(t, ast.Subscript) and \
                    norm(t.value) == self.a['cache']:
                if ns.undef:
                    self.problems.append((
                        stmt, 'the cache that is pushed on the namespace '
                        'receives an entry on the path on which the name '
                        'turned out to be undefined: inside the else / elif '
                        '/ unless part the name is then defined (as the '
                        'stand-in value), so missing= no longer applies '
                        'and <dtml-var name> prints the stand-in'))
                ns = ns.copy()
                ns.stored = True
            if isinstance(t, ast.Name):
                falsy = isinstance(stmt.value, ast.Constant) and \
                    not stmt.value.value
                tag = 'F:' + t.id
                if falsy != (tag in ns.neg):
                    ns = ns.copy()
                    ns.neg = (ns.neg | {tag}) if falsy else (ns.neg - {tag})
            if isinstance(t, ast.Name):
                v = stmt.value
                neg = isinstance(v, ast.UnaryOp) and \
                    isinstance(v.op, ast.USub) and \
                    isinstance(v.operand, ast.Constant)
                neg = neg or (isinstance(v, ast.Constant) and
                              isinstance(v.value, int) and v.value < 0)
                if neg != (t.id in ns.neg):
                    ns = ns.copy()
                    ns.neg = (ns.neg | {t.id}) if neg else (ns.neg -
                                                             {t.id})
        return ns

    def enter_handler(self, h, st, exc):
        # a failed lookup still was the one evaluation of this iteration
        ns = st.copy()
        ns.evals += 1
        if exc == 'KeyError':
            ns.undef = True
        return ns

    def branch(self, test, st):
        for n in ast.walk(test):
            if self.is_eval(n):
                st = st.copy()
                st.evals += 1
        if isinstance(test, ast.Call) and isinstance(test.func, ast.Name) \
                and test.func.id == 'isinstance' and \
                isinstance(test.args[0], ast.Name) and \
                test.args[0].id == self.a['cond'] and st.evals == 0:
            t = st.copy()
            t.named = True
            f = st.copy()
            f.named = False
            return [(True, t), (False, f)]
        if isinstance(test, ast.Name) and ('F:' + test.id) in st.neg:
            return [(False, st)]
        if isinstance(test, ast.Compare) and len(test.ops) == 1 and \
                isinstance(test.ops[0], ast.Eq):
            names = [x.id for x in (test.left, test.comparators[0])
                     if isinstance(x, ast.Name)]
            if len(names) == 2 and any(n in st.neg for n in names) and \
                    any(n in self.counters for n in names):
                return [(False, st)]
        return [(True, st), (False, st)]


def rule_eval(model):
    a = locate(model)
    fi = a['fi']
    r1 = RuleResult('C09.R1', 'each condition is evaluated exactly once per '
                    'iteration, none after the first true one, else only '
                    'when none was true')
    r2 = RuleResult('C09.R2', 'a named condition\'s value is cached (in the '
                    'per-conditional dict pushed before the loop) before '
                    'its body renders')
    dom = CondDomain(model, a)
    it = Interp(dom)
    loop = a['loop']
    # one iteration of the loop body from a clean state
    outs = it.block(loop.body, CS())
    n_paths = len(outs)
    for o in outs:
        if o.kind in ('normal', 'continue') and o.state.rendered:
            dom.problems.append((loop, 'after rendering a body the loop '
                                 'continues with the next condition'))
        if o.kind in ('normal', 'continue') and o.state.evals != 1:
            dom.problems.append((loop, 'an iteration can finish having '
                                 f'evaluated its condition {o.state.evals} '
                                 'times'))
    # statements after the loop: `orelse` runs only when no break happened
    holder = loop._dt_parent
    lst = None
    for fld in ('body', 'orelse', 'finalbody'):
        x = getattr(holder, fld, None)
        if isinstance(x, list) and loop in x:
            lst = x
    rest = lst[lst.index(loop) + 1:] if lst else []
    dom2 = CondDomain(model, a)
    it2 = Interp(dom2)
    for o in outs:
        if o.kind == 'break':
            s = o.state.copy()
            s.evals = 1          # do not re-judge counts after the loop
            before = dom2.body_renders
            it2.block(rest, s)
            if dom2.body_renders > before and o.state.rendered:
                dom.problems.append((rest[0] if rest else loop,
                                     'the else body can be rendered after a '
                                     'condition was true'))
    # the else body must be renderable from the loop's normal exit
    s0 = CS()
    s0.evals = 1
    dom3 = CondDomain(model, a)
    Interp(dom3).block(list(loop.orelse) + rest, s0)
    else_renders = dom3.body_renders
    head = f'while {norm(loop.test)}' if isinstance(loop, ast.While) \
        else f'for {norm(loop.target)} in {norm(loop.iter)}'
    r1.instance(fi.where, head,
                paths_per_iteration=n_paths,
                body_render_sites=dom.body_renders,
                else_render_sites=else_renders)
    for n in ast.walk(loop):
        if dom.is_eval(n):
            r1.instance(fi.where, n, 'evaluation site')
    structure_lost = dom.body_renders < 1 or else_renders < 1
    seen = set()
    for node, msg in dom.problems:
        rr = r2 if 'cache' in msg else r1
        if (msg, norm(node)) in seen:
            continue
        seen.add((msg, norm(node)))
        rr.finding(fi.where, node if not isinstance(node, (ast.While,
                                                            ast.For))
                   else head, msg, node=node, ctx=fi)
    # evaluation sites outside the loop
    for n in ast.walk(a['tr']):
        if dom.is_eval(n) and not any(x is loop for x in ancestors(n)):
            r1.finding(fi.where, n, 'condition evaluated outside the '
                       'condition loop', node=n, ctx=fi)
    r1.require_floor(2)

    # R2 structural part: cache created per conditional, pushed before loop
    cache = a['cache']
    block = a['block']
    created = [s for s in block if isinstance(s, ast.Assign) and
               isinstance(s.targets[0], ast.Name) and
               s.targets[0].id == cache and
               isinstance(s.value, ast.Dict) and not s.value.keys]
    r2.instance(fi.where, a['push_stmt'], 'push before loop')
    direct = isinstance(a['push_stmt'], ast.Expr) and \
        a['push_stmt'] in block and a['top'] in block and \
        block.index(a['push_stmt']) < block.index(a['top'])
    if not direct:
        r2.finding(fi.where, a['push'], 'the cache is not pushed on the '
                   'namespace before the first condition is evaluated: '
                   'a name cached by an earlier (false) condition is looked '
                   'up again by later conditions', node=a['push'], ctx=fi)
    if not a['has_try']:
        r2.finding(fi.where, 'try/finally', 'the conditional is not wrapped '
                   'in try/finally', node=a['loop'], ctx=fi)
    if not created or a['push_stmt'] not in block or \
            block.index(created[0]) > block.index(a['push_stmt']):
        r2.finding(fi.where, f'{cache} = ...', 'the cache pushed for a '
                   'conditional is not a fresh dict created for this '
                   'conditional (values could leak between conditionals / '
                   'renders)', node=a['push_stmt'], ctx=fi)
    stores = [n for n in ast.walk(a['loop']) if isinstance(n, ast.Assign)
              and isinstance(n.targets[0], ast.Subscript)
              and norm(n.targets[0].value) == cache]
    for s in stores:
        r2.instance(fi.where, s, 'cache store')
        # key is the saved name
    if not stores:
        r2.finding(fi.where, f'{cache}[...] = ...', 'a named condition is '
                   'never stored in the cache', node=a['loop'], ctx=fi)
    # finally pops
    pops = [n for s in a['tr'].finalbody for n in ast.walk(s)
            if isinstance(n, ast.Call) and isinstance(n.func, ast.Attribute)
            and n.func.attr == '_pop']
    if not pops:
        r2.finding(fi.where, 'finally', 'the cache is not popped in the '
                   'finally clause', node=a['tr'], ctx=fi)
    if structure_lost and not (r1.findings or r2.findings):
        raise AnalysisError('C09.R1: body/else render sites not found in '
                            'the condition loop (mechanism restructured)')
    return [r1, r2]


def rule_keyerror(model):
    a = locate(model)
    fi = a['fi']
    r = RuleResult('C09.R3', 'an undefined condition name is false: the '
                   'KeyError handler guards only the lookup and re-raises '
                   'foreign keys')
    tries = [n for n in ast.walk(a['loop']) if isinstance(n, ast.Try)]
    found = False
    for t in tries:
        if not any(CondDomain(model, a).is_eval(x) for s in t.body
                   for x in ast.walk(s)):
            continue
        found = True
        r.instance(fi.where, 'try: ' + norm(t.body[0]))
        if len(t.body) != 1:
            r.finding(fi.where, 'try body', 'the KeyError guard covers more '
                      'than the lookup of the condition name', node=t,
                      ctx=fi)
        for h in t.handlers:
            hn = norm(h.type) if h.type else '<bare>'
            if hn != 'KeyError':
                r.finding(fi.where, f'except {hn}', 'the lookup guard '
                          'catches more than KeyError', node=h, ctx=fi)
                continue
            reraise = [x for x in ast.walk(h) if isinstance(x, ast.Raise)
                       and x.exc is None]
            guarded = False
            for x in reraise:
                for anc in ancestors(x):
                    if isinstance(anc, ast.If) and 'args[0]' in norm(
                            anc.test):
                        guarded = True
                    if anc is h:
                        break
            if not guarded:
                r.finding(fi.where, f'except {hn}', 'a KeyError for a '
                          'different key (raised inside the looked-up '
                          'value) is not re-raised', node=h, ctx=fi)
    # an undefined name never selects its body: no path of one loop round
    # through the KeyError handler reaches the rendering of a body
    dom = CondDomain(model, a)
    Interp(dom).block(a['loop'].body, CS())
    r.instance(fi.where, 'paths through the KeyError handler',
               f'{len(dom.undef_renders)} render a body')
    if dom.undef_renders:
        r.finding(fi.where, 'except KeyError', 'an undefined name does '
                  'not yield a false condition', node=dom.undef_renders[0],
                  ctx=fi)
    for t in tries:
        if not any(CondDomain(model, a).is_eval(x) for s in t.body
                   for x in ast.walk(s)):
            continue
        if not t.handlers:
            r.finding(fi.where, 'try', 'no KeyError handler', node=t,
                      ctx=fi)
    if not found:
        r.finding(fi.where, f'{a["md"]}[{a["cond"]}]', 'the lookup of a '
                  'condition name is not guarded: an undefined name raises '
                  'instead of being false', node=a['loop'], ctx=fi)
        r.instance(fi.where, 'lookup', 'unguarded')
    return r


def _kind(e, fi, model, _depth=0):
    """C condition / B block list / N None / X other"""
    if isinstance(e, ast.Constant) and e.value is None:
        return 'N'
    if isinstance(e, ast.IfExp) and _depth < 3:
        ks = {_kind(e.body, fi, model, _depth + 1),
              _kind(e.orelse, fi, model, _depth + 1)}
        return ks.pop() if len(ks) == 1 else 'X'
    if isinstance(e, ast.Attribute) and e.attr == 'eval':
        return 'C'
    if isinstance(e, ast.Attribute) and e.attr == 'blocks':
        return 'B'
    if isinstance(e, ast.Name):
        kinds = set()
        for d in model.local_defs(fi, e.id):
            if isinstance(d, ast.Attribute) and d.attr == 'eval':
                kinds.add('C')
            elif isinstance(d, ast.Attribute) and d.attr == 'blocks':
                kinds.add('B')
            elif isinstance(d, ast.Name):
                kinds.add('C')      # name string of the condition
            elif isinstance(d, ast.Constant) and d.value is None:
                kinds.add('N')
            elif isinstance(d, tuple) and d[0] == 'unpack':
                kinds.add('C')
            elif isinstance(d, ast.IfExp) or (
                    isinstance(d, ast.Subscript) and
                    isinstance(d.value, ast.Call)):
                kinds.add(_kind(d, fi, model, _depth + 1))
            else:
                kinds.add('X')
        if kinds <= {'C'}:
            return 'C'
        if kinds <= {'B', 'N'}:
            return 'B'
        return 'X'
    if isinstance(e, ast.Subscript) and isinstance(e.value, ast.Call) and \
            isinstance(e.slice, ast.Constant) and isinstance(
                e.slice.value, int) and _depth < 3:
        # helper(...)[1]: the kind of that element of what the helper
        # returns (a helper that compiles one condition)
        ks = set()
        for t in model.resolve_callee(e.value.func, fi):
            if t[0] != 'func':
                return 'X'
            for x in own_nodes(t[1].node):
                if isinstance(x, ast.Return):
                    if isinstance(x.value, ast.Tuple) and \
                            e.slice.value < len(x.value.elts):
                        ks.add(_kind(x.value.elts[e.slice.value], t[1],
                                     model, _depth + 1))
                    else:
                        ks.add('X')
        return ks.pop() if len(ks) == 1 else 'X'
    return 'X'


class _SH(BaseState):
    def __init__(self, env=None):
        self.env = dict(env or {})

    def key(self):
        return tuple(sorted(self.env.items()))

    def copy(self):
        n = _SH(self.env)
        n.trace = self.trace
        return n


class _ShorthandDomain(Domain):
    """name_param called for a tag whose only unnamed attribute is a quoted
    text ("..."), in a tag that supports expr."""

    def __init__(self, model, fi):
        self.model = model
        self.fi = fi
        self.returns = []
        ps = fi.params()
        self.expr_param = 'expr' if 'expr' in ps else None

    def truth(self, e, st):
        if isinstance(e, ast.UnaryOp) and isinstance(e.op, ast.Not):
            v = self.truth(e.operand, st)
            return None if v is None else not v
        if isinstance(e, ast.Name) and e.id == self.expr_param and \
                st.env.get(e.id) is None:
            return True                 # the tag supports expr
        if isinstance(e, ast.Name) and st.env.get(e.id) in ('TRUE',
                                                            'FALSE'):
            return st.env[e.id] == 'TRUE'
        if isinstance(e, ast.BoolOp):
            vals = [self.truth(v, st) for v in e.values]
            if isinstance(e.op, ast.And):
                if any(v is False for v in vals):
                    return False
                return True if all(v is True for v in vals) else None
            if any(v is True for v in vals):
                return True
            return False if all(v is False for v in vals) else None
        if isinstance(e, ast.Compare) and len(e.ops) == 1:
            l, op, rt = e.left, e.ops[0], e.comparators[0]
            if isinstance(rt, ast.Constant) and rt.value == '"' and \
                    isinstance(op, (ast.Eq, ast.NotEq)):
                return isinstance(op, ast.Eq)
            if isinstance(l, ast.Constant) and l.value == '' and \
                    isinstance(op, (ast.In, ast.NotIn)):
                return isinstance(op, ast.In)
            if isinstance(l, ast.Call) and norm(l.func) == 'len' and \
                    isinstance(op, (ast.Gt, ast.GtE)) and \
                    isinstance(rt, ast.Constant):
                return True
        return None

    def branch(self, test, st):
        v = self.truth(test, st)
        if v is None:
            return [(True, st), (False, st)]
        return [(v, st)]

    def raises(self, node, st):
        return []

    def effects(self, stmt, st):
        if isinstance(stmt, ast.Assign) and len(stmt.targets) == 1 and \
                isinstance(stmt.targets[0], ast.Name):
            v = stmt.value
            kind = None
            if isinstance(v, ast.Call) and any(
                    c.endswith(':Eval')
                    for c in self.model.callee_names(v, self.fi)):
                kind = 'EVAL'
            if kind is None and isinstance(v, (ast.BoolOp, ast.Compare,
                                               ast.UnaryOp)):
                t = self.truth(v, st)
                if t is not None:
                    kind = 'TRUE' if t else 'FALSE'
            st = st.copy()
            st.env[stmt.targets[0].id] = kind or 'OTHER'
        return st

    def on_return(self, node, st):
        v = node.value
        kind = 'NAME'
        if isinstance(v, ast.Tuple) and len(v.elts) == 2:
            second = v.elts[1]
            if isinstance(second, ast.Name) and \
                    st.env.get(second.id) == 'EVAL':
                kind = 'EVAL'
        self.returns.append((node, kind))
        return [], st


# ------------------------------------------------- compiled tuple shapes
# DFA of the language the conditional interpreter reads after the opcode:
# condition/body pairs, then an optional else body.   CB(CB)*B?
_S0, _S1, _S2, _S3, _ERR = 'start', 'after-condition', 'pairs', 'else', 'ERR'
_STEP = {(_S0, 'C'): _S1, (_S1, 'B'): _S2, (_S1, 'N'): _S2,
         (_S2, 'C'): _S1, (_S2, 'B'): _S3}


def _feed(states, kinds):
    out = set(states)
    for k in kinds:
        out = {_STEP.get((s, k), _ERR) for s in out}
    return frozenset(out)


class _ShS(BaseState):
    def __init__(self, env=None, done=frozenset()):
        self.env = dict(env or {})
        self.done = done          # loops whose body ran at least once

    def key(self):
        return (tuple(sorted(self.env.items())), self.done)

    def copy(self):
        n = _ShS(self.env, self.done)
        n.trace = self.trace
        return n


class _ShapeDomain(Domain):
    """Abstract value of the sequence a compiler assembles for
    simple_form, however it is assembled (list + append, pairs flattened
    later, tuple concatenation, star display):
      ('L', kinds)          a literal display without opcode, e.g. 'CB'
      ('S', op, states)     a flat sequence (after opcode op) whose element
                            kinds drive the DFA above into `states`
      ('P', nonempty)       a list of (condition, body) pairs
    """

    def __init__(self, model, fi):
        self.model = model
        self.fi = fi
        self.forms = []       # (node, value)

    def kinds(self, elts):
        return ''.join(_kind(e, self.fi, self.model) for e in elts)

    def to_s(self, v):
        if v is None:
            return ('S', None, frozenset({_ERR}))
        if v[0] == 'L':
            return ('S', None, _feed({_S0}, v[1]))
        if v[0] == 'P':
            return ('S', None, frozenset({_S2} | (set() if v[1]
                                                  else {_S0})))
        return v

    def concat(self, a, b):
        if a is None or b is None:
            return None
        if a[0] == 'L' and b[0] == 'L' and len(a[1]) + len(b[1]) <= 6:
            return ('L', a[1] + b[1])
        sa = self.to_s(a)
        if b[0] == 'L':
            return ('S', sa[1], _feed(sa[2], b[1]))
        if b[0] == 'P':
            st = _feed(sa[2], 'CB')
            return ('S', sa[1], st if b[1] else st | sa[2])
        if sa[2] == frozenset({_S0}):
            return ('S', sa[1] or b[1], b[2])
        return ('S', sa[1], frozenset({_ERR}))

    def ev(self, e, st):
        if isinstance(e, ast.Name):
            return st.env.get(e.id)
        if isinstance(e, (ast.Tuple, ast.List)):
            cur = ('L', '')
            elts = list(e.elts)
            op = None
            if elts and isinstance(elts[0], ast.Constant) and \
                    isinstance(elts[0].value, str) and \
                    len(elts[0].value) == 1:
                op = elts[0].value
                elts = elts[1:]
                cur = ('S', op, frozenset({_S0}))
            if elts and all(isinstance(x, ast.Tuple) and
                            self.kinds(x.elts) == 'CB' for x in elts) \
                    and op is None:
                return ('P', True)
            for x in elts:
                if isinstance(x, ast.Starred):
                    cur = self.concat(cur, self.ev(x.value, st))
                else:
                    cur = self.concat(cur, ('L', self.kinds([x])))
            return cur
        if isinstance(e, ast.Call) and isinstance(e.func, ast.Name) and \
                e.func.id in ('tuple', 'list') and len(e.args) == 1:
            return self.ev(e.args[0], st)
        if isinstance(e, ast.BinOp) and isinstance(e.op, ast.Add):
            return self.concat(self.ev(e.left, st), self.ev(e.right, st))
        return None

    def raises(self, node, st):
        return []

    def effects(self, stmt, st):
        if isinstance(stmt, ast.Assign) and len(stmt.targets) == 1:
            t = stmt.targets[0]
            v = self.ev(stmt.value, st)
            if isinstance(t, ast.Name):
                st = st.copy()
                if v is None:
                    st.env.pop(t.id, None)
                else:
                    st.env[t.id] = v
            elif isinstance(t, ast.Attribute) and t.attr == 'simple_form':
                self.forms.append((stmt, v))
            return st
        if isinstance(stmt, ast.AugAssign) and isinstance(
                stmt.op, ast.Add) and isinstance(stmt.target, ast.Name):
            v = self.concat(st.env.get(stmt.target.id),
                            self.ev(stmt.value, st))
            st = st.copy()
            if v is None:
                st.env.pop(stmt.target.id, None)
            else:
                st.env[stmt.target.id] = v
            return st
        if isinstance(stmt, ast.Expr) and isinstance(stmt.value, ast.Call) \
                and isinstance(stmt.value.func, ast.Attribute) and \
                isinstance(stmt.value.func.value, ast.Name) and \
                stmt.value.args:
            c = stmt.value
            name = c.func.value.id
            cur = st.env.get(name)
            if cur is None:
                return st
            a = c.args[0]
            new = cur
            if c.func.attr == 'append':
                if isinstance(a, ast.Tuple) and \
                        self.kinds(a.elts) == 'CB' and (
                            cur[0] == 'P' or cur == ('L', '')):
                    new = ('P', True)
                elif cur[0] == 'P':
                    new = None
                else:
                    new = self.concat(cur, ('L', self.kinds([a])))
            elif c.func.attr == 'extend':
                new = self.concat(cur, self.ev(a, st)) \
                    if cur[0] != 'P' else None
            else:
                return st
            st = st.copy()
            if new is None:
                st.env.pop(name, None)
            else:
                st.env[name] = new
        return st

    def for_target(self, node, st):
        ns = st.copy()
        it = self.ev(node.iter, st)
        for x in ast.walk(node.target):
            if isinstance(x, ast.Name):
                ns.env.pop(x.id, None)
        if it is not None and it[0] == 'P' and \
                isinstance(node.target, ast.Name):
            ns.env[node.target.id] = ('L', 'CB')
        ns.done = ns.done | {id(node)}
        return ns

    def for_may_skip(self, node, st):
        it = self.ev(node.iter, st)
        if it is not None and it[0] == 'P' and it[1] and \
                id(node) not in st.done:
            return False
        return True


def dom_to_s(v):
    return _ShapeDomain(None, None).to_s(v)


def compiled_forms(model, fi):
    dom = _ShapeDomain(model, fi)
    it = Interp(dom, 50000)
    it.run(fi.node, _ShS())
    if it.overflow:
        raise AnalysisError(f'C09.R4: state budget in {fi.where}')
    out = {}
    for node, v in dom.forms:
        out.setdefault(id(node), (node, set()))[1].add(v)
    return list(out.values())


def rule_shapes(model):
    r = RuleResult('C09.R4', 'compiled tuple shapes of if/unless/call match '
                   'the interpreter (odd positions conditions, even '
                   'positions bodies, trailing element else); opcodes agree')
    # literal tuples ('i', ...)
    produced = set()
    for fi in model.all_funcs():
        for n in own_nodes(fi.node):
            if isinstance(n, ast.Assign) and any(
                    isinstance(t, ast.Attribute) and t.attr == 'simple_form'
                    for t in n.targets):
                v = n.value
                if isinstance(v, ast.Tuple) and len(v.elts) == 2 and \
                        isinstance(v.elts[0], ast.Constant) and \
                        isinstance(v.elts[1], ast.Starred):
                    # ('i', *sections)  ==  ('i',) + tuple(sections)
                    v = ast.BinOp(
                        left=ast.Tuple(elts=[v.elts[0]], ctx=ast.Load()),
                        op=ast.Add(),
                        right=ast.Call(func=ast.Name(id='tuple',
                                                     ctx=ast.Load()),
                                       args=[v.elts[1].value],
                                       keywords=[]))
                    ast.copy_location(v, n.value)
                    ast.fix_missing_locations(v)
                if isinstance(v, ast.Tuple) and v.elts and \
                        isinstance(v.elts[0], ast.Constant):
                    op = v.elts[0].value
                    produced.add(op)
                    kinds = ''.join(_kind(e, fi, model) for e in v.elts[1:])
                    r.instance(fi.where, v, f'{op}:{kinds}')
                    if op == 'i':
                        cls = fi.cls.name if fi.cls else ''
                        want = {'Call': ('CN',), 'Unless': ('CNB',)}.get(
                            cls)
                        if want is None:
                            want = ('CN', 'CNB', 'CB', 'CBB')
                        if kinds not in want:
                            r.finding(fi.where, v, f'conditional compiled '
                                      f'with shape {kinds!r}; the '
                                      f'interpreter expects {want} (C '
                                      'condition, B body, N no body)',
                                      node=v, ctx=fi)
                    elif op == 'v':
                        if kinds not in ('C', 'CX', 'X', 'XX'):
                            pass
                else:
                    # assembled piecewise: abstract interpretation of the
                    # compiler over the shape domain
                    for node, vals in compiled_forms(model, fi):
                        if node is not n:
                            continue
                        for val in sorted(vals, key=repr):
                            val = dom_to_s(val)
                            if val[1] is None:
                                r.instance(fi.where, n.value, '(open)')
                                continue
                            produced.add(val[1])
                            desc = '/'.join(sorted(val[2]))
                            r.instance(fi.where, n.value, f'{val[1]}:{desc}')
                            if val[1] == 'i' and not val[2] <= {_S2, _S3}:
                                r.finding(fi.where, n.value, 'if/elif/else '
                                          f'compiled as a sequence ending '
                                          f'in state {desc!r}, expected '
                                          'condition/body pairs followed by '
                                          'an optional else body',
                                          node=n.value, ctx=fi)
    # the three conditional commands are all compiled to the one
    # interpreter ('i' form): its handling of undefined names (false),
    # single evaluation and empty output is what the property describes
    producers = {i['where'].split(':')[1].split('.')[0]
                 for i in r.instances if i['verdict'].startswith('i:')}
    for mshort, cname, what in (
            ('DT_Var', 'Call', 'dtml-call (an undefined name no longer '
             'counts as false: the KeyError aborts the template)'),
            ('DT_If', 'If', 'dtml-if'), ('DT_If', 'Unless', 'dtml-unless')):
        c = model.cls(mshort, cname)
        ok = cname in producers
        r.instance(f'{mshort}:{cname}', "simple_form = ('i', ...)",
                   'compiled to the conditional interpreter' if ok
                   else 'OWN RENDER')
        if not ok:
            r.finding(f'{mshort}:{cname}', "simple_form = ('i', ...)",
                      f'{what} is not compiled to the conditional '
                      'interpreter any more', node=c.node, ctx=c)
    # every continuation section contributes its (condition, body) pair
    ifc = model.func('DT_If', 'If.__init__')
    for n in own_nodes(ifc.node):
        if isinstance(n, ast.For):
            appends = [c for c in ast.walk(n) if isinstance(c, ast.Call)
                       and isinstance(c.func, ast.Attribute)
                       and c.func.attr == 'append']
            if not appends:
                continue
            r.instance(ifc.where, f'for {norm(n.target)} in {norm(n.iter)}',
                       'elif loop')
            for x in ast.walk(n):
                if isinstance(x, (ast.Continue, ast.Break)):
                    r.finding(ifc.where, x, 'an elif section can be skipped '
                              'by the compiler: its condition is then never '
                              'tested and a later branch renders instead',
                              node=x, ctx=ifc)
            for c in appends:
                guarded = False
                for anc in ancestors(c):
                    if anc is n:
                        break
                    if isinstance(anc, ast.If):
                        guarded = True
                if guarded:
                    r.finding(ifc.where, c, 'a condition/body pair is '
                              'appended only conditionally', node=c,
                              ctx=ifc)
    # the "..." shorthand always compiles to an expression: interpret
    # name_param for an unnamed attribute whose text is quoted and collect
    # what it returns
    npf = model.func('DT_Util', 'name_param')
    dom = _ShorthandDomain(model, npf)
    Interp(dom).run(npf.node, _SH())
    if not dom.returns:
        raise AnalysisError('name_param: no return reached for the "..." '
                            'shorthand')
    seen = set()
    for node, kind in dom.returns:
        if (id(node), kind) in seen:
            continue
        seen.add((id(node), kind))
        r.instance(npf.where, node, 'shorthand -> expression'
                   if kind == 'EVAL' else 'shorthand -> NAME')
        if kind != 'EVAL':
            r.finding(npf.where, node, 'the quoted expression '
                      'shorthand can compile to a plain name '
                      'lookup: a callable is then called '
                      'instead of being passed to the '
                      'expression uncalled', node=node, ctx=npf)
    # opcodes tested by the interpreter
    fi = model.func('_DocumentTemplate', 'render_blocks_')
    tested = set()
    for n in own_nodes(fi.node):
        if isinstance(n, ast.Compare) and len(n.ops) == 1 and \
                isinstance(n.ops[0], ast.Eq) and \
                isinstance(n.comparators[0], ast.Constant) and \
                isinstance(n.comparators[0].value, str) and \
                len(n.comparators[0].value) == 1 and \
                isinstance(n.left, ast.Name):
            tested.add(n.comparators[0].value)
    r.instance(fi.where, f'opcodes tested {sorted(tested)}',
               f'produced {sorted(produced)}')
    if tested != produced:
        r.finding(fi.where, f'opcodes {sorted(tested)} vs '
                  f'{sorted(produced)}', 'the opcodes the compilers emit and '
                  'the interpreter handles differ', node=fi.node, ctx=fi)
    r.require_floor(5)
    return r


def _list_sequence(model, fi, expr):
    """Regular description of the list passed to tuple(): e.g.
    'CB(CB)*B?'."""
    if not (isinstance(expr, ast.Call) and expr.args and
            isinstance(expr.args[0], ast.Name)):
        return None
    lst = expr.args[0].id
    seq = ''
    for st in fi.node.body:
        seq += _seq_of_stmt(model, fi, st, lst)
    return seq


def _seq_of_stmt(model, fi, st, lst):
    if isinstance(st, ast.Assign) and isinstance(st.targets[0], ast.Name) \
            and st.targets[0].id == lst and isinstance(st.value, ast.List):
        return ''.join(_kind(e, fi, model) for e in st.value.elts)
    if isinstance(st, ast.Expr) and isinstance(st.value, ast.Call) and \
            isinstance(st.value.func, ast.Attribute) and \
            st.value.func.attr == 'append' and \
            isinstance(st.value.func.value, ast.Name) and \
            st.value.func.value.id == lst:
        return _kind(st.value.args[0], fi, model)
    if isinstance(st, ast.Expr) and isinstance(st.value, ast.Call) and \
            isinstance(st.value.func, ast.Attribute) and \
            st.value.func.attr == 'extend' and \
            isinstance(st.value.func.value, ast.Name) and \
            st.value.func.value.id == lst and st.value.args and \
            isinstance(st.value.args[0], (ast.Tuple, ast.List)):
        return ''.join(_kind(e, fi, model) for e in st.value.args[0].elts)
    if isinstance(st, ast.For):
        inner = ''.join(_seq_of_stmt(model, fi, s, lst) for s in st.body)
        return f'({inner})*' if inner else ''
    if isinstance(st, ast.If):
        a = ''.join(_seq_of_stmt(model, fi, s, lst) for s in st.body)
        b = ''.join(_seq_of_stmt(model, fi, s, lst) for s in st.orelse)
        if a and not b:
            return f'{a}?'
        if a or b:
            return f'[{a}|{b}]'
    return ''


def _inl(rule):
    """Run a rule on the view in which helpers that are new w.r.t. the
    reference tree are inlined at their call sites (normalise.N2)."""
    def run(model):
        return rule(model.inlined_view())
    run.__name__ = rule.__name__
    return run


class _ES(BaseState):
    __slots__ = ('eq', 'trace', 'cur_exc')

    def __init__(self, eq=None):
        self.eq = eq
        self.trace = ()
        self.cur_exc = None

    def key(self):
        return self.eq

    def copy(self):
        n = _ES(self.eq)
        n.trace = self.trace
        return n


class _SameKey(Domain):
    """Inside `except KeyError as t`: is `name == t.args[0]` established?"""

    def __init__(self, excname):
        self.excname = excname

    def _is_arg0(self, e):
        return isinstance(e, ast.Subscript) and \
            isinstance(e.value, ast.Attribute) and e.value.attr == 'args' \
            and isinstance(e.value.value, ast.Name) and \
            e.value.value.id == self.excname and \
            isinstance(e.slice, ast.Constant) and e.slice.value == 0

    def branch(self, test, st):
        if isinstance(test, ast.Compare) and len(test.ops) == 1 and \
                isinstance(test.ops[0], (ast.Eq, ast.NotEq)):
            a, b = test.left, test.comparators[0]
            if (self._is_arg0(a) and isinstance(b, ast.Name)) or \
                    (self._is_arg0(b) and isinstance(a, ast.Name)):
                pos = isinstance(test.ops[0], ast.Eq)
                return [(pos, _ES(True)), (not pos, _ES(False))]
        return [(True, st), (False, st)]


def rule_not_found_protocol(model):
    """Reader and writer of the "name not defined" signal agree."""
    a = locate(model)
    fi = a['fi']
    r = RuleResult('C09.R5', 'the "name is not defined" signal: the '
                   'interpreter treats a KeyError as "undefined" only on '
                   'paths that established that its first argument is the '
                   'looked-up name, and the namespace raises exactly '
                   'KeyError(<the key it was asked for>) when no source '
                   'defines the name')
    # ---- reader: every normal exit of the handler knows name == args[0]
    nread = 0
    for t in [n for n in ast.walk(a['loop']) if isinstance(n, ast.Try)]:
        if not any(CondDomain(model, a).is_eval(x) for s in t.body
                   for x in ast.walk(s)):
            continue
        for h in t.handlers:
            if h.type is None or norm(h.type) != 'KeyError':
                continue
            nread += 1
            if not h.name:
                r.instance(fi.where, 'except KeyError', 'no test')
                r.finding(fi.where, 'except KeyError (anonymous)',
                          'the handler cannot tell the looked-up name from '
                          'a KeyError raised inside the value: it does not '
                          'bind the exception', node=h, ctx=fi)
                continue
            outs = Interp(_SameKey(h.name)).block(h.body, _ES())
            bad = [o for o in outs if o.kind == NORMAL
                   and o.state.eq is not True]
            r.instance(fi.where, f'except KeyError as {h.name}',
                       f'{len(outs)} exits, {len(bad)} without the test')
            if bad:
                r.finding(fi.where, f'except KeyError as {h.name}: falls '
                          'through without args[0] == name',
                          'a path through the KeyError handler treats the '
                          'condition as undefined (false) without having '
                          f'established that {h.name}.args[0] is the '
                          'looked-up name: a KeyError raised inside the '
                          'value (e.g. a bare KeyError()) silently counts '
                          'as "false" and later conditions are evaluated',
                          node=h, ctx=fi, path=bad[0].state.trace)
    if nread < 1:
        raise AnalysisError('C09.R5: KeyError handler of the condition '
                            'lookup not found')
    # ---- writer: TemplateDict.getitem raises KeyError(key) only
    nwrite = 0
    g0 = model.func('_DocumentTemplate', 'TemplateDict.getitem')
    clo0 = model.closure(g0)
    key0 = g0.params()[1] if len(g0.params()) > 1 else None

    def key_of(g, depth=0):
        # the key: the second parameter of the lookup, or the parameter of
        # a helper to which every call site hands the caller's key
        if g is g0:
            return key0
        if depth > 2:
            return None
        got = set()
        for h, c, m in model.helper_calls(clo0, g):
            kh = key_of(h, depth + 1)
            if m is None or kh is None:
                return None
            ps = [p_ for p_, a_ in m.items()
                  if isinstance(a_, ast.Name) and a_.id == kh]
            got.add(ps[0] if len(ps) == 1 else None)
        return got.pop() if len(got) == 1 else None
    for g in clo0:
        if g.cls is not g0.cls and g.cls is not None:
            continue
        key = key_of(g)
        rebound = key is None or any(
            isinstance(x, ast.Name) and x.id == key and
            isinstance(x.ctx, ast.Store) for x in own_nodes(g.node))
        for x in own_nodes(g.node):
            if not isinstance(x, ast.Raise):
                continue
            nwrite += 1
            e = x.exc
            if e is None:
                r.instance(g.where, x, 're-raise')
                continue
            ok = isinstance(e, ast.Call) and isinstance(e.func, ast.Name) \
                and e.func.id == 'KeyError' and len(e.args) >= 1 and \
                isinstance(e.args[0], ast.Name) and e.args[0].id == key \
                and not rebound
            r.instance(g.where, x, 'KeyError(key)' if ok else 'OTHER')
            if not ok:
                r.finding(g.where, x, 'the namespace lookup raises '
                          'something other than KeyError(<the key it was '
                          'asked for>): the conditional interpreter '
                          'recognises an undefined name by comparing the '
                          'first argument of the KeyError with the name, '
                          'so an undefined condition raises instead of '
                          'being false', node=x, ctx=g)
    if nwrite < 1:
        raise AnalysisError('C09.R5: TemplateDict.getitem raises nothing')
    # ---- layers: the lookup loop skips a layer only on KeyError /
    # NameError; a layer that refuses or misses a name with anything else
    # aborts the rendering of a condition that should count as false
    skipped = set()
    g = model.func('_DocumentTemplate', 'TemplateDict.getitem')
    for x in [y for h_ in model.closure(g)
              if h_.cls is g.cls or h_.cls is None
              for y in own_nodes(h_.node)]:
        if isinstance(x, ast.ExceptHandler) and x.type is not None and any(
                isinstance(y, (ast.Continue, ast.Pass))
                for y in ast.walk(x)) and any(
                isinstance(a_, (ast.For, ast.While))
                for a_ in ancestors(x)):
            els = x.type.elts if isinstance(x.type, ast.Tuple) else [x.type]
            skipped |= {norm(e).split('.')[-1] for e in els}
    if not skipped:
        raise AnalysisError('C09.R5: the handler that skips a layer was '
                            'not found in TemplateDict.getitem')
    for mod, qual in (('_DocumentTemplate', 'InstanceDict.__getitem__'),
                      ('DT_InSV', 'sequence_variables.__getitem__')):
        h = model.find_func(mod, qual) if hasattr(model, 'find_func') \
            else None
        if h is None:
            continue
        for x in own_nodes(h.node):
            if not (isinstance(x, ast.Raise) and x.exc is not None):
                continue
            e = x.exc.func if isinstance(x.exc, ast.Call) else x.exc
            nm = norm(e).split('.')[-1]
            ok = nm in skipped
            r.instance(h.where, x, 'skippable' if ok else 'NOT SKIPPED')
            if not ok:
                r.finding(h.where, x, f'a namespace layer signals a missing '
                          f'or refused name with {nm}; the lookup skips a '
                          f'layer only on {sorted(skipped)}, so a condition '
                          'naming it aborts the rendering instead of being '
                          'false (and lower layers are never consulted)',
                          node=x, ctx=h)
    return r


def _unwrapped(model, fi, e, _depth=0):
    """Is `e` the acquisition-unwrapped form of some object?"""
    if isinstance(e, ast.Call):
        f = e.func
        if isinstance(f, ast.Name) and f.id == 'aq_base':
            return True
        if isinstance(f, ast.Name) and f.id == 'getattr' and \
                len(e.args) >= 2 and isinstance(e.args[1], ast.Constant) \
                and e.args[1].value == 'aq_base':
            return True
        return False
    if isinstance(e, ast.Attribute) and e.attr == 'aq_base':
        return True
    if isinstance(e, ast.Name) and _depth < 3:
        defs = model.local_defs(fi, e.id)
        return bool(defs) and all(
            isinstance(d, ast.AST) and _unwrapped(model, fi, d, _depth + 1)
            for d in defs)
    return False


def rule_marker_probe(model):
    r = RuleResult('C09.R6', 'the marker that selects the call signature '
                   'of a looked-up value (isDocTemp: call with the '
                   'namespace; otherwise call without arguments) is read '
                   'from the acquisition-unwrapped object: through a '
                   'wrapper the public marker of any template in the '
                   'acquisition chain would be acquired')
    n = 0
    for fi in model.all_funcs():
        for x in own_nodes(fi.node):
            recv = None
            if isinstance(x, ast.Call) and isinstance(x.func, ast.Name) and \
                    x.func.id in ('getattr', 'hasattr') and \
                    len(x.args) >= 2 and \
                    isinstance(x.args[1], ast.Constant) and \
                    x.args[1].value == 'isDocTemp':
                recv = x.args[0]
            elif isinstance(x, ast.Attribute) and x.attr == 'isDocTemp' \
                    and isinstance(x.ctx, ast.Load):
                recv = x.value
            if recv is None:
                continue
            n += 1
            ok = _unwrapped(model, fi, recv)
            r.instance(fi.where, x, 'unwrapped' if ok else 'WRAPPED')
            if not ok:
                r.finding(fi.where, x, 'isDocTemp is probed on a value '
                          'that may be an acquisition wrapper: a plain '
                          'callable living below a template acquires the '
                          'marker and is called as value(None, md) instead '
                          'of value()', node=x, ctx=fi)
    if n < 2:
        raise AnalysisError(f'C09.R6: only {n} isDocTemp probes found')
    return r


INLINED_VIEW = True
RULES_PLAIN = [rule_eval, rule_keyerror, rule_shapes,
               rule_not_found_protocol, rule_marker_probe]
RULES = [_inl(r_) for r_ in RULES_PLAIN] if INLINED_VIEW else RULES_PLAIN
EXPLANATION = (
    'Path-sensitive interpretation of one iteration of the condition loop '
    '(evaluation count, cache-store-before-body, no back edge after a body, '
    'else unreachable after a body), handler-scope queries, abstract shape '
    'of the compiled tuples vs. the positions the interpreter reads.')
ASSUMPTIONS = ['does not decide truthiness of user values nor what user '
               'callables do when called once']
TRUSTED = ['python ast']
