"""C05 -- security guards mediate every read of client data; '_' names stay
private.

R1 every dynamic-name attribute read goes through the guard-or-fallback
   idiom (or is a probe / an engine-internal dispatch)
R2 every element read of an iterated client sequence whose value is used
   goes through guarded_getitem (or a validation pass)
R3 InstanceDict refuses '_' names before reading the client; the cache can
   not hold one
R4 restricted code + guards bound when a namespace has guards
R5 guards are propagated to every namespace built while rendering
"""
import ast

from ..core import AnalysisError
from ..core import RuleResult
from ..core import norm
from ..flow import BaseState
from ..flow import Domain
from ..flow import Interp
from ..model import ancestors
from ..model import own_nodes

# engine-internal dynamic dispatch (receiver is the engine's own object)
INTERNAL = {
    'DT_InSV:sequence_variables.__getitem__':
        'suffix dispatch on the sequence_variables object itself',
    'DT_Util:StringModuleWrapper.__getattr__':
        'receiver is the stdlib string module',
}
GUARD_ATTRS = ('guarded_getattr',)
ITEM_GUARD = 'guarded_getitem'


def _is_guard_source(e):
    """md.guarded_getattr / self.guarded_getattr /
    getattr(md, 'guarded_getattr', None)"""
    if isinstance(e, ast.Attribute) and e.attr in GUARD_ATTRS:
        return True
    if isinstance(e, ast.Call) and isinstance(e.func, ast.Name) and \
            e.func.id == 'getattr' and len(e.args) >= 2 and \
            isinstance(e.args[1], ast.Constant) and \
            e.args[1].value in GUARD_ATTRS:
        return True
    return False


def guard_idiom(model, fi, name):
    """Is local `name` bound by the guard-or-fallback idiom?
    defs == {guard source, getattr} and the getattr fallback sits under
    `if <name> is None`."""
    f = fi
    while f is not None:
        defs = model.local_defs(f, name)
        if defs:
            break
        f = f.parent
    else:
        return False
    if not defs:
        return False
    has_guard = False
    for d in defs:
        if isinstance(d, ast.Call) and not _is_guard_source(d):
            # a helper of the repository that returns the idiom value
            ok = False
            for t in model.resolve_callee(d.func, f):
                if t[0] == 'func' and returns_guard(model, t[1], call=d):
                    ok = True
            if ok:
                has_guard = True
                continue
            return False
        if isinstance(d, (str, tuple)):
            if d == 'param':
                dv = model.param_default(f, name)
                if dv is not None and _is_guard_source(dv):
                    has_guard = True
                    continue
            return False
        def pure_guard(nm):
            ds = model.local_defs(f, nm)
            return bool(ds) and all(isinstance(x, ast.AST) and
                                    _is_guard_source(x) for x in ds)
        if _is_guard_source(d):
            has_guard = True
        elif isinstance(d, ast.IfExp) and isinstance(
                d.test, ast.Compare) and len(d.test.ops) == 1 and \
                isinstance(d.test.comparators[0], ast.Constant) and \
                d.test.comparators[0].value is None and (
                    _is_guard_source(d.test.left) or (
                        isinstance(d.test.left, ast.Name) and (
                            d.test.left.id == name or
                            pure_guard(d.test.left.id)))):
            # get = getattr if g is None else g
            a_, b_ = (d.body, d.orelse) if isinstance(
                d.test.ops[0], ast.Is) else (d.orelse, d.body)
            if norm(a_) == 'getattr' and norm(b_) == norm(d.test.left):
                has_guard = True
            else:
                return False
        elif isinstance(d, ast.Name) and d.id != 'getattr' and \
                d.id != name and pure_guard(d.id):
            # guard = md.guarded_getattr; ...; name = guard
            has_guard = True
        elif isinstance(d, ast.Name) and d.id == 'getattr':
            # must be under `if name is None` (or under the same test of
            # the local that holds the guard)
            ok = False
            asg = d._dt_parent
            for anc in ancestors(asg):
                if not (isinstance(anc, ast.If) and isinstance(
                        anc.test, ast.Compare) and len(anc.test.ops) == 1
                        and isinstance(anc.test.comparators[0], ast.Constant)
                        and anc.test.comparators[0].value is None):
                    continue
                if isinstance(anc.test.left, ast.Name):
                    g_ = anc.test.left.id
                    if g_ != name and not pure_guard(g_):
                        continue
                elif not _is_guard_source(anc.test.left):
                    continue
                if (isinstance(anc.test.ops[0], ast.Is) and
                        asg in anc.body) or (
                        isinstance(anc.test.ops[0], ast.IsNot) and
                        asg in anc.orelse):
                    ok = True
            if not ok:
                return False
        else:
            return False
    return has_guard


def returns_guard(model, fi, _depth=0, call=None):
    """Does every return of fi return a local bound by the
    guard-or-fallback idiom?"""
    if _depth > 2:
        return False
    rets = [n for n in own_nodes(fi.node) if isinstance(n, ast.Return)]
    if not rets:
        return False
    guard_params = set()
    if call is not None:
        # the guard itself is handed in:  attribute_getter(md.guarded_getattr)
        ps = fi.params()
        if fi.cls is not None and ps and ps[0] == 'self':
            ps = ps[1:]
        for p_, a_ in zip(ps, call.args):
            if _is_guard_source(a_):
                guard_params.add(p_)

    def pure_guard(name):
        defs = model.local_defs(fi, name)
        if name in guard_params and all(d == 'param' for d in defs):
            return True
        return bool(defs) and all(isinstance(d, ast.AST) and
                                  _is_guard_source(d) for d in defs)

    def ifexp_idiom(v):
        # getattr if g is None else g  /  g if g is not None else getattr
        if not (isinstance(v, ast.IfExp) and isinstance(
                v.test, ast.Compare) and len(v.test.ops) == 1 and
                isinstance(v.test.left, ast.Name) and
                pure_guard(v.test.left.id) and isinstance(
                    v.test.comparators[0], ast.Constant) and
                v.test.comparators[0].value is None):
            return False
        g_ = v.test.left.id
        a_, b_ = (v.body, v.orelse) if isinstance(v.test.ops[0], ast.Is) \
            else ((v.orelse, v.body) if isinstance(v.test.ops[0], ast.IsNot)
                  else (None, None))
        return a_ is not None and norm(a_) == 'getattr' and norm(b_) == g_
    guard_returned = False
    for r in rets:
        v = r.value
        if ifexp_idiom(v):
            guard_returned = True
            continue
        if isinstance(v, ast.Name) and guard_idiom(model, fi, v.id):
            guard_returned = True
            continue
        # early-return form of the idiom:
        #   guard = md.guarded_getattr
        #   if guard is None: return getattr
        #   return guard
        if isinstance(v, ast.Name) and pure_guard(v.id):
            guard_returned = True
            continue
        if isinstance(v, ast.Name) and v.id == 'getattr':
            ok = False
            for anc in ancestors(r):
                if isinstance(anc, ast.If) and isinstance(
                        anc.test, ast.Compare) and len(anc.test.ops) == 1 \
                        and isinstance(anc.test.left, ast.Name) and \
                        pure_guard(anc.test.left.id) and isinstance(
                            anc.test.comparators[0], ast.Constant) and \
                        anc.test.comparators[0].value is None:
                    in_body = any(r is x for b in anc.body
                                  for x in ast.walk(b))
                    if (isinstance(anc.test.ops[0], ast.Is) and in_body) or \
                            (isinstance(anc.test.ops[0], ast.IsNot) and
                             not in_body):
                        ok = True
            if ok:
                continue
        return False
    return guard_returned


def namespace_names(model, fi):
    """Local names that denote a namespace (TemplateDict) object: the
    parameters conventionally carrying it, locals bound to a TemplateDict()
    and aliases of those."""
    names = {p for p in fi.params() if p in ('md', '_md', 'namespace')}
    changed = True
    while changed:
        changed = False
        for n in own_nodes(fi.node):
            if isinstance(n, ast.Assign) and \
                    isinstance(n.targets[0], ast.Name) and \
                    n.targets[0].id not in names:
                v = n.value
                if (isinstance(v, ast.Name) and v.id in names) or (
                        isinstance(v, ast.Call) and any(
                            x.endswith(':TemplateDict')
                            for x in model.callee_names(v, fi))):
                    names.add(n.targets[0].id)
                    changed = True
    return names


def _dynamic_name(call, pos):
    if len(call.args) <= pos:
        return False
    a = call.args[pos]
    return not (isinstance(a, ast.Constant) and isinstance(a.value, str))


def rule_attr_reads(model):
    r = RuleResult('C05.R1', 'every attribute read by a dynamic name goes '
                   'through the guard-or-fallback idiom')
    n_guarded = 0
    n_literal = 0
    for fi in model.all_funcs():
        for n in own_nodes(fi.node):
            if not isinstance(n, ast.Call):
                continue
            f = n.func
            if isinstance(f, ast.Name) and f.id in ('getattr', 'hasattr') \
                    and len(n.args) >= 2:
                if not _dynamic_name(n, 1):
                    n_literal += 1
                    continue
                if f.id == 'hasattr':
                    r.instance(fi.where, n, 'probe (selects a branch only)')
                    continue
                if fi.where in INTERNAL:
                    r.instance(fi.where, n, 'internal: ' +
                               INTERNAL[fi.where])
                    continue
                recv = n.args[0]
                if isinstance(recv, ast.Name) and \
                        recv.id in namespace_names(model, fi):
                    r.instance(fi.where, n, 'internal: receiver is the '
                               'namespace object itself')
                    continue
                r.instance(fi.where, n, 'UNGUARDED')
                r.finding(fi.where, n, 'client attribute read by an '
                          'author-chosen name with plain getattr: a value '
                          'the security guard refuses still reaches the '
                          'output, the namespace or a sort order', node=n,
                          ctx=fi)
            elif isinstance(f, ast.Name) and len(n.args) == 2 and \
                    f.id not in ('isinstance', 'hasattr', 'getattr') and \
                    guard_idiom(model, fi, f.id):
                n_guarded += 1
                r.instance(fi.where, n, 'guarded (guard-or-fallback idiom)')
    # definitions of the idiom whose fallback is not conditional are caught
    # by guard_idiom() returning False: then the call is an ordinary call of
    # a local bound to getattr -> judge those too
    for fi in model.all_funcs():
        for n in own_nodes(fi.node):
            if isinstance(n, ast.Call) and isinstance(n.func, ast.Name) and \
                    n.func.id not in ('getattr', 'hasattr') and \
                    len(n.args) >= 2:
                f = fi
                defs = []
                while f is not None and not defs:
                    defs = model.local_defs(f, n.func.id)
                    f = f.parent
                binds_getattr = any(
                    (isinstance(d, ast.Name) and d.id == 'getattr') or
                    (not isinstance(d, (str, tuple)) and
                     _is_guard_source(d)) for d in defs)
                if binds_getattr and not guard_idiom(model, fi, n.func.id):
                    r.instance(fi.where, n, 'UNGUARDED alias')
                    r.finding(fi.where, n, f'`{n.func.id}` may be plain '
                              'getattr even when the namespace has a guard '
                              '(guard-or-fallback idiom broken)', node=n,
                              ctx=fi)
    r.stats = {'guarded_sites': n_guarded, 'literal_name_reads': n_literal}
    if n_guarded < 3:
        raise AnalysisError(f'C05.R1: only {n_guarded} guarded sites found '
                            '(floor 3)')
    r.require_floor(12)
    # control
    r.control('control: idiom recognised', n_guarded >= 3)
    return r


# ---------------------------------------------------------------- R2
SEQ_FUNCS = {
    'DT_In:InClass.renderwb': ('sequence',),
    'DT_In:InClass.renderwob': ('sequence',),
    'DT_In:InClass.sort_sequence': ('sequence',),
    'DT_InSV:sequence_variables.value': ('self.items',),
    'DT_InSV:sequence_variables.key': ('self.items',),
    'DT_InSV:sequence_variables.item': ('self.items',),
    'DT_InSV:sequence_variables.statistics': ('self.items', 'items'),
    'TreeTag:tpRenderTABLE': ('items',),
}


def _item_guard_name(model, fi):
    for n in own_nodes(fi.node):
        if isinstance(n, ast.Assign) and isinstance(n.targets[0], ast.Name):
            v = n.value
            if (isinstance(v, ast.Attribute) and v.attr == ITEM_GUARD) or (
                    isinstance(v, ast.Call) and
                    isinstance(v.func, ast.Name) and
                    v.func.id == 'getattr' and len(v.args) >= 2 and
                    isinstance(v.args[1], ast.Constant) and
                    v.args[1].value == ITEM_GUARD):
                return n.targets[0].id
    return None


def rule_item_reads(model):
    r = RuleResult('C05.R2', 'elements of an iterated client sequence are '
                   'read through guarded_getitem when their value is used')
    for where, seqnames in sorted(SEQ_FUNCS.items()):
        mshort, qual = where.split(':')
        fi = model.func(mshort, qual)
        g = _item_guard_name(model, fi)
        if g:
            defs = model.local_defs(fi, g)
            if len(defs) != 1:
                extra = [d for d in defs if not (
                    isinstance(d, ast.Call) or isinstance(d, ast.Attribute))]
                for d in extra:
                    r.finding(where, f'{g} = {norm(d) if not isinstance(d, (str, tuple)) else d}',
                              f'the item guard `{g}` is overridden after it '
                              'was taken from the namespace: items are then '
                              'read without consulting the guard',
                              node=fi.node, ctx=fi)
        # validation pass: for i in range(len(seq)): g(seq, i)
        validated = set()
        if g:
            for n in own_nodes(fi.node):
                if isinstance(n, ast.For):
                    for c in ast.walk(n):
                        if isinstance(c, ast.Call) and \
                                isinstance(c.func, ast.Name) and \
                                c.func.id == g and len(c.args) == 2 and \
                                norm(c.args[0]) in seqnames and \
                                isinstance(c._dt_parent, ast.Expr):
                            validated.add(norm(c.args[0]))
        for n in own_nodes(fi.node):
            site = None
            if isinstance(n, ast.Subscript) and isinstance(n.ctx, ast.Load) \
                    and norm(n.value) in seqnames and \
                    not isinstance(n.slice, ast.Slice):
                if isinstance(n._dt_parent, ast.Expr):
                    r.instance(where, n, 'probe (value discarded)')
                    continue
                site = n
                seq = norm(n.value)
            elif isinstance(n, ast.For) and norm(n.iter) in seqnames:
                site = n.iter
                seq = norm(n.iter)
            elif isinstance(n, ast.Call) and isinstance(n.func, ast.Name) \
                    and g and n.func.id == g and len(n.args) == 2 and \
                    norm(n.args[0]) in seqnames:
                r.instance(where, n, 'guarded read')
                continue
            if site is None:
                continue
            ok = False
            if seq in validated:
                ok = True
                why = 'after validation pass'
            elif g:
                # else-branch of `if g is not None`
                for anc in ancestors(n):
                    if isinstance(anc, ast.If) and \
                            norm(anc.test) == f'{g} is not None' and \
                            any(n is x or n in ast.walk(x)
                                for x in anc.orelse):
                        ok = True
                        why = 'fallback when no guard'
                    if isinstance(anc, ast.FunctionDef):
                        break
            if ok:
                r.instance(where, site, why)
            else:
                label = (f'for ... in {seq}' if isinstance(n, ast.For)
                         else n)
                r.instance(where, label, 'UNGUARDED')
                r.finding(where, label, 'element of the client sequence '
                          'read without guarded_getitem and its value is '
                          'used (sort keys, per-item variables, '
                          'statistics): refused items still influence the '
                          'rendering', node=n, ctx=fi)
    r.require_floor(8)
    return r


# ---------------------------------------------------------------- R3
class US(BaseState):
    __slots__ = ('checked', 'trace', 'cur_exc')

    def __init__(self, checked=False):
        self.checked = checked
        self.trace = ()
        self.cur_exc = None

    def key(self):
        return self.checked

    def copy(self):
        n = US(self.checked)
        n.trace = self.trace
        return n


class UnderscoreDomain(Domain):
    def __init__(self, fi, key, model=None):
        self.fi = fi
        self.model = model
        self.keyname = key
        self.problems = []
        self.reads = 0
        self.stores = 0

    def _is_us_test(self, t):
        s = norm(t)
        k = self.keyname
        return isinstance(t, ast.Compare) and "'_'" in s and (
            f'{k}[0]' in s or f'{k}[:1]' in s)

    def branch(self, test, st):
        if self._is_us_test(test):
            eq = isinstance(test.ops[0], ast.Eq)
            a, b = US(st.checked), US(True)
            a.trace = b.trace = st.trace
            return [(eq, a), (not eq, b)]
        if isinstance(test, ast.Call) and 'startswith' in norm(test) and \
                self.keyname in norm(test) and "'_'" in norm(test):
            a, b = US(st.checked), US(True)
            return [(True, a), (False, b)]
        return [(True, st), (False, st)]

    def _scan(self, node, st):
        k = self.keyname
        for n in ast.walk(node):
            if isinstance(n, ast.Call) and len(n.args) in (2, 3) and \
                    norm(n.args[0]) == 'self.inst':
                self.reads += 1
                a = n.args[1]
                same = norm(a) == k
                if not same and isinstance(a, ast.Name):
                    defs = self.model.local_defs(self.fi, a.id)
                    same = len(defs) == 1 and isinstance(defs[0], ast.Name) \
                        and defs[0].id == k
                if not same:
                    self.problems.append((n, 'the client object is read by '
                                          f'`{norm(a)}`, not by the name '
                                          f'`{k}` the underscore refusal '
                                          'was applied to (a transformed '
                                          'name can start with an '
                                          'underscore again)'))
                if not st.checked:
                    self.problems.append((n, 'the client object is read by '
                                          'a name that has not been tested '
                                          "for a leading '_'"))
            if isinstance(n, ast.Subscript) and \
                    isinstance(n.ctx, ast.Store) and \
                    norm(n.value) == 'self.cache':
                self.stores += 1
                if not st.checked:
                    self.problems.append((n, 'the per-instance cache can '
                                          "receive a '_' name (it is "
                                          'consulted before the refusal)'))

    def effects(self, stmt, st):
        self._scan(stmt, st)
        return st

    def on_return(self, node, st):
        if node.value is not None:
            self._scan(node.value, st)
        return [], st


def rule_underscore(model):
    r = RuleResult('C05.R3', "names starting with '_' are refused before "
                   'the client object is read; the lookup cache cannot hold '
                   'one')
    fi = model.func('_DocumentTemplate', 'InstanceDict.__getitem__')
    key = fi.params()[1]
    dom = UnderscoreDomain(fi, key, model)
    Interp(dom).run(fi.node, US())
    r.instance(fi.where, f'{dom.reads} client read(s), {dom.stores} cache '
               'store(s)')
    if dom.reads < 1:
        raise AnalysisError('InstanceDict.__getitem__: client read '
                            '`get(self.inst, key)` not found')
    seen = set()
    for n, msg in dom.problems:
        if (norm(n), msg) not in seen:
            seen.add((norm(n), msg))
            r.finding(fi.where, n, msg, node=n, ctx=fi)
    # the refusing branch raises KeyError (or answers __str__ only)
    tests = [n for n in own_nodes(fi.node) if isinstance(n, ast.If)
             and dom._is_us_test(n.test)]
    for t in tests:
        r.instance(fi.where, f'if {norm(t.test)}')
        raises = [x for x in ast.walk(t) if isinstance(x, ast.Raise)]
        if not raises:
            r.finding(fi.where, f'if {norm(t.test)}', "the '_' branch does "
                      'not refuse the name', node=t, ctx=fi)
        for x in ast.walk(ast.Module(body=t.body, type_ignores=[])):
            if isinstance(x, ast.Return) and x.value is not None:
                # only str(self.inst) may be answered here
                if norm(x.value) != 'str(self.inst)':
                    r.finding(fi.where, x, "the '_' branch returns client "
                              'data', node=x, ctx=fi)
    if not tests:
        r.finding(fi.where, 'underscore test', "no test for a leading '_' "
                  'in the client lookup', node=fi.node, ctx=fi)
    return r


# ---------------------------------------------------------------- R4
class _CodeDomain(Domain):
    """Eval.eval with a guard present: where does the evaluated code object
    come from?"""

    def __init__(self, gv):
        self.gv = gv
        self.sites = []

    def branch(self, test, st):
        t = norm(test)
        if t == f'{self.gv} is not None':
            return [(True, st)]
        if t == f'{self.gv} is None':
            return [(False, st)]
        return [(True, st), (False, st)]

    def raises(self, node, st):
        return []

    def _note(self, node, st):
        for c in ast.walk(node):
            if isinstance(c, ast.Call) and isinstance(c.func, ast.Name) and \
                    c.func.id == 'eval' and c.args:
                a = c.args[0]
                kind = st.env.get(a.id, 'other') if isinstance(a, ast.Name) \
                    else (a.attr if isinstance(a, ast.Attribute) and
                          a.attr in ('rcode', 'ucode') else 'other')
                self.sites.append((c, kind))

    def effects(self, stmt, st):
        self._note(stmt, st)
        if isinstance(stmt, ast.Assign) and len(stmt.targets) == 1 and \
                isinstance(stmt.targets[0], ast.Name):
            v = stmt.value
            kind = 'other'
            if isinstance(v, ast.Attribute) and v.attr in ('rcode', 'ucode') \
                    and norm(v.value) == 'self':
                kind = v.attr
            elif isinstance(v, ast.Name):
                kind = st.env.get(v.id, 'other')
            st = st.copy()
            st.env[stmt.targets[0].id] = kind
        return st

    def on_return(self, node, st):
        if node.value is not None:
            self._note(node.value, st)
        return [], st


def rule_restricted(model):
    r = RuleResult('C05.R4', 'with guards present expressions run as '
                   'restricted code with _getattr_/_getitem_ bound to the '
                   'guards and no builtins')
    fi = model.func('DT_Util', 'Eval.eval')
    gv = iv = None
    for n in own_nodes(fi.node):
        if isinstance(n, ast.Assign) and isinstance(n.targets[0], ast.Name) \
                and isinstance(n.value, ast.Call) and \
                isinstance(n.value.func, ast.Name) and \
                n.value.func.id == 'getattr' and len(n.value.args) >= 2 and \
                isinstance(n.value.args[1], ast.Constant):
            if n.value.args[1].value == 'guarded_getattr':
                gv = n.targets[0].id
            elif n.value.args[1].value == 'guarded_getitem':
                iv = n.targets[0].id
    if gv is None:
        raise AnalysisError('Eval.eval: guard lookup not found')
    ifs = [n for n in own_nodes(fi.node) if isinstance(n, ast.If)
           and norm(n.test) in (f'{gv} is not None', f'{gv} is None')]
    if not ifs:
        raise AnalysisError('Eval.eval: branch on the guard not found')
    top = ifs[0]
    pos, neg = (top.body, top.orelse) if 'is not' in norm(top.test) \
        else (top.orelse, top.body)

    def code_of(stmts):
        for s in stmts:
            for n in ast.walk(s):
                if isinstance(n, ast.Assign) and \
                        isinstance(n.value, ast.Attribute) and \
                        n.value.attr in ('rcode', 'ucode'):
                    return n.value.attr
        return None

    def dict_of(stmts):
        """Constant-key bindings established by the statements: a dict
        display, d.update(k=v) / d.update({...}), d['k'] = v."""
        out = {}
        for s in stmts:
            for n in ast.walk(s):
                if isinstance(n, ast.Dict):
                    for k, v in zip(n.keys, n.values):
                        if isinstance(k, ast.Constant):
                            out.setdefault(k.value, v)
                elif isinstance(n, ast.Call) and isinstance(
                        n.func, ast.Attribute) and n.func.attr == 'update':
                    for kw in n.keywords:
                        if kw.arg is not None:
                            out.setdefault(kw.arg, kw.value)
                elif isinstance(n, ast.Assign) and isinstance(
                        n.targets[0], ast.Subscript) and isinstance(
                        n.targets[0].slice, ast.Constant):
                    out.setdefault(n.targets[0].slice.value, n.value)
        return out
    pc, nc = code_of(pos), code_of(neg)
    r.instance(fi.where, f'guarded branch uses {pc}, unguarded {nc}')
    if pc != 'rcode':
        r.finding(fi.where, f'code = self.{pc}', 'with a guard present the '
                  'expression does not run as restricted code', node=top,
                  ctx=fi)
    prep = any(isinstance(n, ast.Call) and
               isinstance(n.func, ast.Attribute) and
               n.func.attr == 'prepRestrictedCode'
               for s in pos for n in ast.walk(s))
    if not prep:
        r.finding(fi.where, 'prepRestrictedCode()', 'restricted code is not '
                  'prepared on the guarded branch', node=top, ctx=fi)
    d = dict_of(pos)
    r.instance(fi.where, 'globals: ' + ', '.join(
        f'{k}={norm(v)}' for k, v in sorted(d.items())))
    want = {'_getattr_': gv, '_getitem_': iv}
    for k, v in want.items():
        if k not in d or norm(d[k]) != v:
            r.finding(fi.where, f"'{k}': {norm(d.get(k))}", f'{k} is not '
                      'bound to the namespace guard', node=top, ctx=fi)
    b = d.get('__builtins__')
    if not (isinstance(b, ast.Constant) and b.value is None):
        r.finding(fi.where, f"'__builtins__': {norm(b)}", 'builtins are '
                  'available to restricted expressions', node=top, ctx=fi)
    # the dict evaluated is the one built
    ev = [n for n in own_nodes(fi.node) if isinstance(n, ast.Call)
          and isinstance(n.func, ast.Name) and n.func.id == 'eval']
    if not ev:
        raise AnalysisError('Eval.eval: eval() call not found')
    # on every path with a guard present the code object handed to eval()
    # was read from self.rcode (path-sensitive reaching definition)
    cdom = _CodeDomain(gv)
    Interp(cdom).run(fi.node, _OS())
    seen_k = set()
    for node, kind in cdom.sites:
        if kind in seen_k:
            continue
        seen_k.add(kind)
        r.instance(fi.where, node, f'guard present: evaluates {kind}')
        if kind != 'rcode':
            r.finding(fi.where, f'eval({kind})', 'with a guard present the '
                      'code object evaluated is not (on every path) the '
                      'restricted code self.rcode (e.g. a code object '
                      'remembered from an earlier, unrestricted '
                      'evaluation)', node=node, ctx=fi)
    if not cdom.sites:
        raise AnalysisError('Eval.eval: eval() not reached with a guard')
    # d.update(self.globals) must not come after names override guards:
    # names are only added when absent
    for n in own_nodes(fi.node):
        if isinstance(n, ast.Assign) and \
                isinstance(n.targets[0], ast.Subscript) and \
                norm(n.targets[0].value) == norm(ev[0].args[1]):
            guarded = any(isinstance(a, ast.If) and 'not in' in norm(a.test)
                          for a in ancestors(n))
            sl = n.targets[0].slice
            if isinstance(sl, ast.Constant) and sl.value in (
                    '_getattr_', '_getitem_', '__builtins__'):
                # the guard binding itself, written as a store
                exp = {'_getattr_': gv, '_getitem_': iv,
                       '__builtins__': 'None'}[sl.value]
                if norm(n.value) == exp:
                    r.instance(fi.where, n, 'guard binding')
                    continue
            if not guarded:
                # guard clause: `if name in d: continue` earlier in the
                # same block
                dname = norm(n.targets[0].value)
                kname = norm(n.targets[0].slice)
                child = n
                for a in ancestors(n):
                    for fld in ('body', 'orelse'):
                        lst = getattr(a, fld, None)
                        if isinstance(lst, list) and child in lst:
                            for prev in lst[:lst.index(child)]:
                                if isinstance(prev, ast.If) and \
                                        norm(prev.test) == \
                                        f'{kname} in {dname}' and \
                                        prev.body and isinstance(
                                            prev.body[-1],
                                            (ast.Continue, ast.Return,
                                             ast.Raise, ast.Break)):
                                    guarded = True
                    if isinstance(a, (ast.For, ast.While, ast.FunctionDef)):
                        break
                    child = a
            r.instance(fi.where, n, 'name binding')
            if not guarded:
                r.finding(fi.where, n, 'a namespace value can overwrite the '
                          'guard bindings of the expression globals',
                          node=n, ctx=fi)
    return r


# ---------------------------------------------------------------- R5
EXEMPT_NS = {
    'DT_Util:Eval.__call__': 'not reachable from a template render path',
    '_DocumentTemplate:TemplateDict.__call__':
        '_.namespace(): holds author-supplied values only',
}


def rule_propagation(model):
    r = RuleResult('C05.R5', 'every namespace built while rendering carries '
                   'both guards; every InstanceDict is given the live '
                   'namespace')
    for fi in model.all_funcs():
        if fi.module.short == 'security':
            continue
        for n in own_nodes(fi.node):
            if isinstance(n, ast.Assign) and isinstance(n.value, ast.Call) \
                    and isinstance(n.targets[0], ast.Name):
                names = model.callee_names(n.value, fi)
                is_td = any(x.endswith(':TemplateDict') for x in names) or (
                    isinstance(n.value.func, ast.Call) and
                    norm(n.value.func) == 'type(self)')
                if not is_td:
                    continue
                var = n.targets[0].id
                if fi.where in EXEMPT_NS:
                    r.instance(fi.where, n, 'exempt: ' +
                               EXEMPT_NS[fi.where])
                    continue
                got = set()
                for m in own_nodes(fi.node):
                    if isinstance(m, ast.Assign) and \
                            isinstance(m.targets[0], ast.Attribute) and \
                            norm(m.targets[0].value) == var:
                        at = m.targets[0].attr
                        v_ = m.value
                        # the guard is read the way attributes are looked
                        # up (instance, then class): X.<guard> or
                        # getattr(X, '<guard>'...) -- not from an instance
                        # dictionary, which misses class-level guards
                        proper = at not in ('guarded_getattr',
                                            'guarded_getitem') or (
                            isinstance(v_, ast.Attribute) and v_.attr == at
                        ) or (isinstance(v_, ast.Call) and isinstance(
                            v_.func, ast.Name) and v_.func.id == 'getattr'
                            and len(v_.args) >= 2 and isinstance(
                                v_.args[1], ast.Constant) and
                            v_.args[1].value == at) or isinstance(
                                v_, ast.Name)
                        if proper:
                            got.add(at)
                    # for name in ('guarded_getattr', ...):
                    #     setattr(var, name, getattr(outer, name))
                    if isinstance(m, ast.Call) and \
                            isinstance(m.func, ast.Name) and \
                            m.func.id == 'setattr' and len(m.args) == 3 and \
                            norm(m.args[0]) == var:
                        a1 = m.args[1]
                        if isinstance(a1, ast.Constant):
                            got.add(a1.value)
                        elif isinstance(a1, ast.Name):
                            for d in model.local_defs(fi, a1.id):
                                if isinstance(d, tuple) and d[0] == 'iter':
                                    ok, vals = model.fold(d[1], fi)
                                    if ok and isinstance(vals, (tuple,
                                                                list)):
                                        src = norm(m.args[2])
                                        if src.startswith('getattr(') and \
                                                a1.id in src:
                                            got |= set(vals)
                r.instance(fi.where, n, 'guards: ' + ','.join(sorted(
                    got & {'guarded_getattr', 'guarded_getitem'})))
                for need in ('guarded_getattr', 'guarded_getitem'):
                    if need not in got:
                        r.finding(fi.where, f'{var}.{need}', 'a namespace '
                                  'built during rendering does not receive '
                                  f'{need}: everything rendered under it is '
                                  'unguarded', node=n, ctx=fi)
            if isinstance(n, ast.Call):
                names = model.callee_names(n, fi)
                if any(x.endswith(':InstanceDict') for x in names):
                    ok = len(n.args) >= 2 and isinstance(n.args[1],
                                                          ast.Name)
                    r.instance(fi.where, n, 'namespace passed' if ok
                               else 'NO namespace')
                    if not ok:
                        r.finding(fi.where, n, 'InstanceDict built without '
                                  'the live namespace (no guard)', node=n,
                                  ctx=fi)
    # InstanceDict takes its guard from the namespace
    init = model.func('_DocumentTemplate', 'InstanceDict.__init__')
    nsp = init.params()[2] if len(init.params()) > 2 else None
    takes = False
    for n in own_nodes(init.node):
        if isinstance(n, ast.Assign) and any(
                isinstance(t, ast.Attribute) and t.attr in GUARD_ATTRS and
                isinstance(t.value, ast.Name) and t.value.id == 'self'
                for t in n.targets):
            srcs = [n.value]
            if isinstance(n.value, ast.Name):
                # guard = namespace.guarded_getattr (when none was given)
                srcs = [d for d in model.local_defs(init, n.value.id)
                        if isinstance(d, ast.AST)]
            for x in [y for s_ in srcs for y in ast.walk(s_)]:
                if _is_guard_source(x):
                    base = x.value if isinstance(x, ast.Attribute) \
                        else x.args[0]
                    if isinstance(base, ast.Name) and base.id == nsp:
                        takes = True
                        r.instance(init.where, n, 'guard taken from the '
                                   'namespace')
    if not takes:
        r.finding(init.where, 'self.guarded_getattr = ...', 'InstanceDict '
                  'does not take its guard from the namespace',
                  node=init.node, ctx=init)
    r.require_floor(8)
    return r


class _OS(BaseState):
    def __init__(self, env=None):
        self.env = dict(env or {})

    def key(self):
        return tuple(sorted(self.env.items()))

    def copy(self):
        n = _OS(self.env)
        n.trace = self.trace
        return n


class _OriginDomain(Domain):
    """Which namespace object a local names: 'fresh' (a TemplateDict built
    by this call) or 'foreign' (anything else)."""

    def __init__(self, model, fi):
        self.model = model
        self.fi = fi
        self.sites = []       # (node, var, origin)

    def _origin(self, v, st):
        if isinstance(v, ast.Call):
            names = self.model.callee_names(v, self.fi)
            if any(x.endswith(':TemplateDict') for x in names) or (
                    isinstance(v.func, ast.Call) and
                    norm(v.func) == 'type(self)'):
                return 'fresh'
        if isinstance(v, ast.Name):
            return st.env.get(v.id, 'foreign')
        return 'foreign'

    def raises(self, node, st):
        return []

    def effects(self, stmt, st):
        if isinstance(stmt, ast.Assign):
            for t in stmt.targets:
                if isinstance(t, ast.Attribute) and \
                        isinstance(t.value, ast.Name) and \
                        t.attr in ('guarded_getattr', 'guarded_getitem'):
                    self.sites.append((stmt, t.value.id, t.attr,
                                       st.env.get(t.value.id, 'foreign')))
            if len(stmt.targets) == 1 and \
                    isinstance(stmt.targets[0], ast.Name):
                st = st.copy()
                st.env[stmt.targets[0].id] = self._origin(stmt.value, st)
        for c in ast.walk(stmt):
            if isinstance(c, ast.Call) and isinstance(c.func, ast.Name) and \
                    c.func.id == 'setattr' and len(c.args) == 3 and \
                    isinstance(c.args[0], ast.Name):
                for nm in _setattr_names(self.model, self.fi, c):
                    if nm in ('guarded_getattr', 'guarded_getitem'):
                        self.sites.append((stmt, c.args[0].id, nm,
                                           st.env.get(c.args[0].id,
                                                      'foreign')))
        return st


def _setattr_names(model, fi, call):
    """The attribute names a setattr(obj, NAME, value) call may set: a
    constant, or a loop variable over a constant tuple of names."""
    a = call.args[1]
    ok, v = model.fold(a, fi)
    if ok and isinstance(v, str):
        return [v]
    if isinstance(a, ast.Name):
        for anc in ancestors(call):
            if isinstance(anc, ast.For) and any(
                    isinstance(x, ast.Name) and x.id == a.id
                    for x in ast.walk(anc.target)):
                ok, v = model.fold(anc.iter, fi)
                if ok and isinstance(v, (tuple, list)) and all(
                        isinstance(x, str) for x in v):
                    return list(v)
    return []


def rule_guard_owner(model):
    r = RuleResult('C05.R6', 'guards are installed only on a namespace the '
                   'installing function has just created: the guards of a '
                   'namespace handed in by the caller (a restricted '
                   'template rendering a sub-template) are never replaced')
    n = 0
    for fi in model.all_funcs():
        if fi.module.short == 'security':
            continue
        direct = any(isinstance(x, ast.Attribute) and
                     isinstance(x.ctx, ast.Store) and
                     x.attr in ('guarded_getattr', 'guarded_getitem') and
                     isinstance(x.value, ast.Name) and x.value.id != 'self'
                     for x in own_nodes(fi.node))
        via_setattr = any(
            isinstance(c, ast.Call) and isinstance(c.func, ast.Name)
            and c.func.id == 'setattr' and len(c.args) == 3 and
            {'guarded_getattr', 'guarded_getitem'} &
            set(_setattr_names(model, fi, c))
            for c in own_nodes(fi.node))
        if not direct and not via_setattr:
            continue
        dom = _OriginDomain(model, fi)
        Interp(dom).run(fi.node, _OS())
        seen = set()
        for node, var, attr, origin in dom.sites:
            k = (id(node), attr, origin)
            if k in seen:
                continue
            seen.add(k)
            n += 1
            r.instance(fi.where, node, f'{var}: {origin}')
            if origin != 'fresh':
                r.finding(fi.where, node, f'`{var}` may be a namespace '
                          'received from the caller here: its guards are '
                          'overwritten (an unrestricted sub-template '
                          'switches the guards off for the rest of the '
                          'restricted rendering)', node=node, ctx=fi)
    if n < 2:
        raise AnalysisError(f'C05.R6: only {n} guard installations found')
    r.floor = 2
    return r


def rule_index_removal(model):
    r = RuleResult('C05.R7', 'refused elements are removed completely: a '
                   'loop that deletes by previously collected positions '
                   'walks them from the highest down (deleting in ascending '
                   'order shifts the remaining positions, so a refused '
                   'element stays and an allowed one disappears)')
    n = 0
    for fi in model.all_funcs():
        for lp in own_nodes(fi.node):
            if not (isinstance(lp, ast.For) and
                    isinstance(lp.target, ast.Name)):
                continue
            iv = lp.target.id
            dels = []
            for x in ast.walk(lp):
                if isinstance(x, ast.Delete):
                    for t in x.targets:
                        if isinstance(t, ast.Subscript) and \
                                norm(t.slice) == iv:
                            dels.append(x)
                if isinstance(x, ast.Call) and \
                        isinstance(x.func, ast.Attribute) and \
                        x.func.attr == 'pop' and len(x.args) == 1 and \
                        norm(x.args[0]) == iv:
                    dels.append(x)
            if not dels:
                continue
            it = lp.iter
            # positions come from a list filled in an ascending index loop?
            src = None
            descending = False
            if isinstance(it, ast.Call) and norm(it.func) == 'reversed' and \
                    it.args and isinstance(it.args[0], ast.Name):
                src, descending = it.args[0].id, True
            elif isinstance(it, ast.Subscript) and norm(it.slice) == '::-1' \
                    and isinstance(it.value, ast.Name):
                src, descending = it.value.id, True
            elif isinstance(it, ast.Call) and norm(it.func) == 'sorted' and \
                    it.args and isinstance(it.args[0], ast.Name):
                src = it.args[0].id
                descending = any(k.arg == 'reverse' and
                                 isinstance(k.value, ast.Constant) and
                                 k.value.value for k in it.keywords)
            elif isinstance(it, ast.Name):
                src = it.id
            elif isinstance(it, ast.Call) and norm(it.func) == 'range':
                # deleting while walking a range: descending iff step < 0
                if len(it.args) == 3 and norm(it.args[2]).startswith('-'):
                    continue
                src = None
            if src is None:
                continue
            filled = [x for x in own_nodes(fi.node)
                      if isinstance(x, ast.Call) and
                      isinstance(x.func, ast.Attribute) and
                      x.func.attr == 'append' and
                      norm(x.func.value) == src]
            if not filled:
                continue
            if not descending:
                # an in-place reverse between filling and deleting
                for x in own_nodes(fi.node):
                    if isinstance(x, ast.Call) and \
                            isinstance(x.func, ast.Attribute) and \
                            norm(x.func.value) == src and \
                            x.func.attr == 'reverse' and \
                            filled[-1].lineno < x.lineno <= lp.lineno:
                        descending = True
                    if isinstance(x, ast.Call) and \
                            isinstance(x.func, ast.Attribute) and \
                            norm(x.func.value) == src and \
                            x.func.attr == 'sort' and any(
                                k.arg == 'reverse' and
                                isinstance(k.value, ast.Constant) and
                                k.value.value for k in x.keywords):
                        descending = True
            n += 1
            r.instance(fi.where, dels[0], 'descending' if descending
                       else 'ASCENDING')
            if not descending:
                r.finding(fi.where, dels[0], f'positions collected in '
                          f'`{src}` are deleted in ascending order: after '
                          'the first deletion the remaining positions are '
                          'off by one, so with two refused elements the '
                          'second stays visible and an allowed element is '
                          'dropped', node=dels[0], ctx=fi)
    if n < 1:
        # removal written as a filter: [x for i, x in enumerate(items)
        #                               if i not in refused]
        for fi in model.all_funcs():
            for c in own_nodes(fi.node):
                if isinstance(c, (ast.ListComp, ast.GeneratorExp)) and any(
                        isinstance(t, ast.Compare) and
                        isinstance(t.ops[0], ast.NotIn)
                        for g in c.generators for i_ in g.ifs
                        for t in ast.walk(i_)) and any(
                        isinstance(g.iter, ast.Call) and
                        norm(g.iter.func) == 'enumerate'
                        for g in c.generators):
                    n += 1
                    r.instance(fi.where, c, 'filter by position set')
    if n < 1:
        raise AnalysisError('C05.R7: removal-by-position loop of '
                            'skip_unauthorized not found')
    r.floor = 1
    return r


def _inl(rule):
    """Run a rule on the view in which helpers that are new w.r.t. the
    reference tree are inlined at their call sites (normalise.N2)."""
    def run(model):
        return rule(model.inlined_view())
    run.__name__ = rule.__name__
    return run


def rule_namespace_container(model):
    r = RuleResult('C05.R8', 'the guards accept reads from the namespace '
                   'object the engine itself builds (error_type / '
                   'error_value in handlers, _.namespace()): the type '
                   'registered as an allowed container is the type of the '
                   'DictInstance a TemplateDict call returns inside its '
                   '1-tuple, not of the tuple')
    m = model.modules.get('security')
    if m is None:
        raise AnalysisError('C05.R8: module security not found')
    call = model.func('_DocumentTemplate', 'TemplateDict.__call__')
    tuple_ret = [x for x in own_nodes(call.node)
                 if isinstance(x, ast.Return) and isinstance(
                     x.value, ast.Tuple) and len(x.value.elts) == 1]
    if not tuple_ret:
        raise AnalysisError('C05.R8: TemplateDict.__call__ does not return '
                            'a 1-tuple any more (anchor changed)')
    binds = {}
    for n in ast.walk(m.tree):
        if isinstance(n, ast.Assign) and len(n.targets) == 1 and \
                isinstance(n.targets[0], ast.Name):
            binds.setdefault(n.targets[0].id, []).append(n.value)
    nreg = 0
    for n in ast.walk(m.tree):
        if not (isinstance(n, ast.Assign) and isinstance(
                n.targets[0], ast.Subscript) and
                norm(n.targets[0].value) == 'ContainerAssertions'):
            continue
        key = n.targets[0].slice
        if not (isinstance(key, ast.Call) and norm(key.func) == 'type'
                and key.args and isinstance(key.args[0], ast.Name)):
            continue
        nreg += 1
        defs = binds.get(key.args[0].id, [])
        ok = bool(defs)
        for d in defs:
            # templateDict(...)[0]
            if not (isinstance(d, ast.Subscript) and isinstance(
                    d.slice, ast.Constant) and d.slice.value == 0 and
                    isinstance(d.value, ast.Call)):
                ok = False
                continue
            f = d.value.func
            fdefs = binds.get(f.id, []) if isinstance(f, ast.Name) else []
            if not (fdefs and all(
                    isinstance(v, ast.Call) and
                    norm(v.func).endswith('TemplateDict') for v in fdefs)):
                ok = False
        r.instance('security:<module>', n, 'type of the DictInstance'
                   if ok else 'TYPE OF SOMETHING ELSE')
        if not ok:
            r.finding('security:<module>', n, 'the type registered as an '
                      'allowed container is not that of the first element '
                      'of a TemplateDict call: under the security guards '
                      'error_type / error_value (and _.namespace() values) '
                      'cannot be read inside a handler', node=n, ctx=m)
    if nreg < 1:
        raise AnalysisError('C05.R8: registration in ContainerAssertions '
                            'not found')
    return r


INLINED_VIEW = True
RULES_PLAIN = [rule_namespace_container, rule_attr_reads, rule_item_reads, rule_underscore, rule_restricted, rule_propagation, rule_guard_owner, rule_index_removal]
RULES = [_inl(r_) for r_ in RULES_PLAIN] if INLINED_VIEW else RULES_PLAIN
EXPLANATION = (
    'Classification of every getattr-family call site with a dynamic name '
    'and of every element read of an iterated client sequence (reaching '
    'definitions of the callee: guard-or-fallback idiom); path-sensitive '
    'dominance of the underscore refusal over the client read and the cache '
    'store; structure of the restricted-evaluation branch; guard '
    'propagation to constructed namespaces.')
ASSUMPTIONS = [
    'what the guard itself answers (AccessControl) is out of scope',
    'mappings explicitly designated as namespaces (with/in mapping, call '
    'dictionaries) are searched by the namespace protocol and not judged',
]
TRUSTED = ['python ast']
