"""C18 -- concurrent renders of one shared template give sequential results.

R1 compile lock scope and publication order (_v_blocks before _v_cooked)
R2 who may write the compiled state
R3 render-time writes to shared objects are races
R4 class-level registries are written only at import time or under the lock
R5 no call path from inside the locked region re-enters the lock
R6 the render namespace is created per call
"""
import ast

from ..callgraph import CallGraph
from ..core import AnalysisError
from ..core import RuleResult
from ..core import norm
from ..flow import BaseState
from ..flow import Domain
from ..flow import Interp
from ..model import ancestors
from ..model import own_nodes
from ..shared import shared_writes

BLOCKS, COOKED = '_v_blocks', '_v_cooked'


def _cg(model):
    cg = getattr(model, '_dt_cg', None)
    if cg is None:
        cg = model._dt_cg = CallGraph(model)
        model._dt_compile = cg.compile_phase()
    return cg


def _lock_name(model):
    m = model.module('DT_String')
    for name, vals in m.globals.items():
        for v in vals:
            if isinstance(v, ast.Call) and \
                    norm(v.func) in ('Lock', 'threading.Lock', 'RLock',
                                     'threading.RLock'):
                return name, norm(v.func)
    raise AnalysisError('DT_String: compile lock not found')


class PubState(BaseState):
    __slots__ = ('blocks', 'trace', 'cur_exc')

    def __init__(self, blocks=False):
        self.blocks = blocks
        self.trace = ()
        self.cur_exc = None

    def key(self):
        return self.blocks

    def copy(self):
        n = PubState(self.blocks)
        n.trace = self.trace
        return n


class PubDomain(Domain):
    def __init__(self):
        self.bad = []

    def effects(self, stmt, st):
        ns = st
        for n in ast.walk(stmt):
            if isinstance(n, ast.Attribute) and isinstance(n.ctx, ast.Store):
                if n.attr == BLOCKS:
                    ns = PubState(True)
                elif n.attr == COOKED and not ns.blocks:
                    self.bad.append(stmt)
        return ns


def rule_lock(model):
    r = RuleResult('C18.R1', 'compiled state is stored under the compile '
                   'lock, blocks before the cooked flag')
    lock, kind = _lock_name(model)
    cook = model.func('DT_String', 'String.cook')
    withs = [n for n in own_nodes(cook.node) if isinstance(n, ast.With)
             and any(norm(i.context_expr) == lock for i in n.items)]
    r.instance(cook.where, f'with {lock}' if withs else 'NO lock',
               f'{kind}')
    stores = [n for n in own_nodes(cook.node) if isinstance(n, ast.Attribute)
              and isinstance(n.ctx, ast.Store)
              and n.attr in (BLOCKS, COOKED)]
    if len(stores) < 2:
        raise AnalysisError('String.cook: volatile stores not found')
    for s in stores:
        inside = any(a in withs for a in ancestors(s))
        r.instance(cook.where, s, 'under lock' if inside else 'OUTSIDE lock')
        if not inside:
            r.finding(cook.where, f'self.{s.attr} = ...', 'compiled state '
                      'is stored outside the compile lock: two threads '
                      'cooking at once can interleave their stores',
                      node=s, ctx=cook)
    dom = PubDomain()
    Interp(dom).run(cook.node, PubState())
    for b in dom.bad:
        r.finding(cook.where, b, f'{COOKED} is published before '
                  f'{BLOCKS}: a concurrent render sees the template as '
                  'cooked and reads missing / stale blocks', node=b,
                  ctx=cook)
    # readers test the flag, not the blocks
    call = model.func('DT_String', 'String.__call__')
    S = model.cls('DT_String', 'String')
    tests = []
    for mfi in S.methods.values():
        tests += [n for n in own_nodes(mfi.node) if isinstance(n, ast.Call)
                  and isinstance(n.func, ast.Name) and n.func.id == 'hasattr'
                  and len(n.args) == 2
                  and isinstance(n.args[1], ast.Constant)
                  and n.args[1].value in (BLOCKS, COOKED)]
    for t in tests:
        r.instance(call.where, t, 'reader test')
        if t.args[1].value != COOKED:
            r.finding(call.where, t, 'the render tests the blocks '
                      'attribute instead of the cooked flag published last',
                      node=t, ctx=call)
    if not tests:
        raise AnalysisError('String.__call__: cooked test not found')
    return r


def rule_writers(model):
    r = RuleResult('C18.R2', 'only cook (and freshly constructed section '
                   'templates) write the compiled state')
    for fi in model.all_funcs():
        for n in own_nodes(fi.node):
            if isinstance(n, ast.Attribute) and \
                    isinstance(n.ctx, (ast.Store, ast.Del)) and \
                    n.attr in (BLOCKS, COOKED):
                recv = norm(n.value)
                ok = False
                why = ''
                if fi.where == 'DT_String:String.cook' and recv == 'self':
                    ok, why = True, 'cook'
                elif recv != 'self' and isinstance(n.value, ast.Name):
                    # object constructed in this function
                    defs = model.local_defs(fi, recv)
                    if defs and all(isinstance(d, ast.Call) for d in defs):
                        ok, why = True, 'fresh object'
                else:
                    # self._v_cooked = self.cook()
                    st = n._dt_parent
                    if isinstance(st, ast.Assign) and \
                            isinstance(st.value, ast.Call) and \
                            norm(st.value.func) == 'self.cook':
                        ok, why = True, 'result of cook()'
                r.instance(fi.where, n._dt_parent, why or 'FOREIGN writer')
                if not ok:
                    r.finding(fi.where, n._dt_parent, 'compiled state is '
                              'written outside cook(): not covered by the '
                              'compile lock / publication order', node=n,
                              ctx=fi)
    r.require_floor(4)
    return r


def rule_races(model):
    r = RuleResult('C18.R3', 'no render-time write to an object shared by '
                   'concurrent renders')
    ws = shared_writes(model)
    for w in ws:
        fi, n = w['fi'], w['node']
        r.instance(fi.where, n, w['kind'])
        r.finding(fi.where, n, f'render-time write to {w["target"]} '
                  f'({w["kind"]}): concurrent renders of the template share '
                  'this object and can observe each other\'s per-render '
                  'value', node=n, ctx=fi)
    r.instance('<render phase>', 'shared-object stores enumerated',
               count=len(ws))
    return r


def rule_registry(model):
    r = RuleResult('C18.R4', 'class-level registries are written only at '
                   'import time or by code that runs only under the lock')
    cg = _cg(model)
    callers = {}
    for a, bs in cg.edges.items():
        for b in bs:
            callers.setdefault(b, set()).add(a)
    cook = 'DT_String:String.cook'
    # locked-only functions (greatest fixpoint): reachable from cook and
    # every caller is cook or locked-only
    cook_fi = cg.funcs[cook]
    start = set()
    lock = _lock_name(model)[0]
    for n in own_nodes(cook_fi.node):
        if isinstance(n, ast.With) and any(norm(i.context_expr) == lock
                                           for i in n.items):
            for c in ast.walk(n):
                if isinstance(c, ast.Call):
                    for t in model.resolve_callee(c.func, cook_fi):
                        if t[0] == 'func':
                            start.add(t[1].where)
    locked = cg.reachable(start) - {cook}
    changed = True
    while changed:
        changed = False
        for w in list(locked):
            cs = callers.get(w, set()) - {w}
            if not cs or any(c != cook and c not in locked for c in cs):
                locked.discard(w)
                changed = True
    for fi in model.all_funcs():
        for n in own_nodes(fi.node):
            rebinding = isinstance(n, ast.Assign) and any(
                isinstance(t, ast.Attribute) and t.attr == 'commands'
                for t in n.targets)
            if rebinding or (isinstance(n, ast.Assign) and
                    isinstance(n.targets[0], ast.Subscript) and
                    isinstance(n.targets[0].value, ast.Attribute) and
                    n.targets[0].value.attr == 'commands'):
                ok = fi.where in locked
                r.instance(fi.where, n, 'locked-only' if ok
                           else 'REACHABLE WITHOUT LOCK')
                if not ok:
                    cs = sorted(callers.get(fi.where, set()))[:4]
                    r.finding(fi.where, n, 'the tag registry is written by '
                              'a function that can run without the compile '
                              f'lock (callers: {cs})', node=n, ctx=fi)
    # module-level writes (import time) are fine; count them
    for m in model.modules.values():
        for st in m.tree.body:
            if isinstance(st, ast.Assign) and \
                    isinstance(st.targets[0], ast.Subscript) and \
                    'commands' in norm(st.targets[0].value):
                r.instance(m.short + ':<module>', st, 'import time')
    r.require_floor(2)
    return r


def rule_reentry(model):
    r = RuleResult('C18.R5', 'nothing called while the compile lock is held '
                   're-acquires it')
    cg = _cg(model)
    lock, kind = _lock_name(model)
    cook = model.func('DT_String', 'String.cook')
    inside = set()
    for n in own_nodes(cook.node):
        if isinstance(n, ast.With) and any(norm(i.context_expr) == lock
                                           for i in n.items):
            for c in ast.walk(n):
                if isinstance(c, ast.Call):
                    for t in model.resolve_callee(c.func, cook):
                        if t[0] == 'func':
                            inside.add(t[1].where)
    reach = cg.reachable(inside)
    r.instance(cook.where, f'{len(reach)} functions reachable under the '
               'lock')
    if 'Lock' in kind and 'RLock' not in kind:
        for bad in ('DT_String:String.cook', 'DT_String:String.__call__',
                    'DT_String:String.munge'):
            if bad in reach:
                r.finding(cook.where, f'reaches {bad}', 'a call made while '
                          f'holding the non-reentrant lock reaches {bad}, '
                          'which acquires it again: deadlock', node=cook.node,
                          ctx=cook)
    # other users of the lock
    for fi in model.all_funcs():
        for n in own_nodes(fi.node):
            if isinstance(n, ast.With) and any(
                    norm(i.context_expr) == lock for i in n.items):
                r.instance(fi.where, f'with {lock}')
            if isinstance(n, ast.Call) and norm(n.func) in (
                    f'{lock}.acquire', f'{lock}.release'):
                r.finding(fi.where, n, 'manual acquire/release of the '
                          'compile lock (not exception safe)', node=n,
                          ctx=fi)
    return r


def rule_namespace(model):
    r = RuleResult('C18.R6', 'every top-level call renders into its own '
                   'namespace object')
    call = model.func('DT_String', 'String.__call__')
    mdvar = None
    for n in own_nodes(call.node):
        if isinstance(n, ast.Assign) and isinstance(n.value, ast.Call) and \
                isinstance(n.targets[0], ast.Name) and any(
                    x.endswith(':TemplateDict')
                    for x in model.callee_names(n.value, call)):
            mdvar = n.targets[0].id
            r.instance(call.where, n, 'fresh namespace per call')
    if mdvar is None:
        r.finding(call.where, 'md = TemplateDict()', 'the template call does '
                  'not create its own namespace', node=call.node, ctx=call)
        r.instance(call.where, 'no namespace construction')
        return r
    for d in model.local_defs(call, mdvar):
        if isinstance(d, ast.Call):
            continue
        if not isinstance(d, ast.AST):
            raise AnalysisError(f'C18.R6: `{mdvar}` is bound in a way the '
                                f'analysis does not follow ({d!r})')
        ok = isinstance(d, ast.Name) and d.id in call.params()
        r.instance(call.where, f'{mdvar} = {norm(d)}',
                   'caller namespace (sub-template)' if ok else 'SHARED')
        if not ok:
            r.finding(call.where, f'{mdvar} = {norm(d)}', 'the render '
                      'namespace can be an object shared between calls',
                      node=call.node, ctx=call)
    # no module-level / class-level TemplateDict used by render code
    for m in model.modules.values():
        if m.short == 'security':
            continue
        for name, vals in m.globals.items():
            for v in vals:
                if isinstance(v, ast.Call) and 'TemplateDict' in norm(v.func):
                    r.finding(m.short + ':<module>', f'{name} = {norm(v)}',
                              'module-level namespace instance', ctx=m)
    return r


def rule_scanner(model):
    r = RuleResult('C18.R7', 'the (stateful) tag scanner is created afresh '
                   'for every compile, never shared between templates')
    S = model.cls('DT_String', 'String')
    n = 0
    for c in [S] + model.subclasses(S):
        f = c.methods.get('tagre')
        if f is None:
            continue
        for ret in own_nodes(f.node):
            if isinstance(ret, ast.Return) and ret.value is not None:
                n += 1
                fresh = isinstance(ret.value, ast.Call)
                r.instance(f.where, ret, 'fresh object' if fresh
                           else 'SHARED object')
                if not fresh:
                    # a compiled re pattern is immutable; a scanner
                    # instance of the repository keeps per-match state
                    t = model.resolve_name_expr(f.module, ret.value) \
                        if isinstance(ret.value, (ast.Name, ast.Attribute)) \
                        else None
                    stateful = True
                    if t and t[0] == 'value':
                        stateful = any(
                            isinstance(v, ast.Call) and any(
                                x[0] == 'class' for x in
                                model.resolve_callee(v.func, f))
                            for v in t[1])
                    if stateful:
                        r.finding(f.where, ret, 'tagre() hands out one '
                                  'shared scanner object; the scanner keeps '
                                  'the current match in its instance '
                                  'attributes, so two compiles running at '
                                  'once corrupt each other\'s matches',
                                  node=ret, ctx=f)
    if n < 2:
        raise AnalysisError('tagre methods not found')
    return r


def _inl(rule):
    """Run a rule on the view in which helpers that are new w.r.t. the
    reference tree are inlined at their call sites (normalise.N2)."""
    def run(model):
        return rule(model.inlined_view())
    run.__name__ = rule.__name__
    return run


def rule_one_shot(model):
    r = RuleResult('C18.R8', 'no attribute of a template or compiled tag '
                   '(objects shared by all renders and threads) holds a '
                   'one-shot iterator: the first render to reach it would '
                   'consume it, concurrent renders split its elements')
    from .. import oneshot
    from ..shared import shared_classes
    sc = shared_classes(model)
    return oneshot.fill_rule(
        r, model, lambda fi, kind: fi.cls is not None and
        id(fi.cls) in sc and kind in ('attribute', 'element'), 40,
        'an attribute of a shared compiled object')


def _handed_out(model):
    """(method, return node, attribute, offending store) for render-time
    callables of compiled objects -- __call__ / eval / render taking the
    namespace -- that return an attribute of the compiled object whose
    value may be a mutable object built once while compiling."""
    from .c17 import _maybe_mutable
    out = []
    for ci in model.all_classes():
        for name in ('__call__', 'eval', 'render'):
            f = ci.methods.get(name)
            if f is None or len(f.params()) != 2:
                continue
            for x in own_nodes(f.node):
                if not (isinstance(x, ast.Return) and isinstance(
                        x.value, ast.Attribute) and isinstance(
                        x.value.value, ast.Name) and
                        x.value.value.id == 'self'):
                    continue
                attr = x.value.attr
                for g in ci.methods.values():
                    for y in own_nodes(g.node):
                        if isinstance(y, ast.Assign) and any(
                                isinstance(t, ast.Attribute) and
                                t.attr == attr and norm(t.value) == 'self'
                                for t in y.targets) and _maybe_mutable(
                                    model, g, y.value):
                            out.append((f, x, attr, y))
    return out


def rule_compile_time_values(model):
    r = RuleResult('C18.R9', 'what a compiled tag hands to the templates '
                   'at render time is computed at render time: a value '
                   'built once while compiling (an evaluated literal, a '
                   'pre-computed list) and returned as it is by the '
                   "tag's render-time callable is ONE object for every "
                   'rendering and every thread -- a mutable one (the '
                   'accumulator idiom `acc="[]"`) carries items from one '
                   'rendering into the next')
    n = 0
    for f, x, attr, y in _handed_out(model):
        n += 1
        r.instance(f.where, x, 'COMPILE-TIME OBJECT HANDED OUT')
        r.finding(f.where, x, f'{f.cls.name}.{f.name}() returns self.{attr}, '
                  f'which is set to `{norm(y.value)}` while compiling: if '
                  'that is a list, dict or other mutable object every '
                  'rendering (and every thread) receives the same one and '
                  'sees what the others appended', node=x, ctx=f)
    from ..model import Model
    cm = Model(sources={'src/DocumentTemplate/zz_literal_control.py':
                        'class Lit:\n'
                        '    def __init__(self, value):\n'
                        '        self.value = value\n'
                        '        self.n = 1\n'
                        '    def __call__(self, md):\n'
                        '        return self.value\n'
                        'class Num:\n'
                        '    def __init__(self, value):\n'
                        '        self.n = len(value)\n'
                        '    def eval(self, md):\n'
                        '        return self.n\n'}, root=None)
    got = [(f.where, a) for f, x, a, y in _handed_out(cm)]
    ok = got == [('zz_literal_control:Lit.__call__', 'value')]
    r.control('control: a literal holder is recognised, a number holder '
              'is not', ok)
    if not ok:
        raise AnalysisError(f'C18.R9: control failed ({got})')
    return r


INLINED_VIEW = False
RULES_PLAIN = [rule_compile_time_values, rule_lock, rule_writers, rule_races, rule_registry, rule_reentry, rule_namespace, rule_scanner, rule_one_shot]
RULES = [_inl(r_) for r_ in RULES_PLAIN] if INLINED_VIEW else [
    (_inl(r_) if r_ is rule_namespace else r_) for r_ in RULES_PLAIN]
EXPLANATION = (
    'Lock-scope and publication-order check on cook (path-sensitive), '
    'who-may-write query for the volatile compiled state, enumeration of '
    'render-time stores to shared objects, locked-only closure over the '
    'reverse call graph for registry writers, reachability from the locked '
    'region, per-call namespace query.')
ASSUMPTIONS = [
    'single attribute stores are atomic (GIL)',
    'Eval\'s lazy compile lives in RestrictedPython (publishes rcode last; '
    'idempotent)',
    'does not decide schedules; interleavings inside dependencies are out '
    'of scope',
]
TRUSTED = ['python ast']
