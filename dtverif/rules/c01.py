"""C01 -- text outside tags is reproduced verbatim (structural clauses).

R1 the line-end skip matches only blanks followed by a newline, anchored at
   the cursor, and advances by the match length
R2 only the block parser skips line ends, and only right after a block tag
R3 provenance: literal text reaches the block lists as plain slices of the
   source and the output unchanged; pieces are concatenated in order
R4 the scanner's tag-prefix literals agree with their slice widths
"""
import ast

from ..core import AnalysisError
from ..core import RuleResult
from ..core import norm
from ..flow import BaseState
from ..flow import Domain
from ..flow import Interp
from ..linear import lin_eq
from ..linear import parse_expr
from ..model import ancestors
from ..model import own_nodes
from .. import regexa

REFERENCE = '[ \t]*\n'


def rule_eol(model):
    r = RuleResult('C01.R1', 'the line-end skip consumes exactly one run of '
                   'blanks ending in a newline, at the cursor')
    fi = model.func('DT_String', 'String.skip_eol')
    pat = None
    pname = None
    def compiled(d):
        # re.compile(<const>) directly, or a module-level name bound to it
        if isinstance(d, ast.Name):
            for g in fi.module.globals.get(d.id, []):
                c = compiled(g)
                if c is not None:
                    return c
            return None
        if d is not None and isinstance(d, ast.Call) and \
                norm(d.func) == 're.compile' and d.args:
            ok, v = model.fold(d.args[0], None, fi.module)
            if ok:
                return v
        return None
    for p in fi.params():
        v = compiled(model.param_default(fi, p))
        if v is not None:
            pat, pname = v, p
    if pat is None:
        # the pattern object used in the body is a module-level constant
        for n in own_nodes(fi.node):
            if isinstance(n, ast.Call) and \
                    isinstance(n.func, ast.Attribute) and \
                    isinstance(n.func.value, ast.Name) and \
                    n.func.attr in ('match', 'search', 'fullmatch'):
                v = compiled(n.func.value)
                if v is not None:
                    pat, pname = v, n.func.value.id
    def hand_scan():
        # a hand-written scan: what it calls blank must be blank or tab
        text_p = fi.params()[1] if len(fi.params()) > 1 else None
        scans = []
        for n in own_nodes(fi.node):
            if isinstance(n, ast.Call) and isinstance(
                    n.func, ast.Attribute) and n.func.attr in (
                        'strip', 'lstrip', 'rstrip', 'isspace', 'split') \
                    and any(isinstance(x, ast.Name) and x.id == text_p
                            for x in ast.walk(n.func.value)):
                scans.append(n)
        if not scans:
            raise AnalysisError('skip_eol: line-end pattern not found')
        for n in scans:
            chars = None
            if n.args and isinstance(n.args[0], ast.Constant) and \
                    isinstance(n.args[0].value, str) and \
                    n.func.attr != 'isspace':
                chars = set(n.args[0].value)
            ok = chars is not None and chars <= {' ', '\t'}
            r.instance(fi.where, n, 'blank/tab only' if ok
                       else 'ALL WHITESPACE')
            if not ok:
                r.finding(fi.where, n, 'the line-end skip treats every '
                          'whitespace character (\\r, \\x0b, \\x0c, '
                          'NBSP ...) as a blank: such characters after a '
                          'block tag are dropped instead of being '
                          'reproduced', node=n, ctx=fi)
        return r
    if pat is None:
        return hand_scan()
    inc, wit = regexa.included(pat, REFERENCE)
    r.instance(fi.where, repr(pat), 'subset of [ \\t]*\\n' if inc
               else f'accepts {wit!r}')
    if not inc:
        r.finding(fi.where, repr(pat), 'the line-end pattern also matches '
                  f'{wit!r}: more than one run of blanks ending in a '
                  'newline is dropped after a block tag', node=fi.node,
                  ctx=fi)
    inc2, wit2 = regexa.included(REFERENCE, pat)
    if not inc2:
        r.instance(fi.where, repr(pat), f'does not skip {wit2!r} (allowed: '
                   'skipping less keeps text)')
    uses = [n for n in own_nodes(fi.node) if isinstance(n, ast.Call)
            and isinstance(n.func, ast.Attribute)
            and isinstance(n.func.value, ast.Name)
            and n.func.value.id == pname]
    for u in uses:
        r.instance(fi.where, u, u.func.attr)
        if u.func.attr != 'match':
            r.finding(fi.where, u, f'the pattern is applied with '
                      f'.{u.func.attr}(): not anchored at the cursor, text '
                      'before the line end is skipped too', node=u, ctx=fi)
        elif len(u.args) != 2:
            r.finding(fi.where, u, 'the pattern is not matched at the '
                      'cursor position', node=u, ctx=fi)
    if not uses:
        return hand_scan()
    # the cursor advances by the match length only
    start = fi.params()[2]
    rets = [n for n in own_nodes(fi.node) if isinstance(n, ast.Return)]
    asg = [n for n in own_nodes(fi.node) if isinstance(n, ast.Assign)
           and norm(n.targets[0]) == start]
    for a in asg:
        mo = None
        for x in ast.walk(a.value):
            if isinstance(x, ast.Call) and isinstance(x.func, ast.Attribute)\
                    and x.func.attr == 'end':
                mo = norm(x.func.value)
        ok = mo is not None and (
            lin_eq(a.value, parse_expr(f'{start} + {mo}.end(0) - '
                                       f'{mo}.start(0)')) or
            norm(a.value) in (f'{mo}.end(0)', f'{mo}.end()'))
        r.instance(fi.where, a, 'advance by match length' if ok else '?')
        if not ok:
            r.finding(fi.where, a, 'the cursor is not advanced by exactly '
                      'the length of the matched line end', node=a, ctx=fi)
    for x in rets:
        mo = None
        for y in ast.walk(x.value) if x.value is not None else ():
            if isinstance(y, ast.Call) and isinstance(y.func, ast.Attribute)\
                    and y.func.attr == 'end':
                mo = norm(y.func.value)
        adv = mo is not None and x.value is not None and (
            lin_eq(x.value, parse_expr(f'{start} + {mo}.end(0) - '
                                       f'{mo}.start(0)')) or
            norm(x.value) in (f'{mo}.end(0)', f'{mo}.end()'))
        if adv:
            r.instance(fi.where, x, 'advance by match length')
        if norm(x.value) != start and not adv:
            r.finding(fi.where, x, 'skip_eol does not return the cursor',
                      node=x, ctx=fi)
    return r


def rule_who_skips(model):
    r = RuleResult('C01.R2', 'line ends are skipped only by the block '
                   'parser, right after a block open / continuation / '
                   'close tag')
    n = 0
    for fi in model.all_funcs():
        for c in own_nodes(fi.node):
            if isinstance(c, ast.Call) and isinstance(c.func, ast.Attribute)\
                    and c.func.attr == 'skip_eol':
                n += 1
                ok_where = fi.where == 'DT_String:String.parse_block'
                r.instance(fi.where, c, 'block parser' if ok_where
                           else 'FOREIGN')
                if not ok_where:
                    r.finding(fi.where, c, 'a line end is skipped outside '
                              'the block parser: text after a non-block tag '
                              '(or at the start of a template) is dropped',
                              node=c, ctx=fi)
                    continue
                arg = c.args[1] if len(c.args) > 1 else None
                params = fi.params()
                ok = False
                if isinstance(arg, ast.Name) and arg.id == params[2]:
                    # the function's own start parameter, first statement
                    first = fi.node.body[0]
                    if isinstance(first, ast.Expr) and \
                            isinstance(first.value, ast.Constant):
                        first = fi.node.body[1]
                    ok = c in ast.walk(first)
                elif isinstance(arg, ast.BinOp):
                    # l_ + len(tag) of the current match
                    ok = _is_end_of_match(model, fi, arg)
                if not ok:
                    r.finding(fi.where, c, 'the skip is not applied at the '
                              'end of a block tag (argument '
                              f'`{norm(arg)}`)', node=c, ctx=fi)
    # callers hand the end of the open tag to parse_block
    pb = model.func('DT_String', 'String.parse_block')
    for fi in (model.func('DT_String', 'String.parse'),):
        for c in own_nodes(fi.node):
            if isinstance(c, ast.Call) and isinstance(c.func, ast.Attribute)\
                    and c.func.attr == 'parse_block':
                a = c.args[1]
                ok = False
                if isinstance(a, ast.Name):
                    for d in model.local_defs(fi, a.id):
                        if isinstance(d, ast.BinOp) and \
                                _is_end_of_match(model, fi, d):
                            ok = True
                r.instance(fi.where, c, 'start = end of the open tag' if ok
                           else '?')
                if not ok:
                    r.finding(fi.where, c, 'parse_block is not started at '
                              'the end of the block\'s open tag', node=c,
                              ctx=fi)
    if n < 2:
        raise AnalysisError('C01.R2: skip_eol call sites not found')
    return r


def _is_end_of_match(model, fi, e):
    """e == START(m) + len(TAG(m)) for one match m."""
    if not (isinstance(e, ast.BinOp) and isinstance(e.op, ast.Add)):
        return False
    parts = [e.left, e.right]
    loc = tag = None
    for p in parts:
        if isinstance(p, ast.Name):
            loc = p.id
        elif isinstance(p, ast.Call) and isinstance(p.func, ast.Name) and \
                p.func.id == 'len' and isinstance(p.args[0], ast.Name):
            tag = p.args[0].id
    if loc is None or tag is None:
        return False
    mo_loc = _match_of(model, fi, loc, 'start')
    mo_tag = _match_of(model, fi, tag, 'tag')
    return mo_loc is not None and mo_loc == mo_tag


def _match_of(model, fi, name, what, depth=0):
    """Identity of the match object a local stems from: `x = m.start(0)`
    (what='start') or `x, ... = self._parseTag(m, ...)` (what='tag'); also
    through a helper method that returns a tuple of such locals (the
    identity then names the helper call, so that two results of one call
    that stem from one match agree)."""
    for d in model.local_defs(fi, name):
        if what == 'start' and isinstance(d, ast.Call) and \
                isinstance(d.func, ast.Attribute) and d.func.attr == 'start':
            return norm(d.func.value)
        if isinstance(d, tuple) and d[0] == 'unpack' and \
                isinstance(d[1], ast.Call) and d[1].args and \
                isinstance(d[1].func, ast.Attribute):
            call = d[1]
            if 'parseTag' in call.func.attr:
                if what == 'tag':
                    return norm(call.args[0])
                continue
            if norm(call.func.value) != 'self' or fi.cls is None or \
                    depth > 1:
                continue
            h = model.lookup_method(fi.cls, call.func.attr)
            if h is None:
                continue
            # position of `name` in the unpacking target
            pos = None
            for st in own_nodes(fi.node):
                if isinstance(st, ast.Assign) and st.value is call and \
                        isinstance(st.targets[0], ast.Tuple):
                    for i, te in enumerate(st.targets[0].elts):
                        if isinstance(te, ast.Name) and te.id == name:
                            pos = i
            rets = [x for x in own_nodes(h.node) if isinstance(x, ast.Return)]
            if pos is None or not rets or not all(
                    isinstance(x.value, ast.Tuple) and
                    pos < len(x.value.elts) and
                    isinstance(x.value.elts[pos], ast.Name) for x in rets):
                continue
            ids = {_match_of(model, h, x.value.elts[pos].id, what, depth + 1)
                   for x in rets}
            if len(ids) == 1 and None not in ids:
                return f'{h.name}@{getattr(call, "lineno", 0)}:' + \
                    next(iter(ids))
    return None


def _passes_through(model, hfi):
    """The helper returns its first parameter or that parameter's
    `simple_form` on every path."""
    p = hfi.params()[0] if hfi.params() else None
    if p is None:
        return False
    rets = [n for n in own_nodes(hfi.node) if isinstance(n, ast.Return)]
    if not rets:
        return False

    def ok(e, depth=0):
        if isinstance(e, ast.Name) and e.id == p:
            ds = model.local_defs(hfi, p)
            return all(d == 'param' or (not isinstance(d, (str, tuple))
                                        and ok(d, depth + 1))
                       for d in ds) if depth < 3 else False
        if isinstance(e, ast.Name) and depth < 3:
            ds = model.local_defs(hfi, e.id)
            return bool(ds) and all(not isinstance(d, (str, tuple)) and
                                    ok(d, depth + 1) for d in ds)
        if isinstance(e, ast.Attribute) and e.attr == 'simple_form':
            return isinstance(e.value, ast.Name) and (
                e.value.id == p or ok(e.value, depth + 1))
        if isinstance(e, ast.IfExp):
            return ok(e.body, depth + 1) and ok(e.orelse, depth + 1)
        return False
    return all(x.value is not None and ok(x.value) for x in rets)


def _classify(model, fi, a, text, depth, _busy=None):
    kinds = set()
    _busy = _busy or set()
    srcs = [a]
    if isinstance(a, ast.Name):
        srcs = [d for d in model.local_defs(fi, a.id)]
    for d in srcs:
        if d == 'param' and isinstance(a, ast.Name) and a.id == text:
            kinds.add('slice')
        elif isinstance(d, (str, tuple)):
            kinds.add('other')
        elif isinstance(d, ast.Subscript) and \
                isinstance(d.slice, ast.Slice) and norm(d.value) == text:
            kinds.add('slice')
        elif isinstance(d, ast.Call) and isinstance(d.func, ast.Name) and \
                d.func.id in ('command', 'scommand'):
            kinds.add('command')
        elif isinstance(d, ast.Attribute) and d.attr == 'simple_form':
            kinds.add('command')
        elif isinstance(d, ast.Tuple):
            kinds.add('section')
        elif isinstance(d, ast.Call) and len(d.args) == 1 and \
                not d.keywords and depth < 3:
            tg = model.resolve_callee(d.func, fi)
            hfi = tg[0][1] if len(tg) == 1 and tg[0][0] == 'func' else None
            if id(d) in _busy:
                continue        # r = helper(r): judged at the outer level
            sub = _classify(model, fi, d.args[0], text, depth + 1,
                            _busy | {id(d)})
            if hfi is not None and _passes_through(model, hfi) and \
                    sub == {'command'}:
                kinds.add('command')
            else:
                kinds.add('TRANSFORMED:' + norm(d))
        else:
            kinds.add('TRANSFORMED:' + norm(d))
    return kinds


class _PS(BaseState):
    def __init__(self, env=None):
        self.env = dict(env or {})

    def key(self):
        return tuple(sorted(self.env.items()))

    def copy(self):
        n = _PS(self.env)
        n.trace = self.trace
        return n


class _PiecesDomain(Domain):
    """render_blocks for an output list of a known size class (0, 1,
    2 = several): which kind of value does it return?"""

    def __init__(self, out, n):
        self.out, self.n = out, n
        self.returned = []

    def num(self, e, st):
        if isinstance(e, ast.Constant) and isinstance(e.value, int):
            return e.value
        if isinstance(e, ast.Call) and norm(e.func) == 'len' and \
                len(e.args) == 1 and norm(e.args[0]) == self.out:
            return 'N'
        if isinstance(e, ast.Name) and st.env.get(e.id) == 'N':
            return 'N'
        return None

    def truth(self, e, st):
        if isinstance(e, ast.UnaryOp) and isinstance(e.op, ast.Not):
            v = self.truth(e.operand, st)
            return None if v is None else not v
        if isinstance(e, ast.BoolOp):
            vs = [self.truth(v, st) for v in e.values]
            if isinstance(e.op, ast.And):
                if any(v is False for v in vs):
                    return False
                return True if all(v is True for v in vs) else None
            if any(v is True for v in vs):
                return True
            return False if all(v is False for v in vs) else None
        if isinstance(e, ast.Name) and e.id == self.out:
            return self.n > 0
        if self.num(e, st) == 'N':
            return self.n > 0
        if isinstance(e, ast.Compare) and len(e.ops) == 1:
            a, b = self.num(e.left, st), self.num(e.comparators[0], st)
            if a is None or b is None or (a == 'N') == (b == 'N'):
                return None
            k = b if a == 'N' else a
            op = e.ops[0]
            if a != 'N':
                op = {ast.Lt: ast.Gt, ast.Gt: ast.Lt, ast.LtE: ast.GtE,
                      ast.GtE: ast.LtE}.get(type(op), type(op))()
            # N stands for 0, 1 or "2 or more"
            lo, hi = (self.n, self.n) if self.n < 2 else (2, None)
            tests = {
                ast.Eq: (lo == hi == k, (hi is not None and
                                         (k < lo or k > hi)) or
                         (hi is None and k < lo)),
                ast.Lt: (hi is not None and hi < k, lo >= k),
                ast.LtE: (hi is not None and hi <= k, lo > k),
                ast.Gt: (lo > k, hi is not None and hi <= k),
                ast.GtE: (lo >= k, hi is not None and hi < k),
            }
            if isinstance(op, ast.NotEq):
                t, f = tests[ast.Eq]
                return False if t else (True if f else None)
            if type(op) in tests:
                t, f = tests[type(op)]
                return True if t else (False if f else None)
        return None

    def branch(self, test, st):
        v = self.truth(test, st)
        if v is None:
            return [(True, st), (False, st)]
        return [(v, st)]

    def raises(self, node, st):
        return []

    def effects(self, stmt, st):
        if isinstance(stmt, ast.Assign) and len(stmt.targets) == 1 and \
                isinstance(stmt.targets[0], ast.Name):
            st = st.copy()
            if self.num(stmt.value, st) == 'N':
                st.env[stmt.targets[0].id] = 'N'
            else:
                st.env.pop(stmt.targets[0].id, None)
        return st

    def kind(self, e, st):
        if isinstance(e, ast.IfExp):
            t = self.truth(e.test, st)
            if t is None:
                return self.kind(e.body, st) | self.kind(e.orelse, st)
            return self.kind(e.body if t else e.orelse, st)
        if isinstance(e, ast.Constant) and e.value == '':
            return {'EMPTY'}
        if isinstance(e, ast.Subscript) and norm(e.value) == self.out and \
                isinstance(e.slice, ast.Constant) and e.slice.value == 0:
            return {'FIRST'}
        if isinstance(e, ast.Call) and e.args and \
                norm(e.args[0]) == self.out and \
                'join' in norm(e.func).split('.')[-1]:
            return {'JOIN'}
        return {'OTHER:' + norm(e)}

    def on_return(self, node, st):
        self.returned.extend(sorted(
            self.kind(node.value, st) if node.value is not None
            else {'OTHER:None'}))
        return [], st


def rule_provenance(model):
    r = RuleResult('C01.R3', 'literal text is appended to the block lists '
                   'as plain slices of the source, rendered unchanged and '
                   'concatenated in order')
    S = model.cls('DT_String', 'String')
    parse = S.methods['parse']
    text = parse.params()[1]
    for fi in (parse, S.methods['parse_block']):
        for c in own_nodes(fi.node):
            if isinstance(c, ast.Call) and isinstance(c.func, ast.Attribute)\
                    and c.func.attr == 'append' and \
                    norm(c.func.value) in ('result', 'blocks') and c.args:
                a = c.args[0]
                kinds = _classify(model, fi, a, text, 0)
                bad = [k for k in kinds if k.startswith('TRANSFORMED')
                       or k == 'other']
                r.instance(fi.where, c, '/'.join(sorted(kinds)))
                if bad:
                    r.finding(fi.where, c, 'a block-list entry is neither a '
                              'plain slice of the source nor a compiled '
                              f'command ({bad[0]}): literal text is altered '
                              'at compile time', node=c, ctx=fi)
    # guards of the literal appends are plain truthiness
    for n in own_nodes(parse.node):
        if isinstance(n, ast.If) and any(
                isinstance(c, ast.Call) and
                isinstance(c.func, ast.Attribute) and
                c.func.attr == 'append' for s in n.body
                for c in ast.walk(s)) and isinstance(n.test, ast.Name):
            r.instance(parse.where, f'if {norm(n.test)}', 'non-empty guard')
        elif isinstance(n, ast.If) and any(
                isinstance(c, ast.Call) and
                isinstance(c.func, ast.Attribute) and
                c.func.attr == 'append' and c.args and
                isinstance(c.args[0], ast.Name) and any(
                    isinstance(d, ast.Subscript)
                    for d in model.local_defs(parse, c.args[0].id))
                for s in n.body for c in ast.walk(s)):
            r.finding(parse.where, f'if {norm(n.test)}', 'literal text is '
                      'appended only under a condition other than being '
                      'non-empty (e.g. whitespace-only text dropped)',
                      node=n, ctx=parse)
    # the section handed to a nested parse is a prefix of the source
    # (judged under C06.R4), the trailing text is text[start:]
    # render: a str/bytes block is appended unchanged
    rb = model.func('_DocumentTemplate', 'render_blocks_')
    loop = [n for n in rb.node.body if isinstance(n, ast.For)]
    if len(loop) != 1:
        raise AnalysisError('render_blocks_: block loop not found')
    lv = loop[0].target.id
    for n in ast.walk(loop[0]):
        if isinstance(n, ast.Assign) and isinstance(n.targets[0], ast.Name) \
                and n.targets[0].id == lv:
            guards = []
            prev = n
            for a in ancestors(n):
                if isinstance(a, ast.If):
                    pos = any(prev is x for x in a.body)
                    guards.append(('' if pos else 'not ') + norm(a.test))
                if a is loop[0]:
                    break
                prev = a
            ok = any(g.startswith('isinstance(block, tuple)') or
                     g.startswith(f'not isinstance({lv}, (str, bytes))') or
                     g.startswith(f'isinstance({lv}, tuple)')
                     for g in guards)
            r.instance(rb.where, n, 'guarded' if ok else 'UNGUARDED')
            if not ok:
                r.finding(rb.where, n, 'a literal text block can be '
                          'rewritten before it is appended to the output',
                          node=n, ctx=rb)
    apps = [c for c in ast.walk(loop[0]) if isinstance(c, ast.Call)
            and isinstance(c.func, ast.Attribute)
            and c.func.attr == 'append'
            and norm(c.func.value) == rb.params()[1]]
    for c in apps:
        r.instance(rb.where, c, 'output append')
        if norm(c.args[0]) != lv:
            r.finding(rb.where, c, 'the output receives something other '
                      'than the block itself', node=c, ctx=rb)
        par = c._dt_parent._dt_parent
        if isinstance(par, ast.If):
            t = norm(par.test)
            if t not in (f'append and {lv}', f'{lv} and append', lv):
                r.finding(rb.where, f'if {t}', 'literal blocks are appended '
                          'under a condition other than being non-empty',
                          node=par, ctx=rb)
    if not apps:
        raise AnalysisError('render_blocks_: output append not found')
    # render_blocks: '' / the single piece / join in order
    rbs = model.func('_DocumentTemplate', 'render_blocks')
    rets = [norm(x.value) for x in own_nodes(rbs.node)
            if isinstance(x, ast.Return)]
    r.instance(rbs.where, ' | '.join(rets))
    # decided per number of pieces (0, 1, several): what is returned
    out = None
    for c in own_nodes(rbs.node):
        if isinstance(c, ast.Call) and isinstance(c.func, ast.Name) and \
                c.func.id == rb.name and len(c.args) >= 2 and \
                isinstance(c.args[1], ast.Name):
            out = c.args[1].id
    if out is None:
        raise AnalysisError('render_blocks: call of the block interpreter '
                            'not found')
    for npieces, what in ((0, 'no piece'), (1, 'one piece'),
                          (2, 'several pieces')):
        dom = _PiecesDomain(out, npieces)
        Interp(dom).run(rbs.node, _PS())
        kinds = sorted(set(dom.returned))
        r.instance(rbs.where, f'{what}: returns ' + '/'.join(kinds))
        ok = {0: {'EMPTY', 'JOIN'}, 1: {'FIRST', 'JOIN'}, 2: {'JOIN'}}[
            npieces]
        if not kinds or not set(kinds) <= ok:
            r.finding(rbs.where, ' | '.join(rets), 'render_blocks does not '
                      'return the pieces joined in order (with ' + what +
                      ' it returns ' + ('/'.join(kinds) or 'nothing') + ')',
                      node=rbs.node, ctx=rbs)
    for n in own_nodes(rbs.node):
        if isinstance(n, ast.Call) and isinstance(n.func, ast.Name) and \
                n.func.id in ('sorted', 'reversed', 'set'):
            r.finding(rbs.where, n, 'the rendered pieces are reordered',
                      node=n, ctx=rbs)
    r.require_floor(10)
    return r


def prefix_tests(model, fi):
    """(literal, node, width_ok) for every test of a tag prefix in the
    scanner: `text[a:a+k] == LIT` or `text.startswith(LIT, a)`."""
    out = []
    for c in model.closure_nodes(fi):
        if isinstance(c, ast.Compare) and len(c.ops) == 1 and \
                isinstance(c.ops[0], (ast.Eq, ast.NotEq)) and \
                isinstance(c.left, ast.Subscript) and \
                isinstance(c.left.slice, ast.Slice) and \
                isinstance(c.comparators[0], ast.Constant) and \
                isinstance(c.comparators[0].value, str):
            lit = c.comparators[0].value
            sl = c.left.slice
            if sl.lower is None or sl.upper is None:
                continue
            ok = lin_eq(sl.upper, ast.BinOp(
                left=sl.lower, op=ast.Add(),
                right=ast.Constant(value=len(lit))))
            out.append((lit, c, ok, sl.lower))
        elif isinstance(c, ast.Call) and isinstance(c.func, ast.Attribute) \
                and c.func.attr == 'startswith' and len(c.args) == 2 and \
                isinstance(c.args[0], ast.Constant) and \
                isinstance(c.args[0].value, str):
            out.append((c.args[0].value, c, True, c.args[1]))
    return out


def rule_prefix_widths(model):
    r = RuleResult('C01.R4', 'every tag prefix of the SGML syntaxes is '
                   'recognised by the scanner, and the tag name / entity '
                   'body is read from the first character after it')
    from . import scan
    res = scan.scan(model)
    fi = res.fi
    for lit, c, ok, base in prefix_tests(model, fi):
        if len(lit) < 2:
            continue
        r.instance(fi.where, c, f'width {len(lit)}' if ok
                   else 'width differs from the literal')
    recognised = {k for k, _ in res.success}
    for p in scan.PREFIXES:
        hit = sorted(k for k in recognised if k.startswith(p))
        r.instance(fi.where, f'prefix {p!r}',
                   'recognised' if hit else 'NEVER RECOGNISED')
        if not hit:
            r.finding(fi.where, f'prefix {p!r}', f'no path of the scanner '
                      f'returns a tag for text starting with {p!r} (a '
                      'compared slice is not as wide as its literal, or the '
                      'branch is gone): such tags are copied out as literal '
                      'text', node=fi.node, ctx=fi)
    for known, endv in sorted(res.success, key=str):
        want = {'</dtml-': '/', '<dtml-': '', '&dtml-': '', '&dtml.': ''}
        if known in want and endv[0] == 'str' and endv[1] != want[known]:
            r.finding(fi.where, f'end marker of {known!r}', f'a tag that '
                      f'starts with {known!r} is reported with the end '
                      f'marker {endv[1]!r}', node=fi.node, ctx=fi)
    nreads = 0
    for kind, node, k, lk, known in res.events.values():
        if lk == 0 or kind in ('search', 'call'):
            continue
        allowed = {'match': (lk,), 'fullmatch': (lk,), 'count': (lk,),
                   'find': (lk, lk + 1), 'slice': (0, lk)}[kind]
        nreads += 1
        r.instance(fi.where, node, f'{kind} at offset {k} after {known!r}')
        if k not in allowed:
            r.finding(fi.where, node, f'the tag name is read from offset '
                      f'{k}, the prefix {known!r} is {lk} characters long',
                      node=node, ctx=fi)
    if nreads < 12:
        raise AnalysisError(f'C01.R4: only {nreads} reads of the text '
                            'relative to the candidate position understood')
    r.floor = 12
    return r


def rule_tag_identity(model):
    r = RuleResult('C01.R5', 'the tag text a tag reader returns is the '
                   'matched text itself (the parser advances by its '
                   'length)')
    for mshort, qual in (('DT_String', 'String.parseTag'),
                         ('DT_HTML', 'HTML.parseTag')):
        fi = model.func(mshort, qual)
        tagvar = None
        for n in own_nodes(fi.node):
            if isinstance(n, ast.Assign) and \
                    isinstance(n.targets[0], ast.Tuple) and \
                    isinstance(n.value, ast.Call) and \
                    isinstance(n.value.func, ast.Attribute) and \
                    n.value.func.attr == 'group' and n.value.args and \
                    isinstance(n.value.args[0], ast.Constant) and \
                    n.value.args[0].value == 0:
                tagvar = n.targets[0].elts[0].id
        if tagvar is None:
            raise AnalysisError(f'{fi.where}: group(0) unpack not found')
        defs = model.local_defs(fi, tagvar)
        r.instance(fi.where, f'{tagvar} = group(0)',
                   f'{len(defs)} definition(s)')
        if len(defs) != 1:
            r.finding(fi.where, f'{tagvar} reassigned', 'the tag text is '
                      'modified after matching: the parser advances by the '
                      'length of the modified text and re-reads (or skips) '
                      'part of the source as literal text', node=fi.node,
                      ctx=fi)
        for ret in own_nodes(fi.node):
            if isinstance(ret, ast.Return) and \
                    isinstance(ret.value, ast.Tuple) and ret.value.elts:
                if norm(ret.value.elts[0]) != tagvar:
                    r.finding(fi.where, ret, 'a tag reader returns '
                              'something other than the matched text as '
                              'the tag', node=ret, ctx=fi)
    # the parser advances by START + len(TAG)
    S = model.cls('DT_String', 'String')
    for name in ('parse', 'parse_block', 'parse_close'):
        fi = S.methods[name]
        adv = [n for n in own_nodes(fi.node) if isinstance(n, ast.BinOp)
               and isinstance(n.op, ast.Add) and 'len(tag)' in norm(n)]
        for a in adv:
            ok = _is_end_of_match(model, fi, a)
            r.instance(fi.where, a, 'end of match' if ok else '?')
            if not ok:
                r.finding(fi.where, a, 'the cursor is not advanced to the '
                          'end of the matched tag', node=a, ctx=fi)
    r.require_floor(5)
    return r


# what the EPFS scanner may claim as a tag, at most: %( name [blanks
# arguments] ) suffix -- arguments never contain a ")" or an unbalanced
# quote outside / inside a "..." value; the suffix is a printf-style
# conversion (width[.precision]letter) or one of the block markers [ ] !
EPFS_AT_MOST = (r'%\([a-zA-Z0-9_/.\-]+([\x00- ]+([^)"]|"[^"]*")*)?\)'
                r'([0-9]*[.]?[0-9]*[a-zA-Z]|[\]\[!])')


def rule_epfs_upper(model):
    r = RuleResult('C01.R6', 'the EPFS tag recogniser claims only text of '
                   'the form %(name[ arguments])suffix with balanced quotes, '
                   'no ")" outside quotes and a printf-style or block-marker '
                   'suffix: everything else stays literal text')
    import re
    tg = model.func('DT_String', 'String.tagre')
    rx = model.returned_regex(tg)
    if rx is None:
        raise AnalysisError('String.tagre pattern not found')
    pat, flags, call = rx
    try:
        inc, wit = regexa.included(pat, EPFS_AT_MOST, flags, 0)
    except regexa.Unsupported as e:
        raise AnalysisError(f'C01.R6: {e}')
    r.instance(tg.where, repr(pat)[:120], 'within the tag grammar' if inc
               else f'also claims {wit!r}')
    if not inc:
        r.finding(tg.where, 'EPFS tag language (upper bound)', 'the EPFS '
                  f'tag pattern also matches {wit!r}, which is not a '
                  'well-formed tag: near-tag literal text is claimed by '
                  'the scanner (and cut at the wrong place or rejected) '
                  'instead of being reproduced', node=call, ctx=tg)
    # control: a pattern that ignores quotes must be reported
    ctl, _ = regexa.included(r'%\([a-z]+( .*)?\)[a-z]', EPFS_AT_MOST,
                             re.S, 0)
    r.control('control: quote-blind pattern exceeds the grammar', not ctl)
    return r


def compiled_block_origins(model):
    """Where the compiled blocks a template stores (self._v_blocks = ...)
    come from.  -> list of (fi, node, kind, container, key_deps) with kind
    'parse' (parsed by this template right here) or 'shared' (read from a
    container that outlives / is shared between templates: a module-level
    or class-level mapping).  key_deps: the `self.<attr>` / names the
    lookup key is computed from."""
    S = model.cls('DT_String', 'String')
    out = []
    for fi in model.closure(S.methods['cook']):
        for n in own_nodes(fi.node):
            if not (isinstance(n, ast.Assign) and any(
                    isinstance(t, ast.Attribute) and t.attr == '_v_blocks'
                    for t in n.targets)):
                continue
            seen = set()

            def deps(e, depth=0):
                d = set()
                for x in ast.walk(e):
                    if isinstance(x, ast.Attribute) and isinstance(
                            x.value, ast.Name) and x.value.id == 'self':
                        d.add('self.' + x.attr)
                    elif isinstance(x, ast.Call) and norm(x.func) == 'type' \
                            and x.args and norm(x.args[0]) == 'self':
                        d.add('self.__class__')
                    elif isinstance(x, ast.Name) and depth < 4 and \
                            x.id not in seen:
                        seen.add(x.id)
                        for df in model.local_defs(fi, x.id):
                            if isinstance(df, ast.AST):
                                d |= deps(df, depth + 1)
                return d

            def origins(e, depth=0):
                if isinstance(e, ast.Call) and isinstance(
                        e.func, ast.Attribute) and e.func.attr == 'parse' \
                        and norm(e.func.value) == 'self':
                    return [('parse', None, set())]
                if isinstance(e, ast.Call) and isinstance(
                        e.func, ast.Name):
                    # parse = self.parse; blocks = parse(source)
                    fd = [d for d in model.local_defs(fi, e.func.id)]
                    if fd and all(isinstance(d, ast.AST) and
                                  norm(d) == 'self.parse' for d in fd):
                        return [('parse', None, set())]
                cont = key = None
                if isinstance(e, ast.Subscript):
                    cont, key = e.value, e.slice
                elif isinstance(e, ast.Call) and isinstance(
                        e.func, ast.Attribute) and e.func.attr in (
                            'get', 'setdefault', 'pop') and e.args:
                    cont, key = e.func.value, e.args[0]
                if cont is not None:
                    shared = False
                    if isinstance(cont, ast.Name) and not [
                            d for d in model.local_defs(fi, cont.id)]:
                        shared = True          # module-level name
                    elif isinstance(cont, ast.Attribute):
                        base = norm(cont.value)
                        if base in ('self.__class__', 'type(self)') or (
                                base == 'self' and model.lookup_class_attr(
                                    S, cont.attr)[1] is not None):
                            shared = True      # class-level attribute
                        elif base != 'self':
                            shared = True
                    if shared:
                        return [('shared', norm(cont), deps(key))]
                if isinstance(e, ast.Name) and depth < 4:
                    res = []
                    for df in model.local_defs(fi, e.id):
                        if isinstance(df, ast.AST):
                            res += origins(df, depth + 1)
                    return res
                if isinstance(e, ast.IfExp):
                    return origins(e.body, depth + 1) + \
                        origins(e.orelse, depth + 1)
                if isinstance(e, ast.BoolOp):
                    res = []
                    for v in e.values:
                        res += origins(v, depth + 1)
                    return res
                return []
            for kind, cont, kd in origins(n.value):
                out.append((fi, n, kind, cont, kd))
    return out


READER_DEPS = {'self.__class__', 'self.tagre', 'self.parseTag',
               'self._parseTag', 'self.commands'}


def rule_block_origin(model):
    r = RuleResult('C01.R7', 'the blocks a template renders are the parse '
                   'of its own source by its own tag reader: blocks taken '
                   'from a store shared between templates are looked up by '
                   'a key that identifies the reader (class), since the '
                   'same text is a different template in the other syntax')
    os_ = compiled_block_origins(model)
    for fi, n, kind, cont, kd in os_:
        r.instance(fi.where, n, 'parsed here' if kind == 'parse' else
                   f'shared store {cont} keyed by {sorted(kd)}')
        if kind == 'shared' and not (kd & READER_DEPS):
            r.finding(fi.where, n, f'compiled blocks are taken from the '
                      f'shared store `{cont}` by a key that does not '
                      'identify the tag reader: a template of the other '
                      'syntax with the same text gets foreign blocks (its '
                      'literal text is interpreted as tags, its tags are '
                      'emitted as text)', node=n, ctx=fi)
    if not any(k == 'parse' for _, _, k, _, _ in os_):
        raise AnalysisError('C01.R7: cook() does not parse the source')
    r.floor = 1
    return r


def _block_attrs(ci):
    """Attributes of a tag class that hold a compiled block list: assigned
    from `<section>.blocks` by one of its methods."""
    out = set()
    for fi in ci.methods.values():
        for n in own_nodes(fi.node):
            if isinstance(n, ast.Assign) and isinstance(
                    n.value, ast.Attribute) and n.value.attr == 'blocks':
                for t in n.targets:
                    if isinstance(t, ast.Attribute) and isinstance(
                            t.value, ast.Name) and t.value.id == 'self':
                        out.add(t.attr)
    return out


def rule_body_only_rendered(model):
    r = RuleResult('C01.R8', 'the text of a block body reaches the output '
                   'only by rendering the body: outside the constructors the '
                   'compiled block lists of a tag are handed to '
                   'render_blocks (or passed on to a function that does so) '
                   'and never taken apart, measured, repeated or returned '
                   '(a short cut that emits body text by itself bypasses '
                   'the per-element work: guards, skipped elements, '
                   'bindings)')
    from ..shared import shared_classes
    sc = shared_classes(model)
    # (function where) -> set of local / parameter names bound to a body
    holders = {}
    attrs_of = {}
    funcs = {fi.where: fi for fi in model.all_funcs()}
    for kind, ci in sc.values():
        if kind != 'tag':
            continue
        ba = _block_attrs(ci)
        if not ba:
            continue
        for fi in ci.methods.values():
            if fi.name == '__init__':
                continue
            attrs_of[fi.where] = ba
            holders.setdefault(fi.where, set())

    def body_expr(e, fi):
        if isinstance(e, ast.Attribute) and isinstance(e.value, ast.Name) \
                and e.value.id == 'self' and \
                e.attr in attrs_of.get(fi.where, ()):
            return True
        return isinstance(e, ast.Name) and e.id in holders.get(fi.where, ())
    changed = True
    rounds = 0
    while changed and rounds < 8:
        changed = False
        rounds += 1
        for w in list(holders):
            fi = funcs[w]
            for n in own_nodes(fi.node):
                if isinstance(n, ast.Assign) and body_expr(n.value, fi):
                    for t in n.targets:
                        if isinstance(t, ast.Name) and \
                                t.id not in holders[w]:
                            holders[w].add(t.id)
                            changed = True
                if isinstance(n, ast.Call):
                    for t in model.resolve_callee(n.func, fi):
                        if t[0] != 'func' or \
                                t[1].module.short == '_DocumentTemplate':
                            continue
                        callee = t[1]
                        ps = callee.params()
                        off = 1 if (callee.cls is not None and
                                    ps[:1] == ['self'] and
                                    isinstance(n.func, ast.Attribute)) else 0
                        for i, a in enumerate(n.args):
                            if body_expr(a, fi) and i + off < len(ps):
                                hs = holders.setdefault(callee.where, set())
                                if ps[i + off] not in hs:
                                    hs.add(ps[i + off])
                                    changed = True
                        for kw in n.keywords:
                            if kw.arg in ps and body_expr(kw.value, fi):
                                hs = holders.setdefault(callee.where, set())
                                if kw.arg not in hs:
                                    hs.add(kw.arg)
                                    changed = True
    n_use = 0
    from ..model import parent as _parent
    for w in sorted(holders):
        fi = funcs[w]
        aliases = {'render_blocks'}
        for n in own_nodes(fi.node):
            if isinstance(n, ast.Assign) and isinstance(
                    n.value, ast.Name) and n.value.id == 'render_blocks' \
                    and isinstance(n.targets[0], ast.Name):
                aliases.add(n.targets[0].id)
        for n in own_nodes(fi.node):
            if not (isinstance(n, (ast.Name, ast.Attribute)) and
                    isinstance(getattr(n, 'ctx', None), ast.Load) and
                    body_expr(n, fi)):
                continue
            par = _parent(n)
            if isinstance(par, ast.Attribute):
                continue                  # self.section seen as `self`
            if isinstance(par, ast.keyword):
                par = _parent(par)        # f(section=section)
            n_use += 1
            verdict = None
            if isinstance(par, ast.Call) and (n in par.args or any(
                    kw.value is n for kw in par.keywords)):
                f = par.func
                if (isinstance(f, ast.Name) and f.id in aliases) or any(
                        t[0] == 'func' for t in
                        model.resolve_callee(f, fi)):
                    verdict = 'rendered / passed on'
                elif isinstance(f, ast.Name) and f.id in (
                        'len', 'list', 'tuple', 'iter', 'enumerate',
                        'sorted', 'reversed', 'str', 'repr'):
                    verdict = None
                else:
                    verdict = 'rendered / passed on'
            elif isinstance(par, ast.Assign) and par.value is n:
                verdict = 'alias'
            elif isinstance(par, (ast.If, ast.While, ast.IfExp)) and \
                    par.test is n:
                verdict = 'emptiness test'
            elif isinstance(par, (ast.BoolOp, ast.UnaryOp)):
                verdict = 'emptiness test'
            elif isinstance(par, ast.Compare) and all(
                    isinstance(o, (ast.Is, ast.IsNot)) for o in par.ops):
                verdict = 'identity test'
            elif isinstance(par, (ast.Tuple, ast.List)) and isinstance(
                    _parent(par), ast.Call):
                verdict = 'rendered / passed on'
            r.instance(fi.where, par if par is not None else n,
                       verdict or 'TAKEN APART')
            if verdict is None:
                r.finding(fi.where, par, f'the compiled body `{norm(n)}` is '
                          'inspected or used other than by rendering it: '
                          'body text can reach the output (or be '
                          'suppressed) without the tag\'s per-element '
                          'rendering', node=par, ctx=fi)
    if n_use < 12:
        raise AnalysisError(f'C01.R8: only {n_use} uses of compiled bodies '
                            'found')
    return r


def rule_scan_restart(model):
    r = RuleResult('C01.R9', 'a candidate the hand-written scanner rejects '
                   'costs exactly one character: the scan resumes right '
                   'behind the character that looked like a tag start, so '
                   'whatever follows a near-tag fragment ("&dtml-" without '
                   'a proper reference, "<" ...) is still seen as the tag, '
                   'entity or block it is')
    sc = model.func('DT_HTML', 'dtml_re_class.search')
    n = 0
    for f in model.closure(sc):
        for lp in [x for x in own_nodes(f.node) if isinstance(x, ast.While)]:
            # cursor: second argument of the search for a tag-start
            # character at the head of the loop; S: where it matched
            cur = mo = None
            for st in lp.body[:3]:
                if isinstance(st, ast.Assign) and isinstance(
                        st.value, ast.Call) and len(st.value.args) == 2 and \
                        isinstance(st.value.args[1], ast.Name) and \
                        isinstance(st.targets[0], ast.Name):
                    cur, mo = st.value.args[1].id, st.targets[0].id
                    break
            if cur is None:
                continue
            svar = None
            for st in lp.body[:5]:
                if isinstance(st, ast.Assign) and isinstance(
                        st.targets[0], ast.Name) and norm(st.value) in (
                        f'{mo}.start(0)', f'{mo}.start()'):
                    svar = st.targets[0].id
            if svar is None:
                continue
            for x in ast.walk(lp):
                if isinstance(x, ast.Assign) and any(
                        isinstance(t, ast.Name) and t.id == cur
                        for t in x.targets):
                    n += 1
                    ok = lin_eq(x.value, parse_expr(f'{svar} + 1'))
                    r.instance(f.where, x, 'next character' if ok
                               else 'SKIPS TEXT')
                    if not ok:
                        r.finding(f.where, x, 'after a rejected candidate '
                                  f'the scan resumes at {norm(x.value)}, not '
                                  f'at {svar} + 1: a tag, entity or block '
                                  'that starts inside the skipped text is '
                                  'emitted as source text (and the body of a '
                                  'swallowed block unconditionally)',
                                  node=x, ctx=f)
    if n < 1:
        raise AnalysisError('C01.R9: the restart of the tag scanner after a '
                            'rejected candidate was not found')
    return r


RULES = [rule_eol, rule_who_skips, rule_provenance, rule_prefix_widths,
         rule_tag_identity, rule_epfs_upper, rule_block_origin,
         rule_body_only_rendered, rule_scan_restart]
EXPLANATION = (
    'Regex language inclusion of the line-end pattern in [ \\t]*\\n; '
    'who-may-call query for skip_eol with origin pairing of its argument; '
    'provenance classification of everything appended to block lists and '
    'to the output; width agreement of the scanner\'s prefix literals.')
ASSUMPTIONS = ['does not decide that START/END arithmetic tiles the text, '
               'that the scanner never claims near-tag text, nor the '
               'concatenation law']
TRUSTED = ['re._parser', 'python ast']
